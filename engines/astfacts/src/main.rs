// astfacts: parse the macro-expanded source of a crate (rustc -Zunpretty=expanded)
// with syn and dump a JSON syntax tree for the Python rule layer.
//
// usage: astfacts <expanded.rs> <out.json> <crate-name>
use proc_macro2::{Delimiter, TokenStream, TokenTree};
use quote::ToTokens;
use serde_json::{json, Value};
use syn::punctuated::Punctuated;
use syn::{Expr, ImplItem, Item, Pat, Stmt, Token};

fn toks<T: ToTokens>(t: &T) -> String {
    let s = t.to_token_stream().to_string();
    // normalise the spacing proc-macro2 inserts
    s.replace(" :: ", "::")
        .replace(":: ", "::")
        .replace(" ::", "::")
        .replace(" < ", "<")
        .replace(" >", ">")
        .replace("< ", "<")
        .replace("& ", "&")
        .replace(" ,", ",")
}

fn path_str(p: &syn::Path) -> String {
    let mut s = String::new();
    if p.leading_colon.is_some() {
        s.push_str("::");
    }
    let mut first = true;
    for seg in &p.segments {
        if !first {
            s.push_str("::");
        }
        first = false;
        s.push_str(&seg.ident.to_string());
    }
    s
}

fn path_full(p: &syn::Path) -> String {
    toks(p)
}

fn qpath(qself: &Option<syn::QSelf>, p: &syn::Path) -> Value {
    match qself {
        None => json!({"e":"path","p":path_str(p),"full":path_full(p)}),
        Some(q) => json!({"e":"path","p":path_str(p),"full":path_full(p),"qself":toks(&*q.ty)}),
    }
}

fn lit(l: &syn::Lit) -> Value {
    match l {
        syn::Lit::Str(s) => json!({"e":"lit","t":"str","v":s.value()}),
        syn::Lit::ByteStr(s) => {
            let v: String = s.value().iter().map(|&b| b as char).collect();
            json!({"e":"lit","t":"bstr","v":v})
        }
        syn::Lit::CStr(_) => json!({"e":"lit","t":"cstr"}),
        syn::Lit::Byte(b) => json!({"e":"lit","t":"byte","v":b.value()}),
        syn::Lit::Char(c) => json!({"e":"lit","t":"char","v":c.value().to_string()}),
        syn::Lit::Int(i) => json!({"e":"lit","t":"int","v":i.base10_digits(),"suffix":i.suffix(),"src":i.to_string()}),
        syn::Lit::Float(f) => json!({"e":"lit","t":"float","v":f.base10_digits(),"suffix":f.suffix()}),
        syn::Lit::Bool(b) => json!({"e":"lit","t":"bool","v":b.value}),
        syn::Lit::Verbatim(v) => json!({"e":"lit","t":"verbatim","v":v.to_string()}),
        _ => json!({"e":"lit","t":"other"}),
    }
}

fn exprs<'a, I: IntoIterator<Item = &'a Expr>>(it: I) -> Value {
    Value::Array(it.into_iter().map(expr).collect())
}

fn block(b: &syn::Block) -> Value {
    json!({"e":"block","stmts": Value::Array(b.stmts.iter().map(stmt).collect())})
}

fn stmt(s: &Stmt) -> Value {
    match s {
        Stmt::Local(l) => {
            let (init, els) = match &l.init {
                Some(i) => (
                    expr(&i.expr),
                    match &i.diverge {
                        Some((_, e)) => expr(e),
                        None => Value::Null,
                    },
                ),
                None => (Value::Null, Value::Null),
            };
            json!({"s":"let","pat":pat(&l.pat),"init":init,"else":els})
        }
        Stmt::Item(i) => json!({"s":"item","item":item(i, "")}),
        Stmt::Expr(e, semi) => json!({"s":"expr","x":expr(e),"semi":semi.is_some()}),
        Stmt::Macro(m) => json!({"s":"expr","x":mac(&m.mac),"semi":m.semi_token.is_some()}),
    }
}

fn split_commas(ts: TokenStream) -> Vec<TokenStream> {
    let mut out = vec![];
    let mut cur = TokenStream::new();
    for tt in ts {
        match &tt {
            TokenTree::Punct(p) if p.as_char() == ',' => {
                out.push(std::mem::take(&mut cur));
            }
            _ => cur.extend(std::iter::once(tt)),
        }
    }
    if !cur.is_empty() {
        out.push(cur);
    }
    out
}

fn mac(m: &syn::Macro) -> Value {
    let name = path_str(&m.path);
    let last = name.rsplit("::").next().unwrap_or("").to_string();
    if last == "format_args" || last == "format_args_nl" || last == "const_format_args" {
        let parts = split_commas(m.tokens.clone());
        let mut template = Value::Null;
        let mut args = vec![];
        for (i, p) in parts.into_iter().enumerate() {
            if i == 0 {
                if let Ok(l) = syn::parse2::<syn::LitStr>(p.clone()) {
                    template = Value::String(l.value());
                    continue;
                }
            }
            // named argument `name = expr`
            match syn::parse2::<Expr>(p.clone()) {
                Ok(Expr::Assign(a)) => args.push(json!({"name": toks(&*a.left), "x": expr(&a.right)})),
                Ok(e) => args.push(json!({"x": expr(&e)})),
                Err(_) => args.push(json!({"x": {"e":"other","tokens":p.to_string()}})),
            }
        }
        return json!({"e":"fmt","nl": last == "format_args_nl","template":template,"args":args});
    }
    // generic macro: try to parse the arguments as a comma separated expression list
    let parsed = m.parse_body_with(Punctuated::<Expr, Token![,]>::parse_terminated);
    match parsed {
        Ok(p) => json!({"e":"macro","name":name,"args":exprs(p.iter())}),
        Err(_) => json!({"e":"macro","name":name,"tokens":m.tokens.to_string()}),
    }
}

fn expr(e: &Expr) -> Value {
    match e {
        Expr::Array(a) => json!({"e":"array","xs":exprs(a.elems.iter())}),
        Expr::Assign(a) => json!({"e":"assign","l":expr(&a.left),"r":expr(&a.right)}),
        Expr::Async(a) => json!({"e":"async","body":block(&a.block)}),
        Expr::Await(a) => json!({"e":"await","x":expr(&a.base)}),
        Expr::Binary(b) => json!({"e":"bin","op":toks(&b.op),"l":expr(&b.left),"r":expr(&b.right)}),
        Expr::Block(b) => {
            let mut v = block(&b.block);
            if let Some(l) = &b.label {
                v["label"] = json!(l.name.ident.to_string());
            }
            v
        }
        Expr::Break(b) => json!({"e":"break","x": b.expr.as_ref().map(|x| expr(x)).unwrap_or(Value::Null),
            "label": b.label.as_ref().map(|l| l.ident.to_string())}),
        Expr::Call(c) => json!({"e":"call","f":expr(&c.func),"args":exprs(c.args.iter())}),
        Expr::Cast(c) => json!({"e":"cast","x":expr(&c.expr),"ty":toks(&*c.ty)}),
        Expr::Closure(c) => json!({"e":"closure","params":Value::Array(c.inputs.iter().map(pat).collect()),
            "move": c.capture.is_some(), "body":expr(&c.body)}),
        Expr::Const(c) => json!({"e":"constblock","body":block(&c.block)}),
        Expr::Continue(_) => json!({"e":"continue"}),
        Expr::Field(f) => json!({"e":"field","x":expr(&f.base),"f": match &f.member {
            syn::Member::Named(i) => i.to_string(), syn::Member::Unnamed(i) => i.index.to_string() }}),
        Expr::ForLoop(f) => json!({"e":"for","pat":pat(&f.pat),"iter":expr(&f.expr),"body":block(&f.body)}),
        Expr::Group(g) => expr(&g.expr),
        Expr::If(i) => {
            // `if let` appears as cond = Expr::Let
            json!({"e":"if","cond":expr(&i.cond),"then":block(&i.then_branch),
                "else": i.else_branch.as_ref().map(|(_, e)| expr(e)).unwrap_or(Value::Null)})
        }
        Expr::Index(i) => json!({"e":"index","x":expr(&i.expr),"i":expr(&i.index)}),
        Expr::Infer(_) => json!({"e":"infer"}),
        Expr::Let(l) => json!({"e":"let","pat":pat(&l.pat),"x":expr(&l.expr)}),
        Expr::Lit(l) => lit(&l.lit),
        Expr::Loop(l) => json!({"e":"loop","body":block(&l.body)}),
        Expr::Macro(m) => mac(&m.mac),
        Expr::Match(m) => json!({"e":"match","on":expr(&m.expr),"arms":Value::Array(m.arms.iter().map(|a| {
            json!({"pat":pat(&a.pat),"guard":a.guard.as_ref().map(|(_, g)| expr(g)).unwrap_or(Value::Null),"body":expr(&a.body)})
        }).collect())}),
        Expr::MethodCall(m) => json!({"e":"mcall","recv":expr(&m.receiver),"m":m.method.to_string(),
            "turbofish": m.turbofish.as_ref().map(|t| toks(t)),
            "args":exprs(m.args.iter())}),
        Expr::Paren(p) => expr(&p.expr),
        Expr::Path(p) => qpath(&p.qself, &p.path),
        Expr::Range(r) => json!({"e":"range","lo":r.start.as_ref().map(|x| expr(x)).unwrap_or(Value::Null),
            "hi":r.end.as_ref().map(|x| expr(x)).unwrap_or(Value::Null),
            "incl": matches!(r.limits, syn::RangeLimits::Closed(_))}),
        Expr::RawAddr(r) => json!({"e":"ref","x":expr(&r.expr),"mut":false}),
        Expr::Reference(r) => json!({"e":"ref","x":expr(&r.expr),"mut":r.mutability.is_some()}),
        Expr::Repeat(r) => json!({"e":"repeat","x":expr(&r.expr),"len":expr(&r.len)}),
        Expr::Return(r) => json!({"e":"ret","x":r.expr.as_ref().map(|x| expr(x)).unwrap_or(Value::Null)}),
        Expr::Struct(s) => json!({"e":"struct","p":path_str(&s.path),
            "fields":Value::Array(s.fields.iter().map(|f| json!([match &f.member {
                syn::Member::Named(i) => i.to_string(), syn::Member::Unnamed(i) => i.index.to_string() }, expr(&f.expr)])).collect()),
            "rest": s.rest.as_ref().map(|x| expr(x)).unwrap_or(Value::Null)}),
        Expr::Try(t) => json!({"e":"try","x":expr(&t.expr)}),
        Expr::TryBlock(t) => json!({"e":"tryblock","body":block(&t.block)}),
        Expr::Tuple(t) => json!({"e":"tuple","xs":exprs(t.elems.iter())}),
        Expr::Unary(u) => json!({"e":"unary","op":toks(&u.op),"x":expr(&u.expr)}),
        Expr::Unsafe(u) => json!({"e":"unsafe","body":block(&u.block)}),
        Expr::While(w) => json!({"e":"while","cond":expr(&w.cond),"body":block(&w.body)}),
        Expr::Verbatim(v) => json!({"e":"other","tokens":v.to_string()}),
        other => json!({"e":"other","tokens":toks(other)}),
    }
}

fn pat(p: &Pat) -> Value {
    match p {
        Pat::Const(c) => json!({"p":"const","x":block(&c.block)}),
        Pat::Ident(i) => json!({"p":"bind","n":i.ident.to_string(),"byref":i.by_ref.is_some(),"mut":i.mutability.is_some(),
            "sub": i.subpat.as_ref().map(|(_, s)| pat(s)).unwrap_or(Value::Null)}),
        Pat::Lit(l) => json!({"p":"lit","x":lit(&l.lit)}),
        Pat::Macro(m) => json!({"p":"macro","x":mac(&m.mac)}),
        Pat::Or(o) => json!({"p":"or","xs":Value::Array(o.cases.iter().map(pat).collect())}),
        Pat::Paren(p) => pat(&p.pat),
        Pat::Path(p) => json!({"p":"path","v":path_str(&p.path)}),
        Pat::Range(r) => json!({"p":"range","lo":r.start.as_ref().map(|x| expr(x)).unwrap_or(Value::Null),
            "hi":r.end.as_ref().map(|x| expr(x)).unwrap_or(Value::Null),
            "incl": matches!(r.limits, syn::RangeLimits::Closed(_))}),
        Pat::Reference(r) => json!({"p":"ref","x":pat(&r.pat)}),
        Pat::Rest(_) => json!({"p":"rest"}),
        Pat::Slice(s) => json!({"p":"slice","xs":Value::Array(s.elems.iter().map(pat).collect())}),
        Pat::Struct(s) => json!({"p":"struct","v":path_str(&s.path),
            "fields":Value::Array(s.fields.iter().map(|f| json!([match &f.member {
                syn::Member::Named(i) => i.to_string(), syn::Member::Unnamed(i) => i.index.to_string() }, pat(&f.pat)])).collect()),
            "rest": s.rest.is_some()}),
        Pat::Tuple(t) => json!({"p":"tuple","xs":Value::Array(t.elems.iter().map(pat).collect())}),
        Pat::TupleStruct(t) => json!({"p":"tstruct","v":path_str(&t.path),"xs":Value::Array(t.elems.iter().map(pat).collect())}),
        Pat::Type(t) => {
            let mut v = pat(&t.pat);
            v["ty"] = json!(toks(&*t.ty));
            v
        }
        Pat::Wild(_) => json!({"p":"wild"}),
        Pat::Verbatim(v) => json!({"p":"other","tokens":v.to_string()}),
        other => json!({"p":"other","tokens":toks(other)}),
    }
}

fn attrs(a: &[syn::Attribute]) -> Value {
    Value::Array(a.iter().map(|x| Value::String(toks(&x.meta))).collect())
}

fn sig(s: &syn::Signature) -> Value {
    let params: Vec<Value> = s
        .inputs
        .iter()
        .map(|a| match a {
            syn::FnArg::Receiver(r) => json!({"self":true,"ref":r.reference.is_some(),"mut":r.mutability.is_some()}),
            syn::FnArg::Typed(t) => json!({"pat":pat(&t.pat),"ty":toks(&*t.ty)}),
        })
        .collect();
    json!({"name":s.ident.to_string(),"params":params,
        "generics": toks(&s.generics),
        "ret": match &s.output { syn::ReturnType::Default => Value::Null, syn::ReturnType::Type(_, t) => json!(toks(&**t)) }})
}

fn item(i: &Item, modpath: &str) -> Value {
    match i {
        Item::Fn(f) => json!({"i":"fn","path":format!("{}{}", modpath, f.sig.ident),"vis":toks(&f.vis),"attrs":attrs(&f.attrs),
            "sig":sig(&f.sig),"body":block(&f.block)}),
        Item::Impl(im) => {
            let self_ty = toks(&*im.self_ty);
            let tr = im.trait_.as_ref().map(|(_, p, _)| path_full(p));
            let items: Vec<Value> = im
                .items
                .iter()
                .filter_map(|it| match it {
                    ImplItem::Fn(f) => Some(json!({"i":"fn","path":format!("{}<{}{}>::{}", modpath, self_ty,
                            tr.as_ref().map(|t| format!(" as {t}")).unwrap_or_default(), f.sig.ident),
                        "vis":toks(&f.vis),"attrs":attrs(&f.attrs),"sig":sig(&f.sig),"body":block(&f.block)})),
                    ImplItem::Const(c) => Some(json!({"i":"const","name":c.ident.to_string(),"ty":toks(&c.ty),"x":expr(&c.expr)})),
                    _ => None,
                })
                .collect();
            json!({"i":"impl","mod":modpath,"self_ty":self_ty,"trait":tr,"generics":toks(&im.generics),"attrs":attrs(&im.attrs),"items":items})
        }
        Item::Mod(m) => {
            let p = format!("{}{}::", modpath, m.ident);
            let items: Vec<Value> = match &m.content {
                Some((_, its)) => its.iter().map(|x| item(x, &p)).collect(),
                None => vec![],
            };
            json!({"i":"mod","path":format!("{}{}", modpath, m.ident),"attrs":attrs(&m.attrs),"items":items})
        }
        Item::Enum(e) => json!({"i":"enum","path":format!("{}{}", modpath, e.ident),"attrs":attrs(&e.attrs),
            "variants":Value::Array(e.variants.iter().map(|v| json!({"name":v.ident.to_string(),
                "fields": Value::Array(v.fields.iter().map(|f| json!([f.ident.as_ref().map(|i| i.to_string()), toks(&f.ty)])).collect()),
                "discr": v.discriminant.as_ref().map(|(_, d)| expr(d))})).collect())}),
        Item::Struct(s) => json!({"i":"struct","path":format!("{}{}", modpath, s.ident),"attrs":attrs(&s.attrs),
            "fields": Value::Array(s.fields.iter().map(|f| json!([f.ident.as_ref().map(|i| i.to_string()), toks(&f.ty), toks(&f.vis)])).collect())}),
        Item::Static(s) => json!({"i":"static","path":format!("{}{}", modpath, s.ident),"mut": matches!(s.mutability, syn::StaticMutability::Mut(_)),
            "ty":toks(&*s.ty),"x":expr(&s.expr)}),
        Item::Const(c) => json!({"i":"const","path":format!("{}{}", modpath, c.ident),"ty":toks(&*c.ty),"x":expr(&c.expr)}),
        Item::Trait(t) => {
            let items: Vec<Value> = t.items.iter().filter_map(|it| match it {
                syn::TraitItem::Fn(f) => Some(json!({"i":"fn","path":format!("{}{}::{}", modpath, t.ident, f.sig.ident),"sig":sig(&f.sig),
                    "body": f.default.as_ref().map(block)})),
                _ => None }).collect();
            json!({"i":"trait","path":format!("{}{}", modpath, t.ident),"items":items})
        }
        Item::Use(u) => json!({"i":"use","tree":toks(&u.tree),"vis":toks(&u.vis)}),
        Item::Type(t) => json!({"i":"type","path":format!("{}{}", modpath, t.ident),"ty":toks(&*t.ty)}),
        Item::Macro(m) => json!({"i":"macro","name":path_str(&m.mac.path)}),
        Item::ExternCrate(c) => json!({"i":"extern_crate","name":c.ident.to_string()}),
        other => json!({"i":"other","tokens":toks(other).chars().take(200).collect::<String>()}),
    }
}

fn count_unsafe(ts: TokenStream, n: &mut usize) {
    for tt in ts {
        match tt {
            TokenTree::Ident(i) if i == "unsafe" => *n += 1,
            TokenTree::Group(g) => {
                let _ = Delimiter::None;
                count_unsafe(g.stream(), n)
            }
            _ => {}
        }
    }
}

fn main() {
    let args: Vec<String> = std::env::args().collect();
    if args.len() >= 3 && args[1] == "--count-unsafe" {
        // lex unexpanded source files and count `unsafe` keyword tokens
        let mut total = 0usize;
        let mut per = vec![];
        for f in &args[2..] {
            let src = std::fs::read_to_string(f).expect("read");
            let ts: TokenStream = src.parse().expect("lex");
            let mut n = 0;
            count_unsafe(ts, &mut n);
            total += n;
            per.push(json!([f, n]));
        }
        println!("{}", json!({"unsafe_tokens": total, "files": per}));
        return;
    }
    if args.len() < 4 {
        eprintln!("usage: astfacts <expanded.rs> <out.json> <crate-name>");
        std::process::exit(2);
    }
    let src = std::fs::read_to_string(&args[1]).expect("read expanded source");
    let file = match syn::parse_file(&src) {
        Ok(f) => f,
        Err(e) => {
            eprintln!("astfacts: parse error: {e} at {:?}", e.span().start());
            std::process::exit(3);
        }
    };
    let items: Vec<Value> = file.items.iter().map(|i| item(i, "")).collect();
    let out = json!({"crate": args[3], "attrs": attrs(&file.attrs), "lines": src.lines().count(), "items": items});
    std::fs::write(&args[2], serde_json::to_string(&out).unwrap()).expect("write");
}
