//! Type-level witnesses (F10): these items must type-check against the public API of
//! /repo/rsass.  Nothing here is ever executed; `cargo check` is the whole test.
#![allow(dead_code)]

fn send_sync<T: Send + Sync>() {}
fn send<T: Send>() {}

/// Concurrent compilations may share these values across threads.
const _: fn() = || {
    send_sync::<rsass::ScopeRef>();
    send_sync::<rsass::Scope>();
    send_sync::<rsass::output::Format>();
    send_sync::<rsass::input::Context<rsass::input::FsLoader>>();
    send_sync::<rsass::input::SourceFile>();
    send_sync::<rsass::css::Value>();
    send_sync::<rsass::sass::Function>();
    send_sync::<rsass::Error>();
};

/// The compile entry points can be called from any thread with owned / shared inputs.
const _: fn() = || {
    fn callable_from_threads<F: Fn(&[u8], rsass::output::Format) -> Result<Vec<u8>, rsass::Error> + Send + Sync + 'static>(_f: F) {}
    callable_from_threads(rsass::compile_scss);
    callable_from_threads(rsass::compile_value);
};

/// Positive control: with `--cfg witness_negative` this must FAIL to compile (E0277),
/// showing that the assertions above can fail at all.
#[cfg(witness_negative)]
const _: fn() = || {
    send_sync::<std::rc::Rc<rsass::Scope>>();
};
