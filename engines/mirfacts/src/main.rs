// mirfacts: a rustc_private driver that serialises the MIR of every body of the
// crate being compiled (resolved callees, CFG, drop glue, constants) as JSON
// facts for the Python rule layer under /verif/rules.
//
// Usage: RUSTC_WORKSPACE_WRAPPER=<this> MIRFACTS_OUT=<dir> cargo +nightly check
// argv = [driver, rustc, args...]
#![feature(rustc_private)]

extern crate rustc_abi;
extern crate rustc_driver;
extern crate rustc_hir;
extern crate rustc_interface;
extern crate rustc_middle;
extern crate rustc_session;
extern crate rustc_span;

use rustc_driver::{Callbacks, Compilation};
use rustc_hir::def::DefKind;
use rustc_hir::def_id::{DefId, LOCAL_CRATE};
use rustc_middle::mir::{
    self, AggregateKind, BasicBlock, Body, Const, ConstValue, Operand, Place, ProjectionElem,
    Rvalue, StatementKind, TerminatorKind, UnwindAction,
};
use rustc_middle::ty::print::{with_no_trimmed_paths, PrintTraitRefExt};
use rustc_middle::ty::{self, GenericArgsRef, Instance, InstanceKind, Ty, TyCtxt, TypingEnv};
use rustc_span::Span;
use std::collections::BTreeSet;
use std::fmt::Write as _;

struct Cb;

impl Callbacks for Cb {
    fn after_analysis<'tcx>(
        &mut self,
        _compiler: &rustc_interface::interface::Compiler,
        tcx: TyCtxt<'tcx>,
    ) -> Compilation {
        let out_dir = match std::env::var("MIRFACTS_OUT") {
            Ok(d) => d,
            Err(_) => return Compilation::Continue,
        };
        let crate_name = tcx.crate_name(LOCAL_CRATE).to_string();
        let only = std::env::var("MIRFACTS_CRATES").unwrap_or_default();
        if !only.is_empty() && !only.split(',').any(|c| c == crate_name) {
            return Compilation::Continue;
        }
        let crate_type = tcx
            .crate_types()
            .first()
            .map(|t| format!("{t:?}"))
            .unwrap_or_else(|| "Unknown".into());
        let json = with_no_trimmed_paths!(dump_crate(tcx, &crate_name, &crate_type));
        let path = format!("{out_dir}/mir-{crate_name}-{crate_type}.json");
        std::fs::write(&path, json).expect("write facts");
        Compilation::Continue
    }
}

fn main() {
    let args: Vec<String> = std::env::args().collect();
    // RUSTC_WORKSPACE_WRAPPER: argv[1] is the real rustc path.
    let mut rustc_args: Vec<String> = vec!["rustc".into()];
    rustc_args.extend(args.into_iter().skip(2));
    rustc_driver::run_compiler(&rustc_args, &mut Cb);
}

// ---------------------------------------------------------------- JSON helpers

fn esc(s: &str) -> String {
    let mut o = String::with_capacity(s.len() + 2);
    o.push('"');
    for c in s.chars() {
        match c {
            '"' => o.push_str("\\\""),
            '\\' => o.push_str("\\\\"),
            '\n' => o.push_str("\\n"),
            '\r' => o.push_str("\\r"),
            '\t' => o.push_str("\\t"),
            c if (c as u32) < 0x20 => {
                let _ = write!(o, "\\u{:04x}", c as u32);
            }
            c => o.push(c),
        }
    }
    o.push('"');
    o
}

fn esc_bytes(b: &[u8]) -> String {
    // bytes as a JSON string of latin-1 code points (lossless)
    let s: String = b.iter().map(|&c| c as char).collect();
    esc(&s)
}

fn opt_str(s: Option<String>) -> String {
    match s {
        Some(s) => esc(&s),
        None => "null".into(),
    }
}

fn list(items: Vec<String>) -> String {
    format!("[{}]", items.join(","))
}

// ---------------------------------------------------------------- naming

fn ty_str<'tcx>(ty: Ty<'tcx>) -> String {
    format!("{ty}")
}

/// Canonical, line-free name of a definition, used to join bodies and callees.
fn name_of<'tcx>(tcx: TyCtxt<'tcx>, did: DefId) -> String {
    let kind = tcx.def_kind(did);
    match kind {
        DefKind::Closure | DefKind::InlineConst | DefKind::AnonConst | DefKind::SyntheticCoroutineBody => {
            let parent = tcx.parent(did);
            let last = tcx.def_path(did).data.last().map(|d| format!("{{{}#{}}}", match d.data { rustc_hir::definitions::DefPathData::Closure => "closure".to_string(), other => format!("{other:?}").to_lowercase() }, d.disambiguator)).unwrap_or_default();
            return format!("{}::{}", name_of(tcx, parent), last);
        }
        _ => {}
    }
    if matches!(kind, DefKind::AssocFn | DefKind::AssocConst { .. } | DefKind::AssocTy) {
        if let Some(imp) = tcx.impl_of_assoc(did) {
            let self_ty = tcx.type_of(imp).instantiate_identity().skip_normalization();
            let item = tcx.item_name(did);
            if let Some(tr) = tcx.impl_opt_trait_ref(imp) {
                let tr = tr.instantiate_identity().skip_normalization();
                return format!("<{} as {}>::{}", self_ty, tr.print_only_trait_path(), item);
            }
            return format!("<{}>::{}", self_ty, item);
        }
    }
    // items nested in functions (fn inside fn, statics inside fn): def_path_str hides
    // disambiguators, so two `static X` in sibling blocks of one fn would collide.
    let base = tcx.def_path_str(did);
    let dis: Vec<String> = tcx
        .def_path(did)
        .data
        .iter()
        .filter(|d| {
            matches!(
                d.data,
                rustc_hir::definitions::DefPathData::TypeNs(_) | rustc_hir::definitions::DefPathData::ValueNs(_)
            ) && d.disambiguator != 0
        })
        .map(|d| d.disambiguator.to_string())
        .collect();
    if dis.is_empty() { base } else { format!("{}#{}", base, dis.join(".")) }
}

fn generic_args_json<'tcx>(args: GenericArgsRef<'tcx>) -> String {
    list(
        args.iter()
            .filter(|a| a.as_region().is_none())
            .map(|a| esc(&format!("{a}")))
            .collect(),
    )
}

fn span_info<'tcx>(tcx: TyCtxt<'tcx>, span: Span) -> (String, usize, Vec<String>) {
    let macros: Vec<String> = span
        .macro_backtrace()
        .filter_map(|e| match e.kind {
            rustc_span::ExpnKind::Macro(_, name) => Some(name.to_string()),
            rustc_span::ExpnKind::Desugaring(d) => Some(format!("desugar:{d:?}")),
            _ => None,
        })
        .collect();
    let sp = span.source_callsite();
    let sm = tcx.sess.source_map();
    let loc = sm.lookup_char_pos(sp.lo());
    let file = match &loc.file.name {
        rustc_span::FileName::Real(r) => r
            .local_path()
            .map(|p| p.display().to_string())
            .unwrap_or_else(|| format!("{:?}", loc.file.name)),
        other => format!("{other:?}"),
    };
    (file, loc.line, macros)
}

fn span_json<'tcx>(tcx: TyCtxt<'tcx>, span: Span) -> String {
    let (_f, line, macros) = span_info(tcx, span);
    if macros.is_empty() {
        format!("\"line\":{line}")
    } else {
        format!(
            "\"line\":{line},\"macros\":{}",
            list(macros.iter().map(|m| esc(m)).collect())
        )
    }
}

// ---------------------------------------------------------------- callee resolution

fn callee_json<'tcx>(
    tcx: TyCtxt<'tcx>,
    caller: DefId,
    did: DefId,
    args: GenericArgsRef<'tcx>,
) -> String {
    let mut o = String::new();
    let orig = name_of(tcx, did);
    let _ = write!(o, "{{\"orig\":{}", esc(&orig));
    let krate = tcx.crate_name(did.krate).to_string();
    let _ = write!(o, ",\"crate\":{}", esc(&krate));
    if let Some(tr) = tcx.trait_of_assoc(did) {
        let _ = write!(o, ",\"trait\":{}", esc(&tcx.def_path_str(tr)));
        if !args.is_empty() {
            if let Some(t) = args.get(0).and_then(|a| a.as_type()) {
                let _ = write!(o, ",\"self_ty\":{}", esc(&ty_str(t)));
            }
        }
    }
    let _ = write!(o, ",\"gargs\":{}", generic_args_json(args));
    let dk = tcx.def_kind(did);
    let mut resolved: Option<(String, &'static str, String)> = None;
    if matches!(dk, DefKind::Fn | DefKind::AssocFn) {
        let env = TypingEnv::post_analysis(tcx, caller);
        if let Ok(Some(inst)) = Instance::try_resolve(tcx, env, did, args) {
            let (d, k): (DefId, &'static str) = match inst.def {
                InstanceKind::Item(d) => (d, "item"),
                InstanceKind::Virtual(d, _) => (d, "virtual"),
                InstanceKind::Intrinsic(d) => (d, "intrinsic"),
                InstanceKind::ClosureOnceShim { call_once, .. } => (call_once, "closure_once_shim"),
                InstanceKind::FnPtrShim(d, _) => (d, "fnptr_shim"),
                InstanceKind::DropGlue(d, _) => (d, "drop_glue"),
                InstanceKind::CloneShim(d, _) => (d, "clone_shim"),
                InstanceKind::ReifyShim(d, _) => (d, "reify_shim"),
                InstanceKind::VTableShim(d) => (d, "vtable_shim"),
                other => (other.def_id(), "other"),
            };
            // For a ClosureOnceShim the interesting target is the closure itself.
            let mut target = name_of(tcx, d);
            if k == "closure_once_shim" || k == "fnptr_shim" {
                if let Some(t) = inst.args.get(0).and_then(|a| a.as_type()) {
                    match t.kind() {
                        ty::Closure(cd, _) => target = name_of(tcx, *cd),
                        ty::FnDef(fd, _) => target = name_of(tcx, *fd),
                        _ => {}
                    }
                }
            }
            resolved = Some((target, k, tcx.crate_name(d.krate).to_string()));
        }
    }
    match resolved {
        Some((t, k, c)) => {
            let _ = write!(o, ",\"def\":{},\"res\":{},\"def_crate\":{}", esc(&t), esc(k), esc(&c));
        }
        None => {
            let _ = write!(o, ",\"def\":{},\"res\":\"unresolved\",\"def_crate\":{}", esc(&orig), esc(&krate));
        }
    }
    o.push('}');
    o
}

// ---------------------------------------------------------------- places / operands

fn place_json<'tcx>(tcx: TyCtxt<'tcx>, body: &Body<'tcx>, p: &Place<'tcx>) -> String {
    let mut projs = Vec::new();
    let mut ty = mir::PlaceTy::from_ty(body.local_decls[p.local].ty);
    for elem in p.projection.iter() {
        let s = match elem {
            ProjectionElem::Deref => "*".to_string(),
            ProjectionElem::Field(f, _) => {
                // name the field when the base is an ADT
                let mut name = format!(".{}", f.index());
                if let ty::Adt(adt, _) = ty.ty.kind() {
                    let v = match ty.variant_index {
                        Some(v) => Some(v),
                        None if adt.is_struct() || adt.is_union() => Some(rustc_abi::FIRST_VARIANT),
                        None => None,
                    };
                    if let Some(v) = v {
                        if let Some(fd) = adt.variant(v).fields.get(f) {
                            name = format!(".{}", fd.name);
                        }
                    }
                }
                name
            }
            ProjectionElem::Downcast(name, idx) => match name {
                Some(n) => format!("as {n}"),
                None => format!("as #{}", idx.index()),
            },
            ProjectionElem::Index(l) => format!("[_{}]", l.index()),
            ProjectionElem::ConstantIndex { offset, from_end, .. } => {
                if from_end {
                    format!("[-{offset}]")
                } else {
                    format!("[{offset}]")
                }
            }
            ProjectionElem::Subslice { from, to, from_end } => {
                format!("[{from}..{}{to}]", if from_end { "-" } else { "" })
            }
            ProjectionElem::OpaqueCast(_) => "opaque".to_string(),
            ProjectionElem::UnwrapUnsafeBinder(_) => "unwrap_binder".to_string(),
        };
        projs.push(esc(&s));
        ty = ty.projection_ty(tcx, elem);
    }
    format!("[{},{}]", p.local.index(), list(projs))
}

fn scalar_json<'tcx>(tcx: TyCtxt<'tcx>, s: rustc_middle::mir::interpret::Scalar, ty: Ty<'tcx>) -> String {
    use rustc_middle::mir::interpret::{GlobalAlloc, Scalar};
    match s {
        Scalar::Int(i) => {
            let size = i.size();
            let bits = i.to_bits(size);
            match ty.kind() {
                ty::Bool => format!("\"v\":{}", bits != 0),
                ty::Char => {
                    let c = char::from_u32(bits as u32).unwrap_or('\u{fffd}');
                    format!("\"v\":{}", esc(&c.to_string()))
                }
                ty::Int(_) => {
                    let sz = size.bits();
                    let v = if sz == 0 {
                        0i128
                    } else {
                        let shift = 128 - sz;
                        ((bits << shift) as i128) >> shift
                    };
                    // keep as string to avoid JSON 64-bit limits
                    format!("\"v\":{}", esc(&v.to_string()))
                }
                ty::Uint(_) => format!("\"v\":{}", esc(&bits.to_string())),
                ty::Float(ft) => {
                    let v = match ft.bit_width() {
                        32 => f32::from_bits(bits as u32) as f64,
                        64 => f64::from_bits(bits as u64),
                        _ => f64::NAN,
                    };
                    format!("\"v\":{},\"bits\":{}", esc(&format!("{v:?}")), esc(&bits.to_string()))
                }
                _ => format!("\"raw\":{}", esc(&bits.to_string())),
            }
        }
        Scalar::Ptr(ptr, _) => {
            let (prov, off) = ptr.into_raw_parts();
            let alloc_id = prov.alloc_id();
            match tcx.global_alloc(alloc_id) {
                GlobalAlloc::Static(d) => format!("\"static\":{}", esc(&name_of(tcx, d))),
                GlobalAlloc::Function { instance } => {
                    format!("\"fnptr\":{}", esc(&name_of(tcx, instance.def_id())))
                }
                GlobalAlloc::Memory(alloc) => {
                    // &[u8; N] byte-string literals and similar: dump the bytes if there
                    // are no inner pointers.
                    let a = alloc.inner();
                    if a.provenance().ptrs().is_empty() {
                        let len = a.len();
                        let start = off.bytes() as usize;
                        if start <= len && len - start <= 4096 {
                            let bytes = a.inspect_with_uninit_and_ptr_outside_interpreter(start..len);
                            return format!("\"mem\":{}", esc_bytes(bytes));
                        }
                    }
                    "\"mem\":null".to_string()
                }
                _ => "\"ptr\":true".to_string(),
            }
        }
    }
}

fn const_json<'tcx>(tcx: TyCtxt<'tcx>, caller: DefId, c: &mir::ConstOperand<'tcx>) -> String {
    let ty = c.const_.ty();
    let mut o = format!("{{\"k\":\"const\",\"ty\":{}", esc(&ty_str(ty)));
    match ty.kind() {
        ty::FnDef(did, args) => {
            let _ = write!(o, ",\"fn\":{}", callee_json(tcx, caller, *did, args));
            o.push('}');
            return o;
        }
        ty::Closure(did, _) => {
            let _ = write!(o, ",\"closure\":{}", esc(&name_of(tcx, *did)));
        }
        _ => {}
    }
    let val: Option<ConstValue> = match c.const_ {
        Const::Val(v, _) => Some(v),
        Const::Unevaluated(uv, _) => {
            if let Some(p) = uv.promoted {
                let _ = write!(o, ",\"promoted\":{}", p.index());
                None
            } else {
                let _ = write!(o, ",\"named\":{}", esc(&name_of(tcx, uv.def)));
                let env = TypingEnv::post_analysis(tcx, caller);
                c.const_.eval(tcx, env, c.span).ok()
            }
        }
        Const::Ty(_, ct) => ct.try_to_value().and_then(|v| {
            if v.ty.is_integral() || v.ty.is_bool() || v.ty.is_char() {
                v.try_to_scalar().map(|s| ConstValue::Scalar(s))
            } else {
                None
            }
        }),
    };
    if let Some(v) = val {
        match v {
            ConstValue::Scalar(s) => {
                let _ = write!(o, ",{}", scalar_json(tcx, s, ty));
            }
            ConstValue::ZeroSized => {
                o.push_str(",\"zst\":true");
            }
            ConstValue::Slice { .. } => {
                let is_bytes = match ty.kind() {
                    ty::Ref(_, inner, _) => match inner.kind() {
                        ty::Str => true,
                        ty::Slice(e) => matches!(e.kind(), ty::Uint(ty::UintTy::U8)),
                        _ => false,
                    },
                    _ => false,
                };
                if is_bytes {
                    if let Some(b) = v.try_get_slice_bytes_for_diagnostics(tcx) {
                        let is_str = matches!(ty.kind(), ty::Ref(_, i, _) if i.is_str());
                        if is_str {
                            let _ = write!(o, ",\"v\":{}", esc(&String::from_utf8_lossy(b)));
                        } else {
                            let _ = write!(o, ",\"mem\":{}", esc_bytes(b));
                        }
                    }
                }
            }
            ConstValue::Indirect { .. } => {
                o.push_str(",\"indirect\":true");
            }
        }
    }
    o.push('}');
    o
}

fn operand_json<'tcx>(tcx: TyCtxt<'tcx>, caller: DefId, body: &Body<'tcx>, op: &Operand<'tcx>) -> String {
    match op {
        Operand::Copy(p) => format!("{{\"k\":\"copy\",\"p\":{}}}", place_json(tcx, body, p)),
        Operand::Move(p) => format!("{{\"k\":\"move\",\"p\":{}}}", place_json(tcx, body, p)),
        Operand::Constant(c) => const_json(tcx, caller, c),
        #[allow(unreachable_patterns)]
        _ => "{\"k\":\"other\"}".to_string(),
    }
}

// ---------------------------------------------------------------- drop glue

fn collect_dtors<'tcx>(tcx: TyCtxt<'tcx>, ty: Ty<'tcx>, seen: &mut BTreeSet<String>, out: &mut BTreeSet<String>, depth: usize) {
    if depth > 12 {
        return;
    }
    let key = ty_str(ty);
    if !seen.insert(key) {
        return;
    }
    match ty.kind() {
        ty::Adt(adt, args) => {
            if let Some(d) = tcx.adt_destructor(adt.did()) {
                if d.did.is_local() {
                    out.insert(name_of(tcx, d.did));
                }
            }
            if adt.did().is_local() {
                for f in adt.all_fields() {
                    let fty = f.ty(tcx, args);
                    collect_dtors(tcx, fty, seen, out, depth + 1);
                }
            } else {
                for a in args.iter() {
                    if let Some(t) = a.as_type() {
                        collect_dtors(tcx, t, seen, out, depth + 1);
                    }
                }
            }
        }
        ty::Tuple(ts) => {
            for t in ts.iter() {
                collect_dtors(tcx, t, seen, out, depth + 1);
            }
        }
        ty::Array(t, _) | ty::Slice(t) => collect_dtors(tcx, *t, seen, out, depth + 1),
        ty::Closure(_, args) => {
            for t in args.as_closure().upvar_tys().iter() {
                collect_dtors(tcx, t, seen, out, depth + 1);
            }
        }
        ty::Dynamic(..) => {
            out.insert(format!("dyn:{}", ty_str(ty)));
        }
        _ => {}
    }
}

// ---------------------------------------------------------------- bodies

fn rvalue_json<'tcx>(tcx: TyCtxt<'tcx>, caller: DefId, body: &Body<'tcx>, rv: &Rvalue<'tcx>) -> String {
    let ops = |v: Vec<&Operand<'tcx>>| list(v.into_iter().map(|o| operand_json(tcx, caller, body, o)).collect());
    match rv {
        Rvalue::Use(op, ..) => format!("{{\"k\":\"use\",\"ops\":{}}}", ops(vec![op])),
        Rvalue::Repeat(op, _) => format!("{{\"k\":\"repeat\",\"ops\":{}}}", ops(vec![op])),
        Rvalue::Ref(_, bk, p) => format!(
            "{{\"k\":\"ref\",\"mut\":{},\"p\":{}}}",
            matches!(bk, mir::BorrowKind::Mut { .. }),
            place_json(tcx, body, p)
        ),
        Rvalue::RawPtr(_, p) => format!("{{\"k\":\"rawptr\",\"p\":{}}}", place_json(tcx, body, p)),
        Rvalue::ThreadLocalRef(d) => format!("{{\"k\":\"tlsref\",\"static\":{}}}", esc(&name_of(tcx, *d))),
        Rvalue::Cast(kind, op, ty) => {
            let from = op.ty(&body.local_decls, tcx);
            let mut from_defs: Vec<String> = Vec::new();
            for ga in from.walk() {
                if let Some(t) = ga.as_type() {
                    match t.kind() {
                        ty::Closure(d, _) | ty::FnDef(d, _) => from_defs.push(esc(&name_of(tcx, *d))),
                        _ => {}
                    }
                }
            }
            let mut to_dyn: Vec<String> = Vec::new();
            for ga in ty.walk() {
                if let Some(t) = ga.as_type() {
                    if let ty::Dynamic(..) = t.kind() {
                        to_dyn.push(esc(&ty_str(t)));
                    }
                }
            }
            format!(
                "{{\"k\":\"cast\",\"cast\":{},\"from_ty\":{},\"ty\":{},\"from_defs\":{},\"to_dyn\":{},\"ops\":{}}}",
                esc(&format!("{kind:?}")),
                esc(&ty_str(from)),
                esc(&ty_str(*ty)),
                list(from_defs),
                list(to_dyn),
                ops(vec![op])
            )
        }
        Rvalue::BinaryOp(op, pair) => format!(
            "{{\"k\":\"binop\",\"op\":{},\"ops\":{}}}",
            esc(&format!("{op:?}")),
            ops(vec![&pair.0, &pair.1])
        ),
        Rvalue::UnaryOp(op, a) => format!(
            "{{\"k\":\"unop\",\"op\":{},\"ops\":{}}}",
            esc(&format!("{op:?}")),
            ops(vec![a])
        ),
        Rvalue::Discriminant(p) => format!("{{\"k\":\"discr\",\"p\":{}}}", place_json(tcx, body, p)),
        Rvalue::Aggregate(kind, fields) => {
            let fops = list(fields.iter().map(|o| operand_json(tcx, caller, body, o)).collect());
            match &**kind {
                AggregateKind::Array(t) => format!("{{\"k\":\"agg\",\"agg\":\"array\",\"elem\":{},\"ops\":{}}}", esc(&ty_str(*t)), fops),
                AggregateKind::Tuple => format!("{{\"k\":\"agg\",\"agg\":\"tuple\",\"ops\":{}}}", fops),
                AggregateKind::Adt(did, vidx, _, _, _) => {
                    let adt = tcx.adt_def(*did);
                    let v = adt.variant(*vidx);
                    format!(
                        "{{\"k\":\"agg\",\"agg\":\"adt\",\"adt\":{},\"variant\":{},\"ops\":{}}}",
                        esc(&tcx.def_path_str(*did)),
                        esc(v.name.as_str()),
                        fops
                    )
                }
                AggregateKind::Closure(did, _) => format!(
                    "{{\"k\":\"agg\",\"agg\":\"closure\",\"closure\":{},\"ops\":{}}}",
                    esc(&name_of(tcx, *did)),
                    fops
                ),
                _ => format!("{{\"k\":\"agg\",\"agg\":\"other\",\"ops\":{}}}", fops),
            }
        }
        Rvalue::CopyForDeref(p) => format!("{{\"k\":\"use\",\"deref_copy\":true,\"ops\":[{{\"k\":\"copy\",\"p\":{}}}]}}", place_json(tcx, body, p)),
        Rvalue::WrapUnsafeBinder(op, _) => format!("{{\"k\":\"use\",\"ops\":{}}}", ops(vec![op])),
        #[allow(unreachable_patterns)]
        _ => "{\"k\":\"other\"}".to_string(),
    }
}

fn bb_opt(b: Option<BasicBlock>) -> String {
    match b {
        Some(b) => b.index().to_string(),
        None => "null".into(),
    }
}

fn unwind_json(u: &UnwindAction) -> String {
    match u {
        UnwindAction::Cleanup(b) => b.index().to_string(),
        _ => "null".into(),
    }
}

fn body_json<'tcx>(tcx: TyCtxt<'tcx>, owner: DefId, body: &Body<'tcx>) -> String {
    let mut o = String::new();
    // locals
    let mut names: Vec<Option<String>> = vec![None; body.local_decls.len()];
    for vdi in &body.var_debug_info {
        if let mir::VarDebugInfoContents::Place(p) = &vdi.value {
            if p.projection.is_empty() {
                names[p.local.index()] = Some(vdi.name.to_string());
            }
        }
    }
    let locals: Vec<String> = body
        .local_decls
        .iter_enumerated()
        .map(|(l, d)| {
            format!(
                "{{\"ty\":{},\"name\":{}}}",
                esc(&ty_str(d.ty)),
                opt_str(names[l.index()].clone())
            )
        })
        .collect();
    // upvar debuginfo: names of captured variables (for closures)
    let upvars: Vec<String> = body
        .var_debug_info
        .iter()
        .filter_map(|v| match &v.value {
            mir::VarDebugInfoContents::Place(p) if !p.projection.is_empty() && p.local.index() == 1 => {
                Some(format!("[{},{}]", esc(v.name.as_str()), place_json(tcx, body, p)))
            }
            _ => None,
        })
        .collect();
    let _ = write!(o, "\"argc\":{},\"locals\":{},\"upvars\":{},\"blocks\":[", body.arg_count, list(locals), list(upvars));
    let mut first_bb = true;
    for (_bb, data) in body.basic_blocks.iter_enumerated() {
        if !first_bb {
            o.push(',');
        }
        first_bb = false;
        let _ = write!(o, "{{\"cleanup\":{},\"stmts\":[", data.is_cleanup);
        let mut first = true;
        for st in &data.statements {
            let s = match &st.kind {
                StatementKind::Assign(b) => {
                    let (p, rv) = &**b;
                    Some(format!(
                        "{{\"k\":\"assign\",\"p\":{},\"rv\":{},{}}}",
                        place_json(tcx, body, p),
                        rvalue_json(tcx, owner, body, rv),
                        span_json(tcx, st.source_info.span)
                    ))
                }
                StatementKind::SetDiscriminant { place, variant_index } => Some(format!(
                    "{{\"k\":\"setdiscr\",\"p\":{},\"variant\":{}}}",
                    place_json(tcx, body, place),
                    variant_index.index()
                )),
                _ => None,
            };
            if let Some(s) = s {
                if !first {
                    o.push(',');
                }
                first = false;
                o.push_str(&s);
            }
        }
        o.push_str("],\"term\":");
        let term = data.terminator();
        let sp = span_json(tcx, term.source_info.span);
        let t = match &term.kind {
            TerminatorKind::Goto { target } => format!("{{\"k\":\"goto\",\"target\":{}}}", target.index()),
            TerminatorKind::SwitchInt { discr, targets } => {
                // find what the discriminant was read from
                let mut discr_of: Option<Place<'tcx>> = None;
                if let Some(dp) = discr.place() {
                    if dp.projection.is_empty() {
                        for st in data.statements.iter().rev() {
                            if let StatementKind::Assign(b) = &st.kind {
                                if b.0 == dp {
                                    if let Rvalue::Discriminant(src) = &b.1 {
                                        discr_of = Some(*src);
                                    }
                                    break;
                                }
                            }
                        }
                    }
                }
                let dty = discr.ty(&body.local_decls, tcx);
                let mut variants: Vec<(u128, String)> = Vec::new();
                let mut of_ty = None;
                if let Some(src) = discr_of {
                    let pty = src.ty(&body.local_decls, tcx).ty;
                    of_ty = Some(ty_str(pty));
                    if let ty::Adt(adt, _) = pty.kind() {
                        if adt.is_enum() {
                            for (vi, d) in adt.discriminants(tcx) {
                                variants.push((d.val, adt.variant(vi).name.to_string()));
                            }
                        }
                    }
                }
                let tg: Vec<String> = targets
                    .iter()
                    .map(|(v, b)| {
                        let name = variants.iter().find(|(dv, _)| *dv == v).map(|(_, n)| n.clone());
                        format!("[{},{},{}]", esc(&v.to_string()), b.index(), opt_str(name))
                    })
                    .collect();
                let all_variants: Vec<String> = variants.iter().map(|(_, n)| esc(n)).collect();
                format!(
                    "{{\"k\":\"switch\",\"discr\":{},\"discr_ty\":{},\"discr_of\":{},\"of_ty\":{},\"variants\":{},\"targets\":{},\"otherwise\":{},{}}}",
                    operand_json(tcx, owner, body, discr),
                    esc(&ty_str(dty)),
                    match discr_of {
                        Some(p) => place_json(tcx, body, &p),
                        None => "null".into(),
                    },
                    opt_str(of_ty),
                    list(all_variants),
                    list(tg),
                    targets.otherwise().index(),
                    sp
                )
            }
            TerminatorKind::UnwindResume => "{\"k\":\"resume\"}".to_string(),
            TerminatorKind::UnwindTerminate(_) => "{\"k\":\"abort\"}".to_string(),
            TerminatorKind::Return => "{\"k\":\"return\"}".to_string(),
            TerminatorKind::Unreachable => "{\"k\":\"unreachable\"}".to_string(),
            TerminatorKind::Drop { place, target, unwind, .. } => {
                let pty = place.ty(&body.local_decls, tcx).ty;
                let mut seen = BTreeSet::new();
                let mut out = BTreeSet::new();
                collect_dtors(tcx, pty, &mut seen, &mut out, 0);
                format!(
                    "{{\"k\":\"drop\",\"p\":{},\"ty\":{},\"dtors\":{},\"target\":{},\"unwind\":{},{}}}",
                    place_json(tcx, body, place),
                    esc(&ty_str(pty)),
                    list(out.iter().map(|d| esc(d)).collect()),
                    target.index(),
                    unwind_json(unwind),
                    sp
                )
            }
            TerminatorKind::Call { func, args, destination, target, unwind, fn_span, .. } => {
                let fty = func.ty(&body.local_decls, tcx);
                let callee = match fty.kind() {
                    ty::FnDef(did, gargs) => callee_json(tcx, owner, *did, gargs),
                    _ => format!("{{\"indirect\":true,\"ty\":{},\"op\":{}}}", esc(&ty_str(fty)), operand_json(tcx, owner, body, func)),
                };
                let a: Vec<String> = args.iter().map(|s| operand_json(tcx, owner, body, &s.node)).collect();
                let arg_tys: Vec<String> = args.iter().map(|s| esc(&ty_str(s.node.ty(&body.local_decls, tcx)))).collect();
                let dty = destination.ty(&body.local_decls, tcx).ty;
                let _ = fn_span;
                // closure / fn-item definitions mentioned in each argument type
                let arg_defs: Vec<String> = args
                    .iter()
                    .map(|s| {
                        let mut v: Vec<String> = Vec::new();
                        for ga in s.node.ty(&body.local_decls, tcx).walk() {
                            if let Some(t) = ga.as_type() {
                                match t.kind() {
                                    ty::Closure(d, _) | ty::FnDef(d, _) => v.push(esc(&name_of(tcx, *d))),
                                    _ => {}
                                }
                            }
                        }
                        list(v)
                    })
                    .collect();
                // `<Self as Iterator>::Item` for calls of Iterator methods
                let mut item_ty: Option<String> = None;
                if let ty::FnDef(did, gargs) = fty.kind() {
                    if let Some(tr) = tcx.trait_of_assoc(*did) {
                        if tcx.is_diagnostic_item(rustc_span::sym::Iterator, tr) {
                            if let Some(self_ty) = gargs.get(0).and_then(|a| a.as_type()) {
                                let item_did = tcx
                                    .associated_items(tr)
                                    .in_definition_order()
                                    .find(|a| a.is_type() && a.name().as_str() == "Item")
                                    .map(|a| a.def_id);
                                if let Some(item_did) = item_did {
                                    let proj = Ty::new_projection(tcx, item_did, [self_ty]);
                                    let env = TypingEnv::post_analysis(tcx, owner);
                                    if let Ok(n) = tcx.try_normalize_erasing_regions(env, rustc_middle::ty::Unnormalized::new(proj)) {
                                        item_ty = Some(ty_str(n));
                                    }
                                }
                            }
                        }
                    }
                }
                format!(
                    "{{\"k\":\"call\",\"callee\":{},\"args\":{},\"arg_tys\":{},\"arg_defs\":{},\"item_ty\":{},\"dest\":{},\"dest_ty\":{},\"target\":{},\"unwind\":{},{}}}",
                    callee,
                    list(a),
                    list(arg_tys),
                    list(arg_defs),
                    opt_str(item_ty),
                    place_json(tcx, body, destination),
                    esc(&ty_str(dty)),
                    bb_opt(*target),
                    unwind_json(unwind),
                    sp
                )
            }
            TerminatorKind::TailCall { .. } => "{\"k\":\"tailcall\"}".to_string(),
            TerminatorKind::Assert { cond, expected, msg, target, unwind } => {
                use rustc_middle::mir::AssertKind as AK;
                let (kind, aops): (String, Vec<&Operand<'tcx>>) = match &**msg {
                    AK::BoundsCheck { len, index } => ("bounds".into(), vec![len, index]),
                    AK::Overflow(op, a, b) => (format!("overflow:{op:?}"), vec![a, b]),
                    AK::OverflowNeg(a) => ("overflow:Neg".into(), vec![a]),
                    AK::DivisionByZero(a) => ("div0".into(), vec![a]),
                    AK::RemainderByZero(a) => ("rem0".into(), vec![a]),
                    AK::MisalignedPointerDereference { .. } => ("misaligned".into(), vec![]),
                    AK::NullPointerDereference => ("nullptr".into(), vec![]),
                    AK::InvalidEnumConstruction(_) => ("invalid_enum".into(), vec![]),
                    AK::ResumedAfterReturn(_) | AK::ResumedAfterPanic(_) | AK::ResumedAfterDrop(_) => ("resumed".into(), vec![]),
                };
                format!(
                    "{{\"k\":\"assert\",\"kind\":{},\"expected\":{},\"cond\":{},\"ops\":{},\"target\":{},\"unwind\":{},{}}}",
                    esc(&kind),
                    expected,
                    operand_json(tcx, owner, body, cond),
                    list(aops.into_iter().map(|o| operand_json(tcx, owner, body, o)).collect()),
                    target.index(),
                    unwind_json(unwind),
                    sp
                )
            }
            TerminatorKind::FalseEdge { real_target, .. } => format!("{{\"k\":\"goto\",\"target\":{}}}", real_target.index()),
            TerminatorKind::FalseUnwind { real_target, .. } => format!("{{\"k\":\"goto\",\"target\":{}}}", real_target.index()),
            _ => "{\"k\":\"other\"}".to_string(),
        };
        o.push_str(&t);
        o.push('}');
    }
    o.push(']');
    o
}

fn dump_crate<'tcx>(tcx: TyCtxt<'tcx>, crate_name: &str, crate_type: &str) -> String {
    let mut o = String::new();
    let _ = write!(
        o,
        "{{\"crate\":{},\"crate_type\":{},\"rustc\":{},\n\"bodies\":[\n",
        esc(crate_name),
        esc(crate_type),
        esc(&tcx.sess.cfg_version.to_string())
    );
    let mut first = true;
    let mut keys: Vec<_> = tcx.mir_keys(()).iter().copied().collect();
    keys.sort_by_key(|k| tcx.def_path_str(k.to_def_id()));
    for ldid in keys {
        let did = ldid.to_def_id();
        let kind = tcx.def_kind(did);
        let body: &Body<'tcx> = match kind {
            DefKind::Fn | DefKind::AssocFn | DefKind::Closure | DefKind::Ctor(..) => {
                if matches!(kind, DefKind::Ctor(..)) {
                    continue;
                }
                tcx.optimized_mir(did)
            }
            DefKind::Static { .. }
            | DefKind::Const { .. }
            | DefKind::AssocConst { .. }
            | DefKind::AnonConst
            | DefKind::InlineConst => tcx.mir_for_ctfe(did),
            _ => continue,
        };
        if !first {
            o.push_str(",\n");
        }
        first = false;
        let (file, line, macros) = span_info(tcx, tcx.def_span(did));
        let end_line = {
            let sm = tcx.sess.source_map();
            sm.lookup_char_pos(body.span.source_callsite().hi()).line
        };
        let parent = match kind {
            DefKind::Closure | DefKind::InlineConst | DefKind::AnonConst => Some(name_of(tcx, tcx.parent(did))),
            _ => None,
        };
        let (self_ty, trait_) = match tcx.def_kind(did) {
            DefKind::AssocFn | DefKind::AssocConst { .. } => match tcx.impl_of_assoc(did) {
                Some(imp) => (
                    Some(ty_str(tcx.type_of(imp).instantiate_identity().skip_normalization())),
                    tcx.impl_opt_trait_ref(imp).map(|t| tcx.def_path_str(t.skip_binder().def_id)),
                ),
                None => (None, tcx.trait_of_assoc(did).map(|t| format!("default:{}", tcx.def_path_str(t)))),
            },
            _ => (None, None),
        };
        let vis_pub = matches!(kind, DefKind::Fn | DefKind::AssocFn) && tcx.visibility(did).is_public();
        let _ = write!(
            o,
            "{{\"def\":{},\"path\":{},\"kind\":{},\"file\":{},\"line\":{},\"end_line\":{},\"in_macro\":{},\"parent\":{},\"self_ty\":{},\"trait\":{},\"pub\":{},\"ret\":{},",
            esc(&name_of(tcx, did)),
            esc(&tcx.def_path_str(did)),
            esc(&format!("{kind:?}")),
            esc(&file),
            line,
            end_line,
            list(macros.iter().map(|m| esc(m)).collect()),
            opt_str(parent),
            opt_str(self_ty),
            opt_str(trait_),
            vis_pub,
            esc(&ty_str(body.return_ty())),
        );
        o.push_str(&body_json(tcx, did, body));
        // promoted constants of this body
        if matches!(kind, DefKind::Fn | DefKind::AssocFn | DefKind::Closure) {
            let proms = tcx.promoted_mir(did);
            o.push_str(",\"promoted\":[");
            let mut pf = true;
            for pb in proms.iter() {
                if !pf {
                    o.push(',');
                }
                pf = false;
                o.push('{');
                o.push_str(&body_json(tcx, did, pb));
                o.push('}');
            }
            o.push(']');
        }
        o.push('}');
    }
    o.push_str("\n],\n\"adts\":[\n");
    // local ADTs
    let mut first = true;
    let items = tcx.hir_crate_items(());
    let mut defs: Vec<DefId> = items.definitions().map(|d| d.to_def_id()).collect();
    defs.sort_by_key(|d| tcx.def_path_str(*d));
    for did in &defs {
        let kind = tcx.def_kind(*did);
        if !matches!(kind, DefKind::Enum | DefKind::Struct) {
            continue;
        }
        let adt = tcx.adt_def(*did);
        let vs: Vec<String> = adt
            .variants()
            .iter()
            .map(|v| {
                let fs: Vec<String> = v
                    .fields
                    .iter()
                    .map(|f| {
                        format!(
                            "[{},{}]",
                            esc(f.name.as_str()),
                            esc(&ty_str(tcx.type_of(f.did).instantiate_identity().skip_normalization()))
                        )
                    })
                    .collect();
                format!("{{\"name\":{},\"fields\":{}}}", esc(v.name.as_str()), list(fs))
            })
            .collect();
        if !first {
            o.push_str(",\n");
        }
        first = false;
        let _ = write!(
            o,
            "{{\"path\":{},\"kind\":{},\"variants\":{}}}",
            esc(&tcx.def_path_str(*did)),
            esc(&format!("{kind:?}")),
            list(vs)
        );
    }
    o.push_str("\n],\n\"impls\":[\n");
    let mut first = true;
    for did in &defs {
        if !matches!(tcx.def_kind(*did), DefKind::Impl { .. }) {
            continue;
        }
        let self_ty = ty_str(tcx.type_of(*did).instantiate_identity().skip_normalization());
        let tr = tcx.impl_opt_trait_ref(*did).map(|t| tcx.def_path_str(t.skip_binder().def_id));
        let derived = tcx.is_automatically_derived(*did);
        let its: Vec<String> = tcx
            .associated_items(*did)
            .in_definition_order()
            .filter(|a| a.is_fn())
            .map(|a| {
                format!(
                    "[{},{}]",
                    esc(&name_of(tcx, a.def_id)),
                    opt_str(a.trait_item_def_id().map(|t| name_of(tcx, t)))
                )
            })
            .collect();
        if !first {
            o.push_str(",\n");
        }
        first = false;
        let _ = write!(
            o,
            "{{\"self_ty\":{},\"trait\":{},\"derived\":{},\"items\":{}}}",
            esc(&self_ty),
            opt_str(tr),
            derived,
            list(its)
        );
    }
    o.push_str("\n],\n\"statics\":[\n");
    let mut first = true;
    for did in &defs {
        if let DefKind::Static { mutability, .. } = tcx.def_kind(*did) {
            let ty = tcx.type_of(*did).instantiate_identity().skip_normalization();
            let env = TypingEnv::fully_monomorphized();
            let freeze = ty.is_freeze(tcx, env);
            let (file, line, macros) = span_info(tcx, tcx.def_span(*did));
            if !first {
                o.push_str(",\n");
            }
            first = false;
            let _ = write!(
                o,
                "{{\"def\":{},\"ty\":{},\"mut\":{},\"freeze\":{},\"file\":{},\"line\":{},\"macros\":{}}}",
                esc(&name_of(tcx, *did)),
                esc(&ty_str(ty)),
                mutability.is_mut(),
                freeze,
                esc(&file),
                line,
                list(macros.iter().map(|m| esc(m)).collect())
            );
        }
    }
    o.push_str("\n]}\n");
    o
}
