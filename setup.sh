#!/bin/sh
# Build the two fact extractors offline (files on disk only).
set -e
cd "$(dirname "$0")"
export CARGO_NET_OFFLINE=true
(cd engines/mirfacts && cargo build --release --offline)
(cd engines/astfacts && cargo build --release --offline)
mkdir -p evidence/replay .cache
echo "setup ok"
