"""C22 — placeholder selectors never reach the output (structural clauses).

 (a) decision table of Pseudo::no_placeholder over (result for the argument) x (is :not):
     a selector-argument pseudo whose arguments all vanish removes the compound when positive
     and is dropped when `:not`, and conversely for "matches anything";
 (b) CompoundSelector::no_placeholder returns None as soon as the compound has a placeholder,
     and folds its pseudos with collect_neg (Any -> pseudo dropped, None -> compound removed);
 (c) Opt::collect_pos / collect_neg are the dual tables;
 (d) Rule::write emits nothing when no_placeholder() is None;
 (e) every array searched with binary_search is strictly sorted (is_pseudo_element);
 (f) field completeness: a selector method that reads the fields of another selector of the same
     type one by one (merge / compare / dedup) reads *all* of them, except reviewed exemptions —
     a forgotten `placeholders` field would silently drop the marker that removes the selector.
Order / text preservation of the remaining selectors is not claimed.
"""
import re

from lib import ast as A

EXEMPT = {
    ("CompoundSelector", "dedup"): {"backref": "a back-reference is resolved before dedup is used"},
    ("CompoundSelector", "is_superselector"): {"backref": "superselector tests run on resolved selectors"},
    ("CompoundSelector", "must_not_inherit"): {"*": "a predicate on id / pseudo-element only (returns bool, builds nothing)"},
    ("CompoundSelector", "unify"): {"backref": "unification runs on resolved selectors"},
}


def arm_outcome(body):
    b = A.strip(body)
    s = A.show(b)
    if b.get("e") == "ret":
        return A.show(A.strip(b["x"])).rsplit("::", 1)[-1]
    if b.get("e") == "block" and b["stmts"] and A.strip(b["stmts"][-1].get("x") or {}).get("e") == "ret":
        return A.show(A.strip(A.strip(b["stmts"][-1]["x"])["x"])).rsplit("::", 1)[-1]
    return "keep"


def match_pair(pat, a, flag):
    """pattern over (Opt variant, bool literal)"""
    k = pat.get("p")
    if k == "or":
        return any(match_pair(x, a, flag) for x in pat["xs"])
    if k != "tuple" or len(pat["xs"]) != 2:
        return k in ("wild", "bind")
    p0, p1 = pat["xs"]
    ok0 = A.pat_matches_variant(p0, a) != "no"
    if p1.get("p") == "lit":
        ok1 = p1["x"].get("v") is flag
    else:
        ok1 = p1.get("p") in ("wild", "bind")
    return ok0 and ok1


def run(ctx, F):
    tree = F.ast
    # ---------------------------------------------------------------- (a)
    f = tree.one_method("css::selectors::pseudo::Pseudo", "no_placeholder")
    ms = [n for n in A.walk(f["body"]) if n.get("e") == "match" and A.strip(n["on"]).get("e") == "tuple" and "no_placeholder" in A.show(n["on"])]
    if len(ms) != 1:
        ctx.anchor_lost("Pseudo::no_placeholder table", f"found {len(ms)} matches on (no_placeholder(), is-not)")
    else:
        on = A.strip(ms[0]["on"])
        not_test = A.show(on["xs"][1])
        if '"not"' not in not_test:
            ctx.fail("F5-pseudo-placeholder-table", "second component tests `:not`", f"the table is indexed by `{not_test}`, not by the pseudo being `:not`")
        want = {("Some", False): "keep", ("Some", True): "keep", ("Any", False): "Any", ("None", True): "Any", ("None", False): "None", ("Any", True): "None"}
        for (a, flag), w in sorted(want.items(), key=str):
            got = None
            for arm in ms[0]["arms"]:
                if match_pair(arm["pat"], a, flag):
                    got = arm_outcome(arm["body"])
                    break
            key = f"arguments={a}, :not={flag}"
            if got == w:
                ctx.ok("F5-pseudo-placeholder-table", key, {"outcome": got})
            else:
                ctx.fail("F5-pseudo-placeholder-table", key, f"Pseudo::no_placeholder yields `{got}` when its selector argument reduces to {a} and :not={flag}; selector semantics require `{w}`")
    # every selector argument goes through the elimination (no fast path around it)
    from lib import mir as M, cfgutil
    prog = F.lib
    pb = prog.one("<css::selectors::pseudo::Pseudo>::no_placeholder")
    sel_edge = None
    for bi, blk in enumerate(pb.blocks):
        t = blk["term"]
        if t["k"] == "switch" and (t.get("of_ty") or "").endswith("pseudo::Arg"):
            names = {nm: tg for _, tg, nm in t["targets"]}
            sel_edge = names.get("Selector")
            break
    elim = [bi for bi, t in pb.calls() if (M.callee_name(t) or "").endswith("SelectorSet>::no_placeholder")]
    if sel_edge is None or not elim:
        ctx.anchor_lost("Pseudo::no_placeholder selector-argument arm", f"switch edge {sel_edge}, elimination calls {elim}")
    else:
        p = cfgutil.paths_to_return_avoiding(pb, sel_edge, set(elim), through_error_exits=True)
        if p:
            ctx.fail("F3-elimination-unconditional", "Pseudo::no_placeholder|Arg::Selector", "a pseudo with a selector argument can be kept without its argument going through SelectorSet::no_placeholder: a placeholder nested deeper in the argument survives", where=pb.where(sel_edge), path=[f"bb{x}" for x in p[:10]])
        else:
            ctx.ok("F3-elimination-unconditional", "Pseudo::no_placeholder|Arg::Selector", {"elimination_calls": elim})
    # ---------------------------------------------------------------- (b)
    c = tree.one_method("css::selectors::compound::CompoundSelector", "no_placeholder")
    first = c["body"]["stmts"][0] if c["body"]["stmts"] else {}
    fx = A.strip(first.get("x") or {})
    def has_ph(cond):
        c = A.show(cond).replace(" ", "")
        if c == "!self.placeholders.is_empty()":
            return True
        x = A.strip(cond)
        if x.get("e") == "mcall" and A.show(x["recv"]).strip() == "self" and not x["args"]:
            hs = tree.method("css::selectors::compound::CompoundSelector", x["m"])
            if len(hs) == 1:
                body = A.strip(hs[0]["body"])
                return A.show(body).replace(" ", "").strip("{}") == "!self.placeholders.is_empty()"
        return False
    if fx.get("e") == "if" and has_ph(fx["cond"]) and "Opt::None" in A.show(fx["then"]["stmts"][0].get("x")):
        ctx.ok("F5-compound-placeholder", "a compound with a placeholder reduces to None", None)
    else:
        ctx.fail("F5-compound-placeholder", "a compound with a placeholder reduces to None", "CompoundSelector::no_placeholder does not start with `if !self.placeholders.is_empty() { return Opt::None; }`")
    uses_neg = any(n.get("e") == "call" and n["f"].get("e") == "path" and n["f"]["p"].endswith("collect_neg") for n in A.walk(c["body"]))
    (ctx.ok if uses_neg else ctx.fail)("F5-compound-placeholder", "pseudos folded with collect_neg", *([None] if uses_neg else ["CompoundSelector::no_placeholder no longer folds its pseudos with Opt::collect_neg"]))
    # ---------------------------------------------------------------- (c)
    for name, on_any, on_none, empty in (("collect_pos", "ret Any", "skip", "None"), ("collect_neg", "skip", "ret None", "Any")):
        g = tree.one_method("css::selectors::opt::Opt", name)
        ms = [n for n in A.walk(g["body"]) if n.get("e") == "match"]
        got = {}
        if ms:
            for v in ("Some", "Any", "None"):
                arms = A.select_arms(ms[0], v)
                if arms:
                    b = A.strip(arms[0][0]["body"])
                    if b.get("e") == "ret":
                        got[v] = "ret " + A.show(A.strip(b["x"])).rsplit("::", 1)[-1]
                    elif b.get("e") == "tuple" and not b["xs"]:
                        got[v] = "skip"
                    else:
                        got[v] = "push" if "push" in A.show(b) else A.show(b)[:20]
        ifs = [n for n in A.walk(g["body"]) if n.get("e") == "if" and "is_empty" in A.show(n["cond"])]
        emp = A.show(A.strip(ifs[0]["then"])).strip("{} ").rsplit("::", 1)[-1] if ifs else None
        ok = got.get("Some") == "push" and got.get("Any") == on_any and got.get("None") == on_none and emp == empty
        key = f"Opt::{name}"
        if ok:
            ctx.ok("F5-opt-fold", key, {"table": got, "empty": emp})
        else:
            ctx.fail("F5-opt-fold", key, f"Opt::{name} table is {got}, empty -> {emp}; expected Some->push, Any->{on_any}, None->{on_none}, empty->{empty}")
    # ---------------------------------------------------------------- (d)
    rw = tree.one_method("css::rule::Rule", "write")
    txt = " ".join(A.show(n) for n in A.walk(rw["body"]))
    lets = [n for n in A.walk(rw["body"]) if (n.get("s") == "let" or n.get("e") in ("if", "match", "let")) and "no_placeholder" in A.show(n.get("init") or n.get("cond") or n.get("on") or n.get("x") or {})]
    if "no_placeholder" in txt and lets:
        ctx.ok("F5-rule-write", "Rule::write consults no_placeholder before writing", None)
    else:
        ctx.fail("F5-rule-write", "Rule::write consults no_placeholder before writing", "Rule::write no longer filters its selectors with no_placeholder()")
    # ---------------------------------------------------------------- (e)
    n_bs = 0
    for f in tree.fn_list:
        arrays = {}
        for n in A.walk(f["body"]):
            if n.get("s") == "let" and n["pat"].get("p") == "bind" and n.get("init") is not None and A.strip(n["init"]).get("e") == "array":
                arrays[n["pat"]["n"]] = [A.lit_str(A.strip(x)) for x in A.strip(n["init"])["xs"]]
        for n in A.walk(f["body"]):
            if n.get("e") == "mcall" and n["m"] in ("binary_search", "binary_search_by", "binary_search_by_key"):
                r = A.strip(n["recv"])
                n_bs += 1
                key = f"{f['path']}|binary_search"
                vals = arrays.get(r.get("p")) if r.get("e") == "path" else None
                if vals is None and r.get("e") == "path":
                    c2 = [v for p, v in tree.consts.items() if p.endswith(r["p"])] + [v for p, v in tree.statics.items() if p.endswith(r["p"])]
                    if c2 and A.strip(c2[0]["x"]).get("e") in ("array", "ref"):
                        arr = A.strip(c2[0]["x"])
                        vals = [A.lit_str(A.strip(x)) for x in arr.get("xs", [])]
                if vals is None or None in vals:
                    ctx.fail("F5-sorted-table", key, f"cannot read the table searched by binary_search in {f['path']}")
                elif all(a < b for a, b in zip(vals, vals[1:])):
                    ctx.ok("F5-sorted-table", key, {"entries": len(vals)})
                else:
                    bad = [(a, b) for a, b in zip(vals, vals[1:]) if not a < b]
                    ctx.fail("F5-sorted-table", key, f"the table searched with binary_search in {f['path']} is not strictly sorted at {bad[:2]}: lookups of some entries fail silently")
    ctx.floor("binary_search tables", n_bs, 1)
    # ---------------------------------------------------------------- (f)
    field_completeness(ctx, tree)
    ctx.explanation = ("Decision tables of the placeholder elimination (Pseudo::no_placeholder over Opt x :not, collect_pos/collect_neg duals, CompoundSelector::no_placeholder), "
                       "sortedness of binary_search tables, and field completeness of selector methods that read another selector's fields individually.")


def field_completeness(ctx, tree):
    structs = {p.rsplit("::", 1)[-1]: [f[0] for f in s["fields"] if f[0]] for p, s in tree.structs.items() if p.startswith("css::selectors::")}
    n = 0
    for f in tree.fn_list:
        im = f.get("_impl")
        if not im or not im["mod"].startswith("css::selectors::"):
            continue
        ty = re.sub(r"<.*", "", im["self_ty"])
        fields = structs.get(ty)
        if not fields or len(fields) < 3:
            continue
        peers = [p["pat"]["n"] for p in f["sig"]["params"] if p.get("pat", {}).get("p") == "bind" and (p.get("ty") or "").replace(" ", "") in ("&Self", "Self", "&mutSelf", "&" + ty, ty)]
        for peer in peers:
            read = set()
            for node in A.walk(f["body"]):
                if node.get("e") == "field" and A.strip(node["x"]).get("e") == "path" and A.strip(node["x"])["p"] == peer and node["f"] in fields:
                    read.add(node["f"])
                # accessor methods named after the field (`b.is_element()`, `b.element()`)
                if node.get("e") == "mcall" and A.strip(node["recv"]).get("e") == "path" and A.strip(node["recv"])["p"] == peer:
                    for fld in fields:
                        if node["m"] in (fld, "is_" + fld, "has_" + fld, "get_" + fld):
                            read.add(fld)
            if len(read) < 2:
                continue
            n += 1
            missing = [x for x in fields if x not in read]
            ex = EXEMPT.get((ty, f["sig"]["name"]), {})
            missing = [m for m in missing if m not in ex and "*" not in ex]
            key = f"{ty}::{f['sig']['name']}({peer})"
            if not missing:
                ctx.ok("F8-field-completeness", key, {"reads": sorted(read)})
            else:
                ctx.fail("F8-field-completeness", key, f"{ty}::{f['sig']['name']} reads the fields {sorted(read)} of `{peer}` one by one but never `{', '.join(missing)}`: that part of the other selector is silently dropped" + (" (a placeholder that disappears here makes the selector reach the output)" if "placeholders" in missing else ""))
    ctx.floor("selector methods reading a peer's fields individually", n, 2)
