"""C33 — emitted colour text denotes the computed colour (structural clauses).

 (a) the named-colour table (LOOKUP) equals the CSS Color 4 table, both directions;
 (b) the short hex form `#rgb` is emitted only under the test that all three channels are
     multiples of 0x11 (or in an arm of a notation that is never constructed) and prints
     channel / 0x11; the long form zero-pads every channel to two hex digits;
 (c) a colour name is looked up only from integral opaque channels (try_bytes), byte-exactly;
 (d) `transparent` is emitted only under all_zero().
Rounding of fractional channels is numerical and is not claimed.
"""
import json
import os
import re

from lib import ast as A, mir

HERE = os.path.dirname(os.path.abspath(__file__))
ORACLE = os.path.join(os.path.dirname(HERE), "tables", "css_named_colors.json")


def run(ctx, F):
    tree = F.ast
    prog = F.lib
    oracle = {k: int(v, 16) for k, v in json.load(open(ORACLE))["colors"].items()}
    st = [s for p, s in tree.statics.items() if p.endswith("colors::rgba::LOOKUP")]
    if len(st) != 1:
        ctx.anchor_lost("LOOKUP static", f"found {len(st)}")
        return
    rows = []
    for n in A.walk(st[0]["x"]):
        if n.get("e") == "tuple" and len(n["xs"]) == 2 and A.lit_str(A.strip(n["xs"][0])) is not None and A.strip(n["xs"][1]).get("t") == "int":
            src = A.strip(n["xs"][1]).get("src", "")
            src = re.sub(r"_?u32$", "", src).replace("_", "")
            rows.append((A.lit_str(A.strip(n["xs"][0])), int(src, 16) if src.lower().startswith("0x") else int(src)))
    ctx.floor("named colour rows", len(rows), 148)
    code = {}
    for k, v in rows:
        if k in code:
            ctx.fail("F5-colour-names", f"{k} (duplicate row)", f"the colour name {k} is listed twice")
        code[k] = v
    for k, v in sorted(oracle.items()):
        if k not in code:
            ctx.fail("F5-colour-names", k, f"CSS colour name {k} (#{v:06x}) is missing from the table")
        elif code[k] != v:
            ctx.fail("F5-colour-names", k, f"the table maps {k} to #{code[k]:06x}; CSS Color 4 defines #{v:06x}")
        else:
            ctx.ok("F5-colour-names", k, None)
    for k in sorted(set(code) - set(oracle)):
        ctx.fail("F5-colour-names", k + " (extra)", f"{k} is not a CSS colour keyword")
    # name <- value map keeps a name whose value is the same colour (any first-listed synonym)
    fs = tree.one_method("value::colors::rgba::Lookup", "from_slice")
    txt = " ".join(A.show(n) for n in A.walk(fs["body"]))
    if "n2v.insert(n, v)" in txt.replace(" ", "").replace(",", ", ").replace(", ", ",").replace("n2v.insert(n,v)", "n2v.insert(n, v)") or "n2v.insert" in txt:
        ctx.ok("F5-colour-names", "from_slice fills both directions from the same rows", None)
    else:
        ctx.fail("F5-colour-names", "from_slice fills both directions from the same rows", "Lookup::from_slice no longer fills n2v and v2n from the same rows")
    # ---------------------------------------------------------------- (b) hex templates
    f = None
    for x in tree.fn_list:
        if x.get("_impl") and x["sig"]["name"] == "fmt" and "Rgba" in x["_impl"]["self_ty"] and (x["_impl"]["trait"] or "").endswith("Display") and x["path"].startswith("value::colors::rgba"):
            f = x
    if f is None:
        ctx.anchor_lost("Display for Formatted<Rgba>", "not found")
        return
    constructed = variant_constructions(prog, "value::colors::rgba::RgbFormat")
    n_hex = 0

    def rec(node, conds, arm):
        nonlocal n_hex
        if isinstance(node, list):
            for x in node:
                rec(x, conds, arm)
            return
        if not isinstance(node, dict):
            return
        e = node.get("e")
        if e == "if":
            c = A.show(A.strip(node["cond"])).replace(" ", "")
            rec(node["cond"], conds, arm)
            rec(node["then"], conds + [c], arm)
            if node.get("else") is not None:
                rec(node["else"], conds + ["!(" + c + ")"], arm)
            return
        if e == "match":
            rec(node["on"], conds, arm)
            for a in node["arms"]:
                rec(a["body"], conds, A.showpat(a["pat"]))
            return
        if e == "fmt" and node.get("template") and node["template"].startswith("#"):
            n_hex += 1
            t = node["template"]
            specs = re.findall(r"\{\w*(:[^}]*)?\}", t)
            args = [A.show(a["x"]).replace(" ", "") for a in node["args"]]
            key = f"Rgba fmt|{t!r}" + (f" in arm {arm}" if arm else "")
            if specs == [":x"] * 3:
                guarded = any(c == "short" or c.endswith("&&short") or "short" == c.strip("()") for c in conds)
                dead = arm and arm.rsplit("::", 1)[-1] in ("ShortHex",) and constructed.get("ShortHex", 0) == 0
                div = all("/17" in a or "/0x11" in a.lower() for a in args)
                if (guarded or dead) and div:
                    ctx.ok("F6-hex-form", key, {"guard": "short" if guarded else "notation never constructed", "args": args})
                else:
                    ctx.fail("F6-hex-form", key, f"the short hex form is emitted with args {args} under conditions {conds}: it must be under the `short` test (all channels multiples of 0x11) and print channel / 0x11")
            elif specs == [":02x"] * 3:
                ctx.ok("F6-hex-form", key, None)
            else:
                ctx.fail("F6-hex-form", key, f"hex colour template {t!r} is neither three zero-padded two-digit fields nor the guarded short form")
        for k, v in node.items():
            if isinstance(v, (dict, list)) and not k.startswith("_"):
                rec(v, conds, arm)
    rec(f["body"], [], None)
    ctx.floor("hex colour templates", n_hex, 4)
    shorts = [n for n in A.walk(f["body"]) if n.get("s") == "let" and n["pat"].get("n") == "short"]
    if len(shorts) == 1:
        s = A.show(shorts[0]["init"]).replace(" ", "").lower()
        ok = all(f"({c}%17)==0" in s or f"({c}%0x11)==0" in s for c in "rgb") and "||" not in s
        (ctx.ok if ok else ctx.fail)("F6-hex-form", "short := r % 0x11 == 0 && g % 0x11 == 0 && b % 0x11 == 0", *([None] if ok else [f"`short` is defined as `{s}`"]))
    else:
        ctx.anchor_lost("let short", f"found {len(shorts)}")
    # ---------------------------------------------------------------- (c) names only from exact bytes
    nm = tree.one_method("value::colors::rgba::Rgba", "name")
    s = A.show(nm["body"]) + " ".join(A.show(x) for x in A.walk(nm["body"]))
    if "try_bytes" in s and "v2n" in s and "to_bytes" not in s.replace("try_bytes", ""):
        ctx.ok("F5-name-guard", "Rgba::name looks up try_bytes() in v2n", None)
    else:
        ctx.fail("F5-name-guard", "Rgba::name looks up try_bytes() in v2n", "Rgba::name no longer derives the lookup key from try_bytes() (integral, opaque channels): a rounded colour could be printed by name")
    tb = tree.one_method("value::colors::rgba::Rgba", "try_bytes")
    s = " ".join(A.show(x) for x in A.walk(tb["body"], fn_boundary=False))
    if "is_opaque" in s and "round" in s:
        ctx.ok("F5-name-guard", "try_bytes requires opaque, near-integral channels", None)
    else:
        ctx.fail("F5-name-guard", "try_bytes requires opaque, near-integral channels", "try_bytes no longer tests is_opaque() / integrality")
    # ---------------------------------------------------------------- (d) transparent
    hits = []

    def rec2(node, conds):
        if isinstance(node, list):
            for x in node:
                rec2(x, conds)
            return
        if not isinstance(node, dict):
            return
        if node.get("e") == "if":
            c = A.show(A.strip(node["cond"])).replace(" ", "")
            rec2(node["then"], conds + [c])
            if node.get("else") is not None:
                rec2(node["else"], conds + ["!(" + c + ")"])
            return
        if node.get("e") == "fmt" and node.get("template") == "transparent":
            hits.append(conds)
        for k, v in node.items():
            if isinstance(v, (dict, list)) and not k.startswith("_"):
                rec2(v, conds)
    rec2(f["body"], [])
    if hits and all(any("all_zero()" in c and not c.startswith("!(") for c in h) for h in hits):
        ctx.ok("F6-transparent", "`transparent` only under all_zero()", None)
    else:
        ctx.fail("F6-transparent", "`transparent` only under all_zero()", f"`transparent` is emitted under {hits}")
    ctx.explanation = ("Constant table LOOKUP read from the AST and compared row by row with the CSS Color 4 keyword table (both directions); guards and argument shapes of every hex colour template in Display for Formatted<Rgba>; "
                       "constructor inventory of RgbFormat variants (MIR); provenance of the name lookup key; guard of `transparent`.")


def variant_constructions(prog, adt):
    out = {}
    for b in prog.bodies.values():
        if (b.raw.get("trait") or "").startswith("std::"):
            continue
        for bi, si, s in b.stmts():
            if s["k"] == "assign" and s["rv"]["k"] == "agg" and s["rv"].get("adt") == adt:
                out[s["rv"]["variant"]] = out.get(s["rv"]["variant"], 0) + 1
        for c in mir.iter_consts_body(b.raw):
            pass
    # unit variants are constants, not aggregates: look at the AST-free MIR constants by type is not possible; use discriminant writes
    for b in prog.bodies.values():
        if (b.raw.get("trait") or "").startswith("std::"):
            continue
        for blk in b.blocks:
            for s in blk["stmts"]:
                if s["k"] == "assign" and s["rv"]["k"] == "use" and s["rv"]["ops"] and s["rv"]["ops"][0]["k"] == "const" and s["rv"]["ops"][0].get("ty") == adt:
                    out["<const>"] = out.get("<const>", 0) + 1
    return out
