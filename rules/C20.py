"""C20 (partial) — the structure of bubbling in the CSS destinations.

What the emitted tree looks like for arbitrary nestings is a tree transformation over runtime data and
is NOT decided.  Decided are the clauses visible in the five destination objects of output/cssdest.rs
(MIR + symbolic provenance, dominance):

 (i)   "its body is a copy of the enclosing rule's selector around the nested declarations": every
       `start_atmedia` / `start_atrule` of a destination that is inside a style rule (RuleDest, and the
       at-rule destinations that carry a rule) builds the nested destination with
       `rule = Rule::new(<selectors of the enclosing rule>)` (directly or mapped over the optional
       enclosing rule); when such a destination ends (`Drop`), that rule is inserted at index 0 of the
       at-rule's body;
 (ii)  "@keyframes bodies are never prefixed by enclosing selectors": in RuleDest::start_atrule the rule is
       `None` exactly on the true edge of `is_flat_rule(name)`, and is_flat_rule accepts `keyframes`;
 (iii) "is emitted at the top level ... in declaration order": in RuleDest::push_item every hand-over of
       an item to the parent destination is dominated by `commit_rule()` (the declarations seen so far are
       emitted first, the at-rule follows at the parent's level), and commit_rule itself hands the rule to
       the parent; the item is never pushed into the rule's own body on that path.
"""
import re

from lib import mir, sym, ast as A

DESTS = ("RuleDest", "AtRuleDest", "AtMediaDest")


def run(ctx, F):
    ctx.explanation = ("C20, structural clauses only (the emitted tree for arbitrary nestings is not decided): provenance of the selector copy in every nested at-rule destination, "
                       "the keyframes / font-face exception, insertion of the copied rule at the head of the at-rule body, and commit-before-hand-over in RuleDest::push_item (MIR)")
    prog, tree = F.lib, F.ast
    S = sym.Sym(prog, inline_depth=0)
    order = {}
    for d in ("AtRuleDest", "AtMediaDest"):
        st = tree.structs.get(f"output::cssdest::{d}")
        if not st:
            ctx.anchor_lost(f"struct {d}", "not found")
            return
        order[d] = [f[0] for f in st["fields"]]
    # ---------------------------------------------------------------- (i) selector copy
    n = 0
    for dest in DESTS:
        for meth, built in (("start_atmedia", "AtMediaDest"), ("start_atrule", "AtRuleDest")):
            name = f"<output::cssdest::{dest}<'_> as output::cssdest::CssDestination>::{meth}"
            b = prog.bodies.get(name)
            if b is None:
                ctx.anchor_lost(f"{dest}::{meth}", "not found")
                continue
            aggs = [(bi, st) for bi, si, st in b.stmts() if st["k"] == "assign" and st["rv"]["k"] == "agg" and str(st["rv"].get("adt", "")).endswith(f"cssdest::{built}")]
            calls = [(bi, t) for bi, t in b.calls() if (mir.callee_name(t) or "").endswith(f"cssdest::{built}<'a>>::new") or (mir.callee_name(t) or "").endswith(f"{built}>::new")]
            key = f"{dest}::{meth}|nested rule = copy of the enclosing selectors"
            if len(aggs) != 1:
                ctx.anchor_lost(key, f"{len(aggs)} {built} literals, {len(calls)} constructor calls")
                continue
            n += 1
            bi, st = aggs[0]
            i = order[built].index("rule")
            term = sym.strip_transparent(S.operand(b, st["rv"]["ops"][i]))
            r = repr(term)
            # closures mapped over the enclosing optional rule
            cl_ok = False
            if "closure" in r:
                for cb in prog.closures_of(b.def_):
                    cr = " ".join(mir.short(mir.callee_name(t) or "") for _, t in cb.calls())
                    if "<Rule>::new" in cr and re.search(r"Clone>::clone", cr):
                        cl_ok = True
            ok = ("Rule>::new" in r and "selectors" in r) or (cl_ok and ".rule" in r)
            if ok:
                ctx.ok("F4-selector-copy", key, sym.show(term)[:120])
            else:
                ctx.fail("F4-selector-copy", key, f"{dest}::{meth} builds the nested {built} with rule = `{sym.show(term)[:140]}`: declarations nested in the at-rule would not be wrapped in a copy of the enclosing selector", where=b.where(bi))
    ctx.floor("nested at-rule constructors inside rule-carrying destinations", n, 6)
    # insertion at the head of the body when the nested destination ends
    for built in ("AtRuleDest", "AtMediaDest"):
        name = f"<output::cssdest::{built}<'_> as std::ops::Drop>::drop"
        b = prog.bodies.get(name)
        key = f"{built}::drop|the copied rule is the first item of the at-rule body"
        if b is None:
            ctx.anchor_lost(key, "Drop impl not found")
            continue
        # the drop body and the private methods of the same destination it is split into
        fam = [b] + [prog.bodies[mir.callee_name(t)] for _, t in b.calls() if (mir.callee_name(t) or "").startswith(f"<output::cssdest::{built}<") and mir.callee_name(t) in prog.bodies]
        ins = [(bb, bi, t) for bb in fam for bi, t in bb.calls() if re.search(r"Vec<T, A>>::insert$", mir.callee_name(t) or "")]
        good = [1 for bb, bi, t in ins if len(t["args"]) == 3 and repr(S.operand(bb, t["args"][1])) in ("('const', '0')", "('const', 0)")]
        if len(ins) == 1 and good:
            ctx.ok("F4-rule-first", key, None)
        else:
            ctx.fail("F4-rule-first", key, f"{built}::drop inserts the selector-carrying rule with {[sym.show(S.operand(bb, t['args'][1])) for bb, bi, t in ins]} (expected one `insert(0, ..)`): the declarations of the enclosing rule would not come first inside the at-rule", where=b.where())
    # ---------------------------------------------------------------- (ii) keyframes exception
    b = prog.bodies.get("<output::cssdest::RuleDest<'_> as output::cssdest::CssDestination>::start_atrule")
    if b is not None:
        key = "RuleDest::start_atrule|no selector copy exactly for flat at-rules"
        flat = [(bi, t) for bi, t in b.calls() if (mir.callee_name(t) or "").endswith("cssdest::is_flat_rule")]
        ok = False
        why = f"{len(flat)} is_flat_rule calls"
        if len(flat) == 1 and flat[0][1].get("target") is not None:
            sw = b.term(flat[0][1]["target"])
            zero = [tg for val, tg, _ in sw.get("targets", []) if str(val) == "0"]
            if sw["k"] == "switch" and len(zero) == 1 and sw.get("otherwise") is not None:
                dom = b.dominators()
                t_true, t_false = sw["otherwise"], zero[0]
                nones = [bi for bi, si, st in b.stmts() if st["k"] == "assign" and st["rv"]["k"] == "agg" and st["rv"].get("variant") == "None"]
                somes = [bi for bi, t in b.calls() if (mir.callee_name(t) or "").endswith("Rule>::new")]
                in_true = lambda x: x == t_true or t_true in dom.get(x, ())
                in_false = lambda x: x == t_false or t_false in dom.get(x, ())
                ok = bool(nones) and bool(somes) and all(in_true(x) for x in nones) and all(in_false(x) for x in somes)
                why = f"None built in the flat branch: {[in_true(x) for x in nones]}, Rule::new in the other: {[in_false(x) for x in somes]}"
        (ctx.ok if ok else ctx.fail)("F3-flat-rule-exception", key, *([why] if ok else [f"RuleDest::start_atrule does not select `rule: None` exactly under is_flat_rule(name) ({why}): a @keyframes body nested in a rule would be prefixed by the rule's selector (or an ordinary at-rule would lose it)", b.where()]))
    fl = [f for f in tree.fn_list if f["path"].endswith("cssdest::is_flat_rule")]
    if len(fl) != 1:
        ctx.anchor_lost("is_flat_rule", f"found {len(fl)}")
    else:
        lits = {A.lit_str(A.strip(x)) for x in A.walk(fl[0]["body"]) if x.get("e") == "lit"} - {None}
        (ctx.ok if "keyframes" in lits else ctx.fail)("F5-flat-rule-table", "is_flat_rule accepts `keyframes`", *([sorted(lits)] if "keyframes" in lits else [f"is_flat_rule tests {sorted(lits)}: `keyframes` is missing, so @keyframes bodies get the enclosing selector", fl[0]["path"]]))
    # ---------------------------------------------------------------- (iii) commit before hand-over
    b = prog.bodies.get("<output::cssdest::RuleDest<'_> as output::cssdest::CssDestination>::push_item")
    if b is None:
        ctx.anchor_lost("RuleDest::push_item", "not found")
    else:
        dom = b.dominators()
        commits = [bi for bi, t in b.calls() if (mir.callee_name(t) or "").endswith("RuleDest<'a>>::commit_rule")]
        hand = [bi for bi, t in b.calls() if (mir.callee_orig(t) or "").endswith("CssDestination::push_item")]
        ctx.floor("hand-overs to the parent in RuleDest::push_item", len(hand), 1)
        for k, bi in enumerate(hand):
            key = "RuleDest::push_item|commit_rule before the item goes to the parent" + ("" if k == 0 else f"#{k}")
            if any(c in dom.get(bi, ()) or c == bi for c in commits):
                ctx.ok("F3-commit-before-bubble", key, None)
            else:
                ctx.fail("F3-commit-before-bubble", key, "RuleDest::push_item hands an item to the parent destination without committing the rule first: the nested at-rule would be emitted before the declarations that precede it in the source", where=b.where(bi))
    cr = prog.bodies.get("<output::cssdest::RuleDest<'a>>::commit_rule")
    if cr is None:
        ctx.anchor_lost("RuleDest::commit_rule", "not found")
    else:
        hands = [bi for bi, t in cr.calls() if (mir.callee_orig(t) or "").endswith("CssDestination::push_item")]
        (ctx.ok if len(hands) == 1 else ctx.fail)("F3-commit-before-bubble", "commit_rule hands the rule to the parent", *([None] if len(hands) == 1 else [f"commit_rule calls the parent's push_item {len(hands)} times", cr.where()]))
