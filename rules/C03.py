"""C03 — each module is executed once per compilation.

 (i)   who may run a module body: a file found with SourceKind::Use | Forward is parsed and
       evaluated only inside the closure handed to CssData::load_module, and that closure is
       keyed by the found file's own path;
 (ii)  cache shape in load_module: `init` runs only on the miss edge of `modules.get(key)`,
       and `modules.insert(key, ..)` lies on every success path after `init`;
 (iii) lookup and insert use the same key (the `path` parameter);
 (iv)  canonical key (shared with C02(c)).
"""
from lib import mir, sym, cfgutil
from rules.loadlock import lock_users, LockUser, ends, FIND_FILE, PARSE, HANDLERS, LOAD_MODULE
from rules import C02


def run(ctx, F):
    prog = F.lib
    S, users = lock_users(prog)
    # ---------------------------------------------------------------- (i)
    n_mod_sites = 0
    for u in users:
        b = u.body
        for fi, find_bi in enumerate(u.find_sites):
            t = b.blocks[find_bi]["term"]
            kind_term = S.operand(b, t["args"][2])
            kinds = [x for x in ("Use", "Forward", "Import") if f"SourceKind::{x}" in repr(kind_term)]
            kind_calls = sym.calls_in(kind_term)
            if any(c.endswith("SourceKind>::load_css") for c in kind_calls) or "SourceKind::Call" in repr(kind_term):
                kinds.append("load_css")
            tag = f"{b.def_}|find_file[{','.join(kinds) or '?'}]"
            if not kinds:
                ctx.fail("anchor-lost", tag, "cannot tell the SourceKind this find_file call loads for", where=b.where(find_bi))
                continue
            if not ({"Use", "Forward"} & set(kinds)):
                ctx.ok("F8-module-body-runner", tag + "|not-a-module-load", None)
                continue
            n_mod_sites += 1
            # direct parse / handler on the module file outside a load_module closure?
            direct = [pb for pb in u.parse_sites if C02.derives(b, b.blocks[pb]["term"]["args"][0], find_bi)]
            if direct:
                ctx.fail("F8-module-body-runner", tag + "|direct-parse", f"{b.def_} parses a @use/@forward file outside CssData::load_module: the module body can run more than once", where=b.where(direct[0]))
            # the load_module call keyed by this file
            lms = []
            for lm in u.load_module_sites:
                lt = b.blocks[lm]["term"]
                if C02.closure_captures(b, lt, find_bi, u):
                    lms.append(lm)
            if len(lms) != 1:
                ctx.fail("F8-module-body-runner", tag + "|load_module", f"expected exactly one load_module call whose closure captures the found file, found {len(lms)}", where=b.where(find_bi))
                continue
            lm = lms[0]
            lt = b.blocks[lm]["term"]
            key = sym.strip_transparent(S.operand(b, lt["args"][1]))
            # the key must be `<found file>.data.source.name` (SourceFile::path inlined)
            key_s = sym.show(key)
            # the accessor is found by its use (whatever its name): the function whose result is handed to load_module
            key0 = sym.strip_transparent(sym.Sym(prog, inline_depth=0).operand(b, lt["args"][1]))
            if key0[0] == "call" and key0[1] in prog.bodies and (prog.bodies[key0[1]].raw.get("self_ty") or "").endswith("SourceFile"):
                path_fn = prog.bodies[key0[1]]
            else:
                path_fn = prog.one("<input::sourcefile::SourceFile>::path")
            path_term = sym.strip_transparent(S.local(path_fn, 0))   # e.g. arg1.data.source.name
            ok = False
            if key[0] in ("proj",) and path_term[0] == "param":
                base = key[1]
                pp = path_term[2]
                if len(key[2]) >= len(pp) and key[2][-len(pp):] == pp and "find_file" in repr(base) and f"SourceKind::{kinds[0]}" in repr(base):
                    ok = True
            if ok:
                ctx.ok("F4-module-cache-key", tag, {"key": key_s[:200], "SourceFile::path": sym.show(path_term)})
            else:
                ctx.fail("F4-module-cache-key", tag, f"the module cache key passed to load_module is `{key_s[:300]}`, not the path of the file that find_file returned: two spellings of one file (or two files with one spelling) get different (or the same) cache entries",
                         where=b.where(lm))
            # early exits between find_file and load_module that return a module without load_module
            starts = u.held_starts(find_bi)
            for st in starts:
                p = cfgutil.paths_to_return_avoiding(b, st, {lm})
                if p:
                    ctx.fail("F8-module-body-runner", tag + "|bypass", f"a success path of {b.def_} uses the found module file without going through load_module", where=b.where(find_bi), path=[f"bb{x}" for x in p])
                    break
            else:
                ctx.ok("F8-module-body-runner", tag + "|all-success-paths-through-load_module", None)
            # closure evaluates the module body
            cl = [d for defs in lt.get("arg_defs", []) for d in defs[:1] if d in prog.bodies and prog.bodies[d].kind == "Closure"]
            if len(cl) != 1:
                ctx.fail("anchor-lost", tag + "|closure", "load_module is not given a closure defined in this function", where=b.where(lm))
                continue
            cb = prog.bodies[cl[0]]
            cu = LockUser(prog, cb, S)
            n_eval = 0
            for pb in cu.parse_sites:
                for h in cu.handler_sites:
                    if C02.derives(cb, cb.blocks[h]["term"]["args"][0], pb):
                        n_eval += 1
            if n_eval == 1:
                ctx.ok("F8-module-body-runner", tag + "|closure-evaluates-once", {"closure": cl[0]})
            else:
                ctx.fail("F8-module-body-runner", tag + "|closure-evaluates-once", f"the load_module closure evaluates the module body {n_eval} times", where=cb.where())
    ctx.floor("@use/@forward find_file sites", n_mod_sites, 2)
    # every caller of load_module is one of those sites
    lm_def = prog.one(LOAD_MODULE).def_
    callers = prog.callers_of(lm_def)
    ctx.floor("load_module callers", len(callers), 1)
    # other lookups / inserts into CssData.modules
    for b in prog.bodies.values():
        for bi, t in b.calls():
            n = mir.callee_name(t) or ""
            if "BTreeMap<K, V, A>>::" in n and t["args"]:
                term = S.operand(b, t["args"][0])
                if term[0] == "param" and term[2] and term[2][-1] == ".modules" and "CssData" in b.local_ty(term[1]):
                    if b.def_ != lm_def:
                        ctx.fail("F8-module-cache-access", f"{b.def_}|{n.rsplit('::',1)[-1]}", f"{b.def_} accesses CssData.modules outside load_module ({n}): the once-cache has a second door", where=b.where(bi))
                    else:
                        ctx.ok("F8-module-cache-access", f"load_module|{n.rsplit('::',1)[-1]}")
    # ---------------------------------------------------------------- (ii) (iii)
    lmb = prog.one(LOAD_MODULE)
    gets = [(bi, t) for bi, t in lmb.calls() if (mir.callee_name(t) or "").endswith("BTreeMap<K, V, A>>::get")]
    inss = [(bi, t) for bi, t in lmb.calls() if (mir.callee_name(t) or "").endswith("BTreeMap<K, V, A>>::insert")]
    inits = [(bi, t) for bi, t in lmb.calls() if (mir.callee_orig(t) or "") in ("std::ops::FnOnce::call_once", "std::ops::FnMut::call_mut", "std::ops::Fn::call")]
    if len(gets) != 1 or len(inss) != 1 or len(inits) != 1:
        ctx.anchor_lost("load_module get/init/insert", f"expected one get, one init call, one insert; found {len(gets)}/{len(inits)}/{len(inss)}")
    else:
        (gb, gt), (ib, it), (nb, nt) = gets[0], inss[0], inits[0]
        kget = sym.strip_transparent(S.operand(lmb, gt["args"][1]))
        kins = sym.strip_transparent(S.operand(lmb, it["args"][1]))
        if kget == kins and kget[0] == "param":
            ctx.ok("F4-cache-same-key", "load_module get/insert", {"key": sym.show(kget)})
        else:
            ctx.fail("F4-cache-same-key", "load_module get/insert", f"lookup key `{sym.show(kget)}` and insert key `{sym.show(kins)}` differ", where=lmb.where(ib))
        # init dominated by the None edge of the switch on get's result
        dom = lmb.dominators()
        none_edge = None
        for bi, blk in enumerate(lmb.blocks):
            t = blk["term"]
            if t["k"] == "switch" and t.get("discr_of") and t["discr_of"][0] == gt["dest"][0]:
                names = {n: tg for _, tg, n in t["targets"]}
                if "None" in names:
                    none_edge = names["None"]
                elif "Some" in names:
                    none_edge = t["otherwise"]
        if none_edge is None:
            ctx.anchor_lost("load_module miss edge", "no switch on the result of modules.get found")
        elif none_edge in dom.get(nb, set()):
            ctx.ok("F3-init-only-on-miss", "load_module", {"miss_edge": none_edge, "init": nb})
        else:
            ctx.fail("F3-init-only-on-miss", "load_module", "the module initialiser can run although the cache lookup hit (or before the lookup): a module body would run twice", where=lmb.where(nb))
        tt = cfgutil.try_targets(lmb, nb)
        if tt is None:
            ctx.fail("F3-insert-after-init", "load_module", "init's result is not consumed by `?`", where=lmb.where(nb))
        else:
            p = cfgutil.paths_to_return_avoiding(lmb, tt[0], {ib})
            if p:
                ctx.fail("F3-insert-after-init", "load_module", "a success path after init returns without inserting the module into the cache", where=lmb.where(nb), path=[f"bb{x}" for x in p])
            else:
                ctx.ok("F3-insert-after-init", "load_module", {"continue": tt[0], "insert": ib})
    # ---------------------------------------------------------------- (iv)
    src = C02.canonical_sources(prog, S)
    if src["normalised"]:
        ctx.ok("F4-canonical-cache-key", "CssData::load_module key", src)
    else:
        ctx.fail("F4-canonical-cache-key", "CssData::load_module key",
                 "the module cache is keyed by SourceFile::path(), the spelled name: `@use \"a\"` and `@use \"./a\"` of one file are two cache entries and the module body runs twice",
                 where=lmb.where())
    ctx.explanation = ("Who-may-call (F8), provenance (F4) and CFG dominance (F3): module files (SourceKind::Use|Forward) are parsed/evaluated only in the closure given to load_module, "
                       "keyed by the found file's path; load_module runs init only on the miss edge and inserts on every success path with the lookup key; nothing else touches CssData.modules.")
