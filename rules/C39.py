"""C39 — loader failures are reported, never absorbed.

F2 on the slice between Context::transform and the fallible loader interactions
(`Loader::find_file`, `SourceFile::read` / `Read::read_to_end`): every link of every
call chain must *propagate* the Result (no absorb, no escape, no unwrap).  Plus:
`into_buffer` (the only producer of CSS bytes) is dominated by the success edge of
`handle_parsed(..)?` in `Context::transform` (no partial CSS), and the slice keeps no
process-wide state (a later compilation is unaffected).
"""
from collections import deque

from lib import errflow, mir, cfgutil
from lib.keys import Ordinals

ANCHOR_TRAIT_CALLS = ("input::loader::Loader::find_file",)
ANCHOR_FNS = ("<input::sourcefile::SourceFile>::read", "std::io::Read::read_to_end", "std::io::Read::read_to_string", "std::io::Read::read")


def run(ctx, F):
    prog = F.lib
    cg = prog.callgraph()
    transform = prog.one("Context<AnyLoader>>::transform")
    # ---- anchors: calls into the loader
    anchor_sites = []
    for b in prog.bodies.values():
        for bi, t in b.calls():
            o = mir.callee_orig(t)
            d = mir.callee_name(t)
            if o in ANCHOR_TRAIT_CALLS or d in ANCHOR_FNS or o in ANCHOR_FNS:
                anchor_sites.append((b, bi, t))
    n_find = sum(1 for b, bi, t in anchor_sites if mir.callee_orig(t) in ANCHOR_TRAIT_CALLS and not b.def_.startswith("<input::fsloader") and not b.def_.startswith("<input::cargoloader"))
    ctx.floor("Loader::find_file call sites (generic context)", n_find, 2)
    ctx.floor("loader/read anchor call sites", len(anchor_sites), 4)
    # ---- slice: functions that can reach an anchor (backward) and are reachable from transform (forward)
    fwd = prog.reachable([transform.def_])
    rev = {}
    for d, edges in cg.items():
        for tgt in edges:
            rev.setdefault(tgt, set()).add(d)
    holders = {b.def_ for b, _, _ in anchor_sites}
    back = set(holders)
    dq = deque(holders)
    while dq:
        d = dq.popleft()
        for p in rev.get(d, ()):
            if p not in back:
                back.add(p)
                dq.append(p)
    slice_fns = sorted(d for d in back if d in fwd and d in prog.bodies)
    ctx.units["slice_functions"] = len(slice_fns)
    ctx.floor("functions on the loader slice", len(slice_fns), 8)
    slice_set = set(slice_fns)
    anchor_defs = set(ANCHOR_TRAIT_CALLS) | set(ANCHOR_FNS)
    ords = Ordinals()
    n_links = 0
    for d in slice_fns:
        b = prog.bodies[d]
        for s in errflow.analyse_body(b):
            t = b.blocks[s.bb]["term"]
            o = mir.callee_orig(t)
            tgt_defs = set(cg[d].keys())
            callee = s.callee
            is_anchor = (o in anchor_defs) or (callee in anchor_defs)
            # a link: a Result-returning call whose callee (or a CHA target of it) is on the slice
            link = is_anchor or callee in slice_set or any(x in slice_set for x in prog.trait_impls.get(o, []))
            if not link:
                continue
            # only Results whose error type can carry a load error
            if not carries_load_error(s.err):
                continue
            n_links += 1
            v = errflow.verdict(s)
            key = ords.key(f"{d}|{callee}|{v}")
            if v == "propagate":
                ctx.ok("F2-slice", key, {"fn": d, "callee": callee, "err": s.err} if is_anchor else None)
            else:
                descr = ";".join(sorted({f"{c[0]}:{c[1]}" for c in s.consumers if c[0] in ("absorb", "escape", "panics")}))
                ctx.fail("F2-slice", key, f"on the loader slice, the Result<_, {s.err}> of {callee} in {d} is not propagated ({descr}): a loader failure would be {'a panic' if v == 'panics' else 'absorbed'} here",
                         where=f"{b.file}:{s.line}", path=prog.path_to(fwd, d))
    ctx.floor("Result links examined on the slice", n_links, 20)
    # ---- no partial CSS: into_buffer dominated by the success edge of handle_parsed(..)?
    hp = cfgutil.calls_to(transform, lambda d, o, t: d is not None and d.endswith("output::transform::handle_parsed"))
    ib = cfgutil.calls_to(transform, lambda d, o, t: d is not None and d.endswith("CssData>::into_buffer"))
    if len(hp) != 1 or len(ib) != 1:
        ctx.anchor_lost("transform: handle_parsed/into_buffer", f"expected one call each in Context::transform, found {len(hp)}/{len(ib)}")
    else:
        tt = cfgutil.try_targets(transform, hp[0])
        dom = transform.dominators()
        if tt is None:
            ctx.fail("F3-no-partial-css", "transform|handle_parsed-not-?", "the result of handle_parsed in Context::transform is not consumed by `?`", where=transform.where(hp[0]))
        elif tt[0] in dom.get(ib[0], set()):
            ctx.ok("F3-no-partial-css", "transform|into_buffer-dominated-by-success", {"handle_parsed_bb": hp[0], "continue_bb": tt[0], "into_buffer_bb": ib[0]})
        else:
            ctx.fail("F3-no-partial-css", "transform|into_buffer-dominated-by-success", "CssData::into_buffer can be reached without handle_parsed having succeeded: partial CSS could be returned", where=transform.where(ib[0]))
        # every producer of the Ok(Vec<u8>) result: `_0` is written only from into_buffer or error exits
        writers = []
        for bi, blk in enumerate(transform.blocks):
            t = blk["term"]
            if t["k"] == "call" and t["dest"][0] == 0:
                writers.append((bi, mir.callee_name(t)))
            for s in blk["stmts"]:
                if s["k"] == "assign" and s["p"][0] == 0:
                    writers.append((bi, "stmt:" + s["rv"]["k"] + ":" + str(s["rv"].get("variant"))))
        for bi, w in writers:
            if w and (w.endswith("into_buffer") or w.endswith("from_residual") or w.endswith(":Err")):
                ctx.ok("F3-no-partial-css", f"transform|ret-writer|{w}")
            else:
                ctx.fail("F3-no-partial-css", f"transform|ret-writer|{w}", f"Context::transform's result is also produced by {w}, not only by into_buffer / an error exit", where=transform.where(bi))
    # ---- later compilation: the input-module part of the slice touches no mutable process-wide state
    for d in slice_fns:
        if not (d.startswith("<input::") or d.startswith("input::")):
            continue
        b = prog.bodies[d]
        for c in mir.iter_consts_body(b.raw):
            st = c.get("static")
            if not st:
                continue
            sinfo = prog.statics.get(st)
            if sinfo is None:
                continue
            if "__CALLSITE" in st and sinfo["ty"].startswith("tracing::"):
                ctx.ok("F8-slice-state", f"{d}|{st.rsplit('::',1)[-1]}|tracing")
            elif sinfo["freeze"] and not sinfo["mut"]:
                ctx.ok("F8-slice-state", f"{d}|{st}|immutable")
            else:
                ctx.fail("F8-slice-state", f"{d}|{st}", f"{d} references process-wide mutable state {st}: {sinfo['ty']}; a failed load could influence a later compilation", where=f"{b.file}:{b.line}")
    ctx.explanation = ("Error-flow (F2) on the call-graph slice {f : Context::transform ->* f ->* Loader::find_file | SourceFile::read | Read::read_to_end}: "
                       "every Result-returning link whose error type can carry a LoadError/io::Error must be propagated by `?`/return on every path; "
                       "into_buffer dominated by success of handle_parsed; the loader part of the slice references only tracing callsites as statics.")
    ctx.assumptions += ["call graph over-approximated by CHA; Loader implementations outside the workspace are the caller's"]


def carries_load_error(err):
    return any(x in err for x in ("LoadError", "error::Error", "std::io::Error", "CallError", "ScopeError")) or err == "E"
