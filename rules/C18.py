"""C18 (partial) — structural clauses of argument binding (FormalArgs::eval and the helpers it is split into).

Which value ends up in which parameter for arbitrary signatures and call shapes is a runtime relation
and is NOT decided.  Decided (MIR, symbolic provenance, dominance):

 (i)   one callee scope: every parameter is defined in the fresh sub-scope `ScopeRef::sub(<decl scope>)`
       that the function returns, and a default value is evaluated in that same scope (so a default can
       see the parameters bound before it — "defaults evaluated left to right in the callee scope");
 (ii)  named before default before error: for a formal without positional value the named argument is
       looked up first (`named.remove(name)`); the default is evaluated only on its None edge; the
       `Missing` error is built only when there is no default either;
 (iii) unknown names are errors: on every success path of a non-variadic signature `check_no_named`
       is passed; a variadic signature receives `only_named(..)` or the remaining arguments;
 (iv)  too many arguments: `TooMany` / `TooManyPos` are built under a `count > formal count` test that is
       taken only when the signature is not variadic;
 (v)   a function returns the first @return it reaches: in ScopeRef::eval_body every nested body
       evaluation whose result is `Some` is returned at once (no arm evaluates on after a value);
 (vi)  duplicated arguments are errors: every `insert` into an argument-name map (`OrderMap<Name, _>`)
       anywhere in the crate has its displaced-value result examined (a discarded result lets a second
       `$a:` silently replace the first); an insert that copies the entries of another such map is
       discharged (keys already unique).
"""
from lib import mir, sym, cfgutil, ast as A

EVAL = "<sass::formal_args::FormalArgs>::eval"


def binder_set(prog):
    root = prog.one(EVAL)
    D = [root]
    i = 0
    while i < len(D):
        for bi, t in D[i].calls():
            d = mir.callee_name(t)
            if d and d in prog.bodies and d.startswith("<sass::formal_args::FormalArgs>::") and d not in [x.def_ for x in D] and not d.endswith("::is_varargs"):
                D.append(prog.bodies[d])
        i += 1
    return root, D


def run(ctx, F):
    ctx.explanation = ("C18, structural clauses only (which value reaches which parameter is a runtime relation and is not decided): the scope every parameter and default is bound / evaluated in, "
                       "the named-default-missing decision order per formal, must-pass check_no_named for non-variadic signatures, the guards of the too-many errors (MIR of FormalArgs::eval and its helpers), "
                       "and the immediate return of a reached @return in ScopeRef::eval_body (AST)")
    prog = F.lib
    root, D = binder_set(prog)
    ctx.units["binder"] = [b.def_ for b in D]
    S = sym.Sym(prog, inline_depth=3, force_inline={b.def_ for b in D[1:]}, auto_inline=False)
    envs = {root.def_: None}
    for b in D[1:]:
        sites = [(c, t) for c in D for bi, t in c.calls() if mir.callee_name(t) == b.def_]
        envs[b.def_] = [S.operand(sites[0][0], a, env=envs.get(sites[0][0].def_)) for a in sites[0][1]["args"]] if len(sites) == 1 and sites[0][0].def_ in envs else None

    def T(b, op):
        return sym.strip_transparent(S.operand(b, op, env=envs.get(b.def_)))

    def is_callee_scope(t):
        r = repr(t)
        return "ScopeRef>::sub" in r and "('param', 2, ())" in r

    # ---------------------------------------------------------------- (i) one callee scope
    defines = [(b, bi, t) for b in D for bi, t in b.calls() if (mir.callee_name(t) or "").endswith("Scope>::define")]
    ctx.floor("parameter definitions in FormalArgs::eval", len(defines), 3)
    bad = [(b, bi) for b, bi, t in defines if not is_callee_scope(T(b, t["args"][0]))]
    if bad:
        b, bi = bad[0]
        ctx.fail("F4-callee-scope", "every parameter is defined in ScopeRef::sub(decl scope)", f"a parameter is defined in `{sym.show(T(b, b.blocks[bi]['term']['args'][0]))[:100]}`, not in the fresh sub-scope of the declaring scope", where=b.where(bi))
    else:
        ctx.ok("F4-callee-scope", "every parameter is defined in ScopeRef::sub(decl scope)", {"sites": len(defines)})
    evals = [(b, bi, t) for b in D for bi, t in b.calls() if (mir.callee_name(t) or "").endswith("Value>::do_evaluate") or (mir.callee_name(t) or "").endswith("sass::value::Value>::evaluate")]
    ctx.floor("default evaluations in FormalArgs::eval", len(evals), 1)
    for n, (b, bi, t) in enumerate(evals):
        sc = T(b, t["args"][1])
        key = f"default#{n} evaluated in the callee scope"
        if is_callee_scope(sc):
            ctx.ok("F4-default-scope", key, None)
        else:
            ctx.fail("F4-default-scope", key, f"a default value is evaluated in `{sym.show(sc)[:100]}`, not in the callee scope where the earlier parameters are already bound: defaults cannot refer to previous arguments", where=b.where(bi))
    # returned scope
    # ---------------------------------------------------------------- (ii) named -> default -> Missing
    for b in D:
        removes = [(bi, t) for bi, t in b.calls() if (mir.callee_name(t) or "").endswith("OrderMap<K, V>>::remove") and ".named" in sym.show(T(b, t["args"][0]))]
        if not removes:
            continue
        dom = b.dominators()
        rb, rt = removes[0]
        none_edge = None
        sw = b.blocks[rt["target"]]["term"] if rt.get("target") is not None else {}
        if sw.get("k") == "switch":
            names = {nm: tg for _, tg, nm in sw["targets"]}
            none_edge = names.get("None", sw["otherwise"] if "Some" in names else None)
        ev_here = [bi for bb, bi, t in evals if bb is b]
        missing = sorted({bi for bi, si, st in b.stmts() if st["k"] == "assign" and st["rv"]["k"] == "agg" and st["rv"].get("variant") == "Missing"})
        key = "named argument looked up before the default; Missing only without default"
        ok = none_edge is not None and ev_here and all(none_edge in dom.get(e, ()) or none_edge == e for e in ev_here) and missing and all(none_edge in dom.get(m, ()) or none_edge == m for m in missing) \
            and not any(any(e in dom.get(m, ()) for e in ev_here) for m in missing)
        if ok:
            ctx.ok("F3-binding-order", key, {"named.remove": rb, "default": ev_here, "Missing": missing})
        else:
            ctx.fail("F3-binding-order", key, f"in {mir.short(b.def_)} the default evaluation ({ev_here}) or the Missing error ({missing}) is not confined to the branch where the named lookup found nothing (None edge {none_edge}): a passed named argument can be overridden by the default, or a default ignored", where=b.where(rb))
        break
    else:
        ctx.anchor_lost("FormalArgs::eval named lookup", "no `args.named.remove(name)` found")
    # ---------------------------------------------------------------- (iii) unknown names
    holder = None
    for b in D:
        if any((mir.callee_name(t) or "").endswith("CallArgs>::check_no_named") for bi, t in b.calls()):
            holder = b
    if holder is None:
        ctx.fail("F3-unknown-named", "non-variadic signatures pass check_no_named", "FormalArgs::eval never calls CallArgs::check_no_named: unknown named arguments are accepted silently", where=root.where())
    else:
        b = holder
        chk = [bi for bi, t in b.calls() if (mir.callee_name(t) or "").endswith("CallArgs>::check_no_named")]
        va = [bi for bi, t in b.calls() if (mir.callee_name(t) or "").endswith("CallArgs>::only_named")]
        # the switch on self.1 (the rest parameter): None edge must pass check_no_named before any return
        edge = None
        for bi, blk in enumerate(b.blocks):
            t = blk["term"]
            if t["k"] == "switch" and t.get("discr_of") and (t.get("of_ty") or "").startswith("std::option::Option"):
                term = sym.show(sym.strip_transparent(S.place(b, t["discr_of"], env=envs.get(b.def_))))
                if term.replace(" ", "") in ("arg1.1",) or term.endswith(".1") and "arg1" in term:
                    names = {nm: tg for _, tg, nm in t["targets"]}
                    edge = names.get("None", t["otherwise"] if "Some" in names else None)
        if edge is None:
            ctx.anchor_lost("FormalArgs::eval rest-parameter test", "no switch on self.1 found")
        else:
            p = cfgutil.paths_to_return_avoiding(b, edge, set(chk))
            if p:
                ctx.fail("F3-unknown-named", "non-variadic signatures pass check_no_named", "a success path of a non-variadic signature reaches the return without check_no_named: an unknown named argument is not an error", where=b.where(edge), path=[f"bb{x}" for x in p[:10]])
            else:
                ctx.ok("F3-unknown-named", "non-variadic signatures pass check_no_named", None)
            (ctx.ok if va else ctx.fail)("F3-unknown-named", "variadic signatures collect the remaining arguments", *([None] if va else ["the rest parameter is not filled from only_named(..) / the remaining arguments", b.where(edge)]))
    # ---------------------------------------------------------------- (iv) too many
    for b in D:
        errs = sorted({bi for bi, si, st in b.stmts() if st["k"] == "assign" and st["rv"]["k"] == "agg" and st["rv"].get("variant") in ("TooMany", "TooManyPos")})
        if not errs:
            continue
        dom = b.dominators()
        gt_edges, nonva_edges = [], []
        for bi, blk in enumerate(b.blocks):
            t = blk["term"]
            if t["k"] != "switch":
                continue
            c = sym.strip_transparent(S.operand(b, t["discr"], env=envs.get(b.def_)))
            false_t = [tg for v, tg, _ in t["targets"] if str(v) == "0"]
            if c[0] == "binop" and c[1] in ("Gt", "Lt") and "CallArgs>::len" in repr(c) and "('param', 1" in repr(c):
                gt_edges.append(t["otherwise"])
            if c[0] == "call" and c[1].endswith("FormalArgs>::is_varargs") and false_t:
                nonva_edges.append(false_t[0])
        key = "TooMany / TooManyPos only when more arguments than formals and not variadic"
        ok = all(any(e in dom.get(x, ()) or e == x for e in gt_edges) for x in errs) and (not nonva_edges or all(any(e in dom.get(x, ()) or e == x for e in nonva_edges) for x in errs))
        has_nonva = bool(nonva_edges) or any(any((mir.callee_name(t) or "").endswith("is_varargs") for _, t in c.calls()) for c in D)
        if ok and gt_edges and has_nonva:
            ctx.ok("F3-too-many", key, {"errors": errs})
        else:
            ctx.fail("F3-too-many", key, f"the too-many-arguments errors at {errs} are not dominated by a `call arguments > formals` test under `!is_varargs()` (count tests: {gt_edges}, non-variadic edges: {nonva_edges})", where=b.where(errs[0]))
        break
    else:
        ctx.fail("F3-too-many", "TooMany / TooManyPos only when more arguments than formals and not variadic", "FormalArgs::eval no longer builds a too-many-arguments error", where=root.where())
    # ---------------------------------------------------------------- (v) first @return wins
    tree = F.ast
    eb = tree.one_method("variablescope::ScopeRef", "eval_body")
    nested = [m for m in A.walk(eb["body"]) if m.get("e") == "mcall" and m["m"] == "eval_body"]
    ctx.floor("nested body evaluations in eval_body", len(nested), 4)
    n_bad = 0
    for m in nested:
        # allowed contexts: `if let Some(r) = <m>? { return Ok(Some(r)); }` or the value of an if/else arm that becomes `result`
        ok = False
        for n in A.walk(eb["body"]):
            if n.get("e") == "if":
                c = A.strip(n["cond"])
                if c.get("e") == "let" and any(x is m for x in A.walk(c["x"])) and "Some" in A.showpat(c["pat"]):
                    body_txt = A.show(A.strip(n["then"])).replace(" ", "")
                    if "returnOk(Some(" in body_txt:
                        ok = True
            if n.get("e") == "if" and n.get("else") is not None and not (A.strip(n["cond"]).get("e") == "let"):
                for br in (n["then"], n["else"]):
                    tail = A.strip(br)
                    while tail.get("e") == "block" and tail["stmts"] and tail["stmts"][-1].get("s") == "expr" and not tail["stmts"][-1].get("semi"):
                        tail = A.strip(tail["stmts"][-1]["x"])
                    if tail.get("e") == "try" and A.strip(tail["x"]) is m or tail is m:
                        ok = True
        if not ok:
            # `let r = <m>?; if r.is_some() { return Ok(r); }`
            for blk in A.walk(eb["body"]):
                if blk.get("e") != "block":
                    continue
                st = blk["stmts"]
                for i, s_ in enumerate(st[:-1]):
                    if s_.get("s") == "let" and s_.get("init") is not None and s_["pat"].get("p") == "bind" and any(x is m for x in A.walk(s_["init"])):
                        r = s_["pat"]["n"]
                        nx = A.strip(st[i + 1].get("x") or {}) if st[i + 1].get("s") == "expr" else {}
                        if nx.get("e") == "if" and A.show(A.strip(nx["cond"])).replace(" ", "") == f"{r}.is_some()" and f"returnOk({r})" in A.show(A.strip(nx["then"])).replace(" ", ""):
                            ok = True
        if not ok:
            n_bad += 1
    after = any(n.get("e") == "if" and A.strip(n["cond"]).get("e") == "let" and A.show(A.strip(n["cond"])["x"]).strip() == "result" and "returnOk(Some(" in A.show(A.strip(n["then"])).replace(" ", "") for n in A.walk(eb["body"]))
    if n_bad == 0 and after:
        ctx.ok("F3-first-return", "eval_body returns a reached @return value at once", {"nested": len(nested)})
    else:
        ctx.fail("F3-first-return", "eval_body returns a reached @return value at once", f"{n_bad} nested body evaluation(s) of ScopeRef::eval_body do not return their `Some` result immediately (or the per-item `if let Some(result) = result {{ return .. }}` is gone): statements after a reached @return would still run", where=eb["path"])

    # ---------------------------------------------------------------- (vi) duplicated arguments
    import json as _json
    import re as _re
    n_ins = 0
    ordn = {}
    from lib.keys import fn_key
    for d in sorted(prog.bodies):
        b = prog.bodies[d]
        for bi, t in b.calls():
            cn = mir.callee_name(t) or ""
            if not cn.endswith("OrderMap<K, V>>::insert") or (t["callee"].get("gargs") or [""])[0] != "sass::name::Name":
                continue
            n_ins += 1
            base = f"{fn_key(d, prog)}|insert into argument-name map"
            n = ordn.get(base, 0)
            ordn[base] = n + 1
            key = base if n == 0 else f"{base}#{n}"
            dest = t.get("dest")
            used = False
            if dest and not dest[1]:
                pat = _re.compile(r'"p": \[%d, ' % dest[0])
                for bi2, si, st in b.stmts():
                    if st["k"] == "assign" and pat.search(_json.dumps(st["rv"])):
                        used = True
                for bi2 in range(len(b.blocks)):
                    tt = b.blocks[bi2]["term"]
                    if tt["k"] == "call" and pat.search(_json.dumps(tt["args"])):
                        used = True
                    if tt["k"] == "switch" and pat.search(_json.dumps(tt["discr"])):
                        used = True
            if used:
                ctx.ok("F2-duplicate-checked", key, None)
                continue
            # discharge: the inserted key comes from iterating another OrderMap<Name, _> (unique already)
            kt = repr(S.operand(b, t["args"][1])) if len(t["args"]) > 1 else ""
            if "{closure" in d and _re.search(r"\('param', [23], ", kt) and "try_fold" in "".join(mir.callee_name(t2) or "" for _, t2 in prog.bodies[b.raw["parent"]].calls() if b.raw.get("parent") in prog.bodies):
                ctx.ok("F2-duplicate-checked", key, "entries of an existing argument map are copied in a fold (keys unique by construction)")
                continue
            # the same copy written as a `for` loop: the key is the (cloned) key yielded by iterating an existing
            # OrderMap, inserted into a map created empty in this function
            recv = repr(S.operand(b, t["args"][0]))
            fresh = "OrderMap<K, V>>::new'" in recv or _re.match(r"^\('agg', 'ordermap::OrderMap::OrderMap', \(\('call', '<std::vec::Vec<T>>::new', \(\)\),\)\)$", recv) is not None
            from_map = "Iterator>::next" in kt and (_re.search(r"OrderMap<K, V>>::(iter|keys)'", kt) is not None or _re.search(r"\('param', \d+, \('\.named'", kt) is not None)
            if fresh and from_map:
                ctx.ok("F2-duplicate-checked", key, "entries of an existing argument map are copied into a fresh map (keys unique by construction)")
                continue
            ctx.fail("F2-duplicate-checked", key, f"the value displaced by this insert into an argument-name map is discarded: a duplicated argument replaces the earlier one instead of raising `Duplicate argument`", where=b.where(bi))
    ctx.floor("inserts into argument-name maps", n_ins, 4)
