"""C36 — comments are preserved as Sass specifies (structural clauses).

 (a) the decision to drop a loud comment in compressed style reads the comment text (the `!`
     marker): the condition of the Item::Comment arm is data-dependent on the comment;
 (b) silent comments produce no Item: `ignore_lcomment` returns () and the only parsers that
     build Item::Comment are fed by the `/* */` comment parser;
 (c) every CssDestination implements push_comment by storing or forwarding the comment;
 (d) the output format reaches every scope created during a compilation (a scope created with
     a constant format would decide comment dropping — and interpolation formatting — by the
     wrong style);
 (e) statement parsers never end on skipped loud comments: `ignore_comments` (the only skipper
     that also consumes `/* */`) may separate the tokens of one statement, but the position a
     statement parser returns is never the one obtained by skipping — a comment after a
     statement belongs to the enclosing body, where it becomes an Item::Comment;
 (f) no write-time drop: every `write` method of the css item types emits on every success path except
     the reviewed omissions (shared with C21): a block that "has no visible content" may not swallow the
     comments inside it.
"""
import json
import os

from lib import mir, sym, ast as A

REVIEWED_DEFAULT_FORMAT = {
    "<input::context::Context<AnyLoader>>::get_scope::{closure#0}": "API default when the caller never set a format",
    "<input::context::Context<AnyLoader>>::transform::{closure#0}": "API default when the caller never set a format",
    "<variablescope::Scope>::builtin_module": "scope of a built-in module (process-wide, produces no output)",
    "sass::functions::map::create_module": "scratch scope for evaluating a constant default argument at initialisation",
}


def format_propagation(ctx, prog, rule="F4-format-propagation"):
    S = sym.Sym(prog, inline_depth=0)
    n = 0
    for b in sorted(prog.bodies.values(), key=lambda b: b.def_):
        for bi, t in b.calls():
            nm = mir.callee_name(t) or ""
            if not (nm.endswith("ScopeRef>::new_global") or nm.endswith("Scope>::new_global")):
                continue
            n += 1
            term = sym.strip_transparent(S.operand(b, t["args"][0]))
            key = f"{b.def_}|new_global"
            s = repr(term)
            if term[0] == "param" or "get_format" in s:
                ctx.ok(rule, key, {"format": sym.show(term)[:80]} if n < 4 else None)
            elif b.def_ in REVIEWED_DEFAULT_FORMAT:
                ctx.reviewed(rule, key, REVIEWED_DEFAULT_FORMAT[b.def_])
            else:
                ctx.fail(rule, key, f"{b.def_} creates a global scope with the format `{sym.show(term)[:80]}` instead of the compilation's output format: everything evaluated in that scope (comment dropping, interpolation) follows the wrong style / precision", where=b.where(bi))
    ctx.floor("new_global call sites", n, 10)


LOUD_SKIPPERS = ("ignore_comments", "spacelike2")


def _ends_with_skipper(n):
    """does the parser expression n end by skipping loud comments?"""
    n = A.strip(n)
    e = n.get("e")
    if e == "path":
        return n["p"].rsplit("::", 1)[-1] in LOUD_SKIPPERS
    if e == "tuple" and n["xs"]:
        return _ends_with_skipper(n["xs"][-1])
    if e == "call" and n["f"].get("e") == "path":
        name = n["f"]["p"].rsplit("::", 1)[-1]
        if name in ("terminated", "pair", "separated_pair", "delimited") and n["args"]:
            return _ends_with_skipper(n["args"][-1])
        if name in ("preceded",) and len(n["args"]) == 2:
            return _ends_with_skipper(n["args"][1])
        if name in ("map", "recognize", "cut", "context", "value") and n["args"]:
            return _ends_with_skipper(n["args"][-1] if name in ("context", "value") else n["args"][0])
        if name in LOUD_SKIPPERS:
            return True
    return False


def _binders(p):
    out = []

    def rec(x):
        if isinstance(x, list):
            for y in x:
                rec(y)
        elif isinstance(x, dict):
            if x.get("p") == "bind":
                out.append(x["n"])
            for k, v in x.items():
                if isinstance(v, (dict, list)) and k not in ("init",):
                    rec(v)
    rec(p)
    return out


def statement_parsers_keep_trailing_comments(ctx, tree):
    fns = [f for f in tree.fn_list if f["path"].startswith("parser::") and not f["path"].startswith("parser::css")
           and (f["sig"].get("ret") or "").replace(" ", "") in ("PResult<Item>", "PResult<Vec<Item>>", "PResult<ItemBody>", "PResult<Option<Item>>")]
    ctx.floor("statement parsers (PResult<Item> / <Vec<Item>> / <ItemBody>)", len(fns), 15)
    for f in fns:
        bad = []

        def binding(st):
            """(position name, parser expression) of `let (P, ..) = <parser>.parse(Q)?` / `<parser>(Q)?` / let-else Ok((P, ..))"""
            pat = st["pat"]
            if pat.get("p") == "tstruct" and pat["v"].rsplit("::", 1)[-1] == "Ok" and pat["xs"]:
                pat = pat["xs"][0]
            if pat.get("p") != "tuple" or not pat["xs"] or pat["xs"][0].get("p") != "bind":
                return None
            init = A.strip(st["init"])
            if init.get("e") == "try":
                init = A.strip(init["x"])
            parser = None
            if init.get("e") == "mcall" and init["m"] == "parse":
                parser = init["recv"]
            elif init.get("e") == "call":
                parser = init["f"] if init["f"].get("e") == "path" and len(init["args"]) == 1 else init
            return (pat["xs"][0]["n"], parser)

        def visit(n, env):
            """lexically scoped walk: env maps a position name to the parser that produced its current binding"""
            if isinstance(n, list):
                for x in n:
                    visit(x, env)
                return
            if not isinstance(n, dict):
                return
            if n.get("e") == "block":
                inner = dict(env)
                for st in n["stmts"]:
                    if st.get("s") == "let" and st.get("init") is not None:
                        visit(st["init"], inner)
                        if st.get("else") is not None:
                            visit(st["else"], inner)
                        b_ = binding(st)
                        for nm in _binders(st["pat"]):
                            inner.pop(nm, None)
                        if b_ is not None and b_[1] is not None:
                            inner[b_[0]] = b_[1]
                    else:
                        visit(st.get("x"), inner)
                return
            if n.get("e") == "call" and A.is_path(n["f"], "Ok") and len(n["args"]) == 1:
                t = A.strip(n["args"][0])
                if t.get("e") == "tuple" and t["xs"] and A.strip(t["xs"][0]).get("e") == "path":
                    pos = A.strip(t["xs"][0])["p"]
                    if pos in env and _ends_with_skipper(env[pos]):
                        bad.append((pos, A.show(env[pos])[:60]))
            if n.get("e") in ("closure",):
                inner = dict(env)
                for prm in n.get("params", []):
                    for nm in _binders(prm):
                        inner.pop(nm, None)
                visit(n["body"], inner)
                return
            if n.get("e") == "match":
                visit(n["on"], env)
                for arm in n["arms"]:
                    inner = dict(env)
                    for nm in _binders(arm["pat"]):
                        inner.pop(nm, None)
                    visit(arm.get("guard"), inner)
                    visit(arm["body"], inner)
                return
            for k, v in A.children(n):
                visit(v, env)
        visit(f["body"], {})
        key = f["path"]
        if bad:
            ctx.fail("F7-trailing-comments", key, f"{f['path']} returns the position `{bad[0][0]}` obtained from `{bad[0][1]}`, i.e. after skipping loud comments that follow the statement: those comments never become Item::Comment and are lost from the output")
        else:
            ctx.ok("F7-trailing-comments", key, None)


def run(ctx, F):
    prog = F.lib
    tree = F.ast
    S = sym.Sym(prog, inline_depth=0)
    # ---------------------------------------------------------------- (a)
    hi = prog.one("output::transform::handle_item")
    pcs = [(bi, t) for bi, t in hi.calls() if (mir.callee_orig(t) or "").endswith("CssDestination::push_comment")]
    if len(pcs) != 1:
        ctx.anchor_lost("handle_item push_comment", f"expected one push_comment call in handle_item, found {len(pcs)}")
    else:
        bi, t = pcs[0]
        dom = hi.dominators().get(bi, set())
        style_tests, text_tests = [], []
        for d in sorted(dom):
            tm = hi.blocks[d]["term"]
            if tm["k"] == "switch" and tm["discr"]["k"] in ("copy", "move"):
                c = repr(S.operand(hi, tm["discr"]))
                if "is_compressed" in c:
                    style_tests.append(d)
                if "as Comment" in c and "is_compressed" not in c and tm.get("discr_ty") == "bool":
                    text_tests.append(d)
        if style_tests and not text_tests:
            # `!compressed || text.starts_with('!')`: the text test lies only on the compressed edge, so it does
            # not dominate the push.  Accept it when, from the compressed edge of the style test, the push is
            # reachable only through a two-way test of a value derived from the comment
            def succs(x):
                tm = hi.blocks[x]["term"]
                if tm["k"] == "switch":
                    return [y[1] for y in tm["targets"]] + ([tm["otherwise"]] if tm.get("otherwise") is not None else [])
                return [tm["target"]] if tm.get("target") is not None else []
            text_sw = set()
            for x in range(len(hi.blocks)):
                tm = hi.blocks[x]["term"]
                if tm["k"] == "switch" and tm.get("discr_ty") == "bool" and tm["discr"]["k"] in ("copy", "move"):
                    c = repr(S.operand(hi, tm["discr"]))
                    if "as Comment" in c and "is_compressed" not in c:
                        text_sw.add(x)
            for d in style_tests:
                tm = hi.blocks[d]["term"]
                comp_edge = tm.get("otherwise")          # is_compressed() == true
                if comp_edge is None or not text_sw:
                    continue
                seen, work, reach = set(), [comp_edge], False
                while work:
                    x = work.pop()
                    if x in seen or x in text_sw:
                        continue
                    seen.add(x)
                    if x == bi:
                        reach = True
                        break
                    work.extend(succs(x))
                if not reach:
                    text_tests = sorted(text_sw)
        if style_tests and text_tests:
            ctx.ok("F4-comment-keep-rule", "compressed drops a comment depending on its text (`!`)", {"style_tests": style_tests, "text_tests": text_tests})
        elif style_tests:
            ctx.fail("F4-comment-keep-rule", "compressed drops a comment depending on its text (`!`)", "the Item::Comment arm of handle_item decides by the output style alone: in compressed style every loud comment is dropped, including `/*! ... */`", where=hi.where(bi))
        else:
            ctx.fail("F4-comment-keep-rule", "comment arm tests the style", "the Item::Comment arm of handle_item no longer tests the output style: plain loud comments would be kept in compressed output", where=hi.where(bi))
    # ---------------------------------------------------------------- (b)
    il = [f for f in tree.fn_list if f["path"].endswith("parser::util::ignore_lcomment")]
    if len(il) == 1 and (il[0]["sig"].get("ret") or "").replace(" ", "") == "PResult<()>":
        ctx.ok("F7-silent-comment", "ignore_lcomment yields ()", None)
    else:
        ctx.fail("F7-silent-comment", "ignore_lcomment yields ()", "the `//` comment parser no longer returns the unit value")
    makers = []
    for b in prog.bodies.values():
        for bi, si, s in b.stmts():
            if s["k"] == "assign" and s["rv"]["k"] == "agg" and s["rv"].get("adt", "").endswith("sass::item::Item") and s["rv"].get("variant") == "Comment":
                makers.append(b.def_)
        for c in mir.iter_consts_body(b.raw):
            if "fn" in c and c["fn"]["def"].endswith("sass::item::Item::Comment"):
                makers.append(b.def_)
    makers = sorted(m for m in set(makers) if not (prog.bodies[m].raw.get("trait") or "").startswith("std::"))
    bad = [m for m in makers if not m.startswith("parser::")]
    ok_makers = []
    for m in makers:
        b = prog.bodies[m]
        uses_comment_parser = any((mir.callee_name(t) or "").rsplit("::", 1)[-1] in ("comment", "comment2") for bi, t in b.calls()) or any("fn" in c and c["fn"]["def"].startswith("parser::util::comment") for c in mir.iter_consts_body(b.raw))
        uses_l = any("fn" in c and c["fn"]["def"].endswith("ignore_lcomment") for c in mir.iter_consts_body(b.raw))
        if uses_comment_parser and not uses_l:
            ok_makers.append(m)
        else:
            ctx.fail("F7-silent-comment", f"{m} builds Item::Comment", f"{m} builds an Item::Comment that is not fed by the `/* */` comment parser alone")
    for m in ok_makers:
        ctx.ok("F7-silent-comment", f"{m} builds Item::Comment from parser::util::comment", None)
    ctx.floor("Item::Comment constructors", len(makers), 1)
    # ---------------------------------------------------------------- (c)
    impls = [f for f in tree.fn_list if f["sig"]["name"] == "push_comment" and f.get("_impl") and (f["_impl"]["trait"] or "").endswith("CssDestination")]
    ctx.floor("CssDestination::push_comment implementations", len(impls), 5)
    for f in impls:
        ty = f["_impl"]["self_ty"].split("<")[0]
        calls = [n for n in A.walk(f["body"]) if n.get("e") == "mcall" and n["m"] in ("push", "push_comment")]
        mentions = any(n.get("e") == "path" and n["p"] == "c" for n in A.walk(f["body"]))
        # every path stores: body is a single push, or an if/else both pushing
        ifs = [n for n in A.walk(f["body"]) if n.get("e") == "if"]
        both = all(n.get("else") is not None and any(m.get("e") == "mcall" and m["m"] == "push" for m in A.walk(n["then"])) and any(m.get("e") == "mcall" and m["m"] == "push" for m in A.walk(n["else"])) for n in ifs)
        if calls and mentions and both:
            ctx.ok("F5-push_comment", f"{ty}::push_comment stores or forwards", None)
        else:
            ctx.fail("F5-push_comment", f"{ty}::push_comment stores or forwards", f"{ty}::push_comment can return without storing or forwarding the comment")
    # ---------------------------------------------------------------- (d)
    format_propagation(ctx, prog)
    from rules.C21 import writers_always_emit
    writers_always_emit(ctx, F, rule="F3-writer-emits")
    statement_parsers_keep_trailing_comments(ctx, tree)
    ctx.explanation = ("Data dependence of the comment-dropping condition on the comment value (MIR dominating tests of the push_comment call), inventory of Item::Comment constructors and of the parser they are fed by, "
                       "sibling table of the five push_comment implementations, provenance of the Format given to every new_global scope.")
