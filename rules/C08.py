"""C08 — expanded and compressed styles describe the same stylesheet (style-dependence clause).

The only ways the output style can influence the result are reviewed, whitespace/notation-only
switches:
 (i)   every add_one(normal, compressed) emits the same text modulo ASCII whitespace (and a
       final `;`);
 (ii)  every read of the style (Format::is_compressed, comparisons with Style::Compressed,
       get_indent) is in the reviewed table with its class; a new read is unreviewed;
 (iii) no error exit is control-dependent on a style read ("both succeed or both fail");
 (iv)  phase separation: outside the serialisation phase (functions writing to a CssBuf /
       Formatter, Display of Formatted<_>, compile_value) values are rendered only with a
       constant Format (default / introspect), never with the scope's output format.
"""
import json
import os
import re

from lib import ast as A, mir, sym, cfgutil
from lib.keys import Ordinals

HERE = os.path.dirname(os.path.abspath(__file__))
TABLE = os.path.join(os.path.dirname(HERE), "tables", "style_reads.json")


def ws_equal(a, b):
    na = re.sub(r"[ \t\r\n]+", "", a)
    nb = re.sub(r"[ \t\r\n]+", "", b)
    return na == nb


def run(ctx, F):
    tree = F.ast
    prog = F.lib
    S = sym.Sym(prog, inline_depth=0)
    reviewed = {r["key"]: r for r in json.load(open(TABLE))["reads"]}
    # ---------------------------------------------------------------- (i) add_one
    n = 0
    ords = Ordinals()
    for f in tree.fn_list:
        for node in A.walk(f["body"]):
            if node.get("e") == "mcall" and node["m"] == "add_one" and len(node["args"]) == 2:
                a, b = (A.lit_str(A.strip(x)) for x in node["args"])
                n += 1
                key = ords.key(f"{f['path']}|add_one({a!r}, {b!r})")
                if a is None or b is None:
                    ctx.fail("F6-style-switch-text", key, f"add_one in {f['path']} is called with non-literal text: the two styles may emit different content")
                elif ws_equal(a, b):
                    ctx.ok("F6-style-switch-text", key, None)
                else:
                    ctx.fail("F6-style-switch-text", key, f"add_one({a!r}, {b!r}) in {f['path']}: the two styles emit different non-whitespace text")
    ctx.floor("add_one sites", n, 15)
    # ---------------------------------------------------------------- (ii) style reads
    reads = []
    for b in sorted(prog.bodies.values(), key=lambda b: b.def_):
        if b.def_ in ("<output::format::Format>::is_compressed",):
            continue
        for bi, t in b.calls():
            nm = mir.callee_name(t) or ""
            if nm.endswith("Format>::is_compressed") or nm.endswith("Format>::get_indent"):
                reads.append((b, bi, nm.rsplit("::", 1)[-1]))
        for bi, si, s in b.stmts():
            if s["k"] == "assign":
                for o in s["rv"].get("ops", []) or []:
                    if o["k"] == "const" and "output::style::Style" in (o.get("ty") or "") and b.def_ not in ("<output::format::Format>::is_compressed", "<output::format::Format>::is_introspection") and "Default" not in b.def_ and not b.def_.endswith("::introspect"):
                        reads.append((b, bi, "Style-constant"))
    ords = Ordinals()
    seen = 0
    for b, bi, kind in reads:
        key = ords.key(f"{b.def_}|{kind}")
        seen += 1
        if key in reviewed:
            ctx.reviewed("F8-style-read", key, reviewed[key]["class"] + ": " + reviewed[key]["reason"])
        else:
            ctx.fail("F8-style-read", key, f"{b.def_} reads the output style ({kind}) and is not in the reviewed table of whitespace/notation-only switches", where=b.where(bi))
    ctx.floor("style reads", seen, 12)
    # ---------------------------------------------------------------- (iii) no error exit under a style read
    for b, bi, kind in reads:
        if kind != "is_compressed":
            continue
        t = b.blocks[bi]["term"]
        sw = find_switch_on(b, t["dest"][0], t["target"])
        if sw is None:
            continue
        dom = b.dominators()
        tm = b.blocks[sw]["term"]
        edges = [tg for _, tg, _ in tm["targets"]] + [tm["otherwise"]]
        err_blocks = cfgutil.error_exit_blocks(b)
        for e in set(edges):
            region = {x for x, ds in dom.items() if e in ds}
            # the region is style-dependent only if the other edge does not also lead into it
            others = [x for x in edges if x != e]
            if any(e in b.reachable_blocks(o) for o in others):
                continue
            bad = sorted(region & err_blocks)
            key = f"{b.def_}|error-under-style#{edges.index(e)}"
            if bad:
                ctx.fail("F3-style-selects-error", f"{b.def_}|error exit under is_compressed()", f"in {b.def_} an error exit (`?` / Err) is control-dependent on the output style: one style can fail where the other succeeds", where=b.where(bad[0]))
    ctx.ok("F3-style-selects-error", "all other style branches contain no error exit", None)
    # ---------------------------------------------------------------- (iv) phase separation
    n_fmt = 0
    ords = Ordinals()
    for b in sorted(prog.bodies.values(), key=lambda b: b.def_):
        for bi, t in b.calls():
            nm = mir.callee_name(t) or ""
            if not ((t.get("dest_ty") or "").startswith("output::format::Formatted<") and nm.endswith("::format")):
                continue
            fa = [a for a, ty in zip(t["args"], t["arg_tys"]) if ty == "output::format::Format"]
            if not fa:
                continue
            n_fmt += 1
            term = sym.strip_transparent(S.operand(b, fa[0]))
            const = term[0] == "call" and (term[1].endswith("Format>::introspect") or term[1].endswith("Format as std::default::Default>::default")) and not term[2]
            key = ords.key(f"{b.def_}|{nm.rsplit('>::', 1)[0].rsplit('::', 1)[-1]}::format")
            if const:
                ctx.ok("F4-phase-separation", key, None)
            elif serialisation_phase(b):
                ctx.ok("F4-phase-separation", key, None)
            else:
                ctx.fail("F4-phase-separation", key, f"{b.def_} renders a value with `{sym.show(term)[:80]}` during evaluation: the rendered text (and anything measured or compared on it) depends on the output style", where=b.where(bi))
    ctx.floor("Formatted constructions examined", n_fmt, 40)
    # ---------------------------------------------------------------- (v) freshness of style-dependent decisions
    stale_style_decisions(ctx, tree)
    # (vi) the output format reaches every scope created during the compilation
    from rules.C36 import format_propagation
    format_propagation(ctx, prog)
    comment_neutrality(ctx, prog)
    ctx.explanation = ("Inventory of every read of the output style (MIR call sites of Format::is_compressed / get_indent and uses of Style constants) against a reviewed table; "
                       "whitespace-equivalence of all add_one literal pairs (AST); dominance regions of each style branch must contain no error exit; "
                       "provenance of the Format argument of every Formatted construction outside the serialisation phase. Whether two notations denote the same colour/number is C33/C10, not decided here.")


def find_switch_on(b, local, start):
    """the switch that branches on `local` (possibly through Not / a move)"""
    cur = {local}
    blk = start
    for _ in range(6):
        bb = b.blocks[blk]
        for s in bb["stmts"]:
            if s["k"] == "assign" and not s["p"][1]:
                for o in s["rv"].get("ops", []) or []:
                    if o["k"] in ("copy", "move") and o["p"][0] in cur:
                        cur.add(s["p"][0])
        t = bb["term"]
        if t["k"] == "switch":
            if t["discr"]["k"] in ("copy", "move") and t["discr"]["p"][0] in cur:
                return blk
            return None
        if t["k"] == "goto":
            blk = t["target"]
            continue
        return None
    return None


def serialisation_phase(b):
    parent = b.raw.get("parent")
    if parent and parent in b.prog.bodies and serialisation_phase(b.prog.bodies[parent]):
        return True
    tys = [l["ty"] for l in b.locals[1:b.argc + 1]]
    if any("output::cssbuf::CssBuf" in t or "std::fmt::Formatter" in t for t in tys):
        return True
    if b.def_ in ("compile_value",):
        return True
    return False


def stale_style_decisions(ctx, tree):
    """A decision that combines the style with other quantities must see their final values:
    `let d = is_compressed() && f(v)` followed by a modification of `v` and a later use of `d`
    lets the style select between two *different* renderings of the value."""
    n = 0
    for f in tree.fn_list:
        if not any(m.get("e") == "mcall" and m["m"] == "is_compressed" for m in A.walk(f["body"])):
            continue
        order = list(A.walk(f["body"]))
        pos = {id(x): i for i, x in enumerate(order)}
        muts = set()
        for x in order:
            if x.get("s") == "let" and x["pat"].get("p") == "bind" and x["pat"].get("mut"):
                muts.add(x["pat"]["n"])
        for x in order:
            if x.get("s") != "let" or x["pat"].get("p") != "bind" or x.get("init") is None:
                continue
            init = x["init"]
            if not any(m.get("e") == "mcall" and m["m"] == "is_compressed" for m in A.walk(init)):
                continue
            name = x["pat"]["n"]
            deps = {m["p"] for m in A.walk(init) if m.get("e") == "path" and m["p"] in muts}
            n += 1
            uses = [pos[id(m)] for m in order if m.get("e") == "path" and m["p"] == name and pos[id(m)] > pos[id(x)]]
            last_use = max(uses) if uses else -1
            stale = []
            for m in order:
                if pos[id(m)] <= pos[id(x)] or pos[id(m)] >= last_use:
                    continue
                tgt = None
                if m.get("e") == "assign":
                    tgt = A.strip(m["l"])
                elif m.get("e") == "bin" and m["op"].endswith("=") and m["op"] not in ("==", "!=", "<=", ">="):
                    tgt = A.strip(m["l"])
                elif m.get("e") == "mcall" and m["m"] in ("push", "pop", "push_str", "clear", "truncate", "insert", "remove", "extend"):
                    tgt = A.strip(m["recv"])
                if tgt is not None and tgt.get("e") == "path" and tgt["p"] in deps:
                    stale.append(tgt["p"])
            key = f"{f['path']}|{name}"
            if stale:
                ctx.fail("F4-style-decision-fresh", key, f"in {f['path']} the style-dependent decision `{name}` is computed from {sorted(deps)} before {sorted(set(stale))} is modified and is used afterwards: the style then selects on a stale value and the two styles can render different values")
            else:
                ctx.ok("F4-style-decision-fresh", key, {"deps": sorted(deps)})
    ctx.floor("named style-dependent decisions", n, 3)


ALLOWED_IN_PUSH_COMMENT = re.compile(
    r"Vec<T, A>>::push$|css::rule::Rule>::push$|as std::convert::(Into|From)<.*>>::(into|from)$|CssDestination::push_comment$|"
    r"Option<T>>::(as_mut|as_deref_mut)$|DerefMut>::deref_mut$|Deref>::deref$")


def comment_neutrality(ctx, prog):
    """Loud comments reach the destinations only in expanded style.  A destination must therefore do
    nothing on push_comment except store (or forward) the comment: any other state it updates there
    (positions, flags, flushing a rule) makes the structure or order of the *other* items depend on
    the style."""
    impls = [b for b in prog.bodies.values() if b.def_.endswith("::push_comment") and (b.raw.get("trait") or "").endswith("CssDestination")]
    ctx.floor("push_comment implementations (MIR)", len(impls), 5)
    for b in sorted(impls, key=lambda b: b.def_):
        bad = []
        for bi, t in b.calls():
            nm = mir.callee_name(t) or ""
            on = mir.callee_orig(t) or ""
            if ALLOWED_IN_PUSH_COMMENT.search(nm) or ALLOWED_IN_PUSH_COMMENT.search(on):
                continue
            bad.append(nm)
        # direct field writes other than through push
        writes = []
        for bi, si, s in b.stmts():
            if s["k"] == "assign" and s["p"][1] and any(p.startswith(".") for p in s["p"][1]) and s["p"][0] == 1:
                writes.append("".join(s["p"][1]))
        key = b.raw.get("self_ty", b.def_).split("<")[0] + "::push_comment"
        if bad or writes:
            ctx.fail("F8-comment-neutral", key, f"{b.def_} does more than store the comment (calls {sorted(set(bad))}, writes {writes}): since comments are only pushed in expanded style, the other items can end up structured or ordered differently in the two styles", where=b.where())
        else:
            ctx.ok("F8-comment-neutral", key, None)
