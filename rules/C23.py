"""C23 (partial) — quantifier structure of is-superselector.

Reflexivity / transitivity over all selector pairs and triples is a relation over runtime trees and is
NOT decided.  Decided are the structural necessary conditions of the monotonicity clauses ("a list is
a superselector of each complex selector it contains", "... of any selector obtained by adding
simple selectors to a compound"):

 (i)   `all_any(one, other, cond)` is `one.iter().all(|a| other.iter().any(|b| cond(a, b)))`: for all
       of the first there exists one of the second, condition applied in that order;
 (ii)  CompoundSelector::is_superselector is a conjunction that covers EVERY field of the compound
       (element, placeholders, classes, id, attr, pseudo, and the pseudo element): each part asks that
       all of `self`'s simple selectors are matched by some of `sub`'s — `all_any(&self.F, &sub.F, ..)`
       with the same field on both sides, never the other way round (adding a simple selector to `sub`
       can then only keep the answer true);
 (iii) SelectorSet::is_superselector: for all members of `other` there is a member of `self` that is
       its superselector (so a list covers each of its members);
 (iv)  Pseudo::is_superselector compares arguments in the same direction except for `:not`, whose
       arguments are compared reversed;
 (v)   Pseudo::is_superselector answers the constant `false` only on a path guarded by a test that
       `self` and the other pseudo differ (`self.F != b.F`): any other constant `false` is a pseudo that
       is not a superselector of itself (necessary for reflexivity);
 (vi)  pseudo::Arg::is_superselector, a `match (self, other)`, has for EVERY variant of `Arg` an
       unguarded diagonal arm `(V, V)` ahead of the catch-all whose body is not the constant `false`
       (exhaustiveness of the diagonal; a variant without one is never its own superselector).
"""
from lib import ast as A


def unblock(n):
    n = A.strip(n)
    while isinstance(n, dict) and n.get("e") == "block" and len(n["stmts"]) == 1 and n["stmts"][0].get("s") == "expr":
        n = A.strip(n["stmts"][0]["x"])
    return n


def conjuncts(n):
    n = unblock(n)
    if n.get("e") == "bin" and n["op"] == "&&":
        return conjuncts(n["l"]) + conjuncts(n["r"])
    return [n]


def closure_of(n):
    n = unblock(n)
    return n if n.get("e") == "closure" else None


def run(ctx, F):
    ctx.explanation = ("C23, structural clauses only (reflexivity/transitivity over all selectors are not decided): quantifier direction of all_any, field coverage and "
                       "self/sub direction of CompoundSelector::is_superselector, the forall-exists shape of SelectorSet::is_superselector, the :not reversal of Pseudo (AST)")
    tree = F.ast
    # ---------------------------------------------------------------- (i) all_any
    aa = [f for f in tree.fn_list if f["path"].endswith("selectors::compound::all_any")]
    if len(aa) != 1:
        ctx.anchor_lost("all_any helper", f"found {len(aa)}")
    else:
        f = aa[0]
        ps = [p["pat"]["n"] for p in f["sig"]["params"] if p.get("pat") and p["pat"].get("n")]
        b = unblock(f["body"])
        ok = False
        why = "body is not `<first>.iter().all(|a| <second>.iter().any(|b| cond(a, b)))`"
        if len(ps) == 3 and b.get("e") == "mcall" and b["m"] == "all" and A.show(b["recv"]).replace(" ", "") == f"{ps[0]}.iter()":
            c1 = closure_of(b["args"][0])
            if c1 is not None and len(c1["params"]) == 1:
                a_name = c1["params"][0].get("n")
                inner = unblock(c1["body"])
                if inner.get("e") == "mcall" and inner["m"] == "any" and A.show(inner["recv"]).replace(" ", "") == f"{ps[1]}.iter()":
                    c2 = closure_of(inner["args"][0])
                    if c2 is not None and len(c2["params"]) == 1:
                        b_name = c2["params"][0].get("n")
                        call = unblock(c2["body"])
                        if call.get("e") == "call" and A.show(call["f"]).strip() == ps[2] and [A.show(x).strip() for x in call["args"]] == [a_name, b_name]:
                            ok = True
                        else:
                            why = f"the condition is applied as `{A.show(call)[:40]}`, not cond({a_name}, {b_name})"
        (ctx.ok if ok else ctx.fail)("F5-all-any", "all_any = forall first, exists second, cond(first, second)", *([None] if ok else [f"all_any: {why}", f["path"]]))
    # ---------------------------------------------------------------- (ii) compound
    cs = tree.one_method("css::selectors::compound::CompoundSelector", "is_superselector")
    prm = [p["pat"]["n"] for p in cs["sig"]["params"] if p.get("pat") and p["pat"].get("n")]
    sub = prm[0] if prm else "sub"
    st = tree.structs.get("css::selectors::compound::CompoundSelector")
    if not st:
        ctx.anchor_lost("struct CompoundSelector", "not found")
        return
    fields = [f_[0] for f_ in st["fields"] if f_[0] not in ("backref",)]
    parts = conjuncts(cs["body"])
    covered = {}
    for p in parts:
        def mentions(base, fl):
            return any(x.get("e") == "field" and x["f"] == fl and A.strip(x["x"]).get("e") == "path" and A.strip(x["x"])["p"] == base for x in A.walk(p))
        mentioned_self = {fl for fl in fields if mentions("self", fl)}
        mentioned_sub = {fl for fl in fields if mentions(sub, fl)}
        pe = [x for x in A.walk(p) if x.get("e") == "mcall" and x["m"] == "pseudo_element"]
        if any(A.show(x["recv"]).strip() == "self" for x in pe):
            mentioned_self.add("<pseudo element>")
        if any(A.show(x["recv"]).strip() == sub for x in pe):
            mentioned_sub.add("<pseudo element>")
        for fl in mentioned_self:
            covered.setdefault(fl, []).append((p, fl in mentioned_sub))
        # direction of all_any parts
        if p.get("e") == "call" and A.is_path(p["f"], "all_any") and len(p["args"]) == 3:
            a0, a1 = (A.show(x).replace(" ", "").lstrip("&") for x in p["args"][:2])
            key = f"CompoundSelector::is_superselector|all_any({a0}, {a1})"
            f0, f1 = a0.split(".")[-1], a1.split(".")[-1]
            if a0.startswith("self.") and a1.startswith(sub + ".") and f0 == f1:
                ctx.ok("F5-compound-direction", key, None)
            else:
                ctx.fail("F5-compound-direction", key, f"`all_any({a0}, {a1}, ..)`: the simple selectors of `self.{f0}` must all be matched among `{sub}.{f0}` (this order); reversed or mixed fields make a compound with MORE simple selectors a superselector of one with fewer", where=cs["path"])
    for fl in fields + ["<pseudo element>"]:
        key = f"CompoundSelector::is_superselector|covers {fl}"
        if fl in covered and any(both for _, both in covered[fl]):
            ctx.ok("F5-compound-coverage", key, None)
        elif fl in covered:
            ctx.fail("F5-compound-coverage", key, f"the part of the conjunction that mentions self.{fl} does not look at {sub}.{fl}", where=cs["path"])
        else:
            ctx.fail("F5-compound-coverage", key, f"CompoundSelector::is_superselector ignores the field `{fl}`: two compounds that differ only there are reported as superselectors of each other", where=cs["path"])
    ctx.floor("CompoundSelector fields compared by is_superselector", len(fields), 6)
    # ---------------------------------------------------------------- (iii) selector set
    ss = tree.one_method("css::selectors::selectorset::SelectorSet", "is_superselector")
    oprm = [p["pat"]["n"] for p in ss["sig"]["params"] if p.get("pat") and p["pat"].get("n")][0]
    b = unblock(ss["body"])
    ok, why = False, "not `other.s.iter().all(|sub| self.s.iter().any(|sup| sup.is_superselector(sub)))`"
    if b.get("e") == "mcall" and b["m"] == "all" and A.show(b["recv"]).replace(" ", "").startswith(f"{oprm}."):
        c1 = closure_of(b["args"][0])
        if c1 is not None and len(c1["params"]) == 1:
            sub_n = c1["params"][0].get("n")
            inner = unblock(c1["body"])
            if inner.get("e") == "mcall" and inner["m"] == "any" and A.show(inner["recv"]).replace(" ", "").startswith("self."):
                c2 = closure_of(inner["args"][0])
                if c2 is not None and len(c2["params"]) == 1:
                    sup_n = c2["params"][0].get("n")
                    call = unblock(c2["body"])
                    if call.get("e") == "mcall" and call["m"] == "is_superselector" and A.show(call["recv"]).strip() == sup_n and A.show(call["args"][0]).strip().lstrip("&") == sub_n:
                        ok = True
                    else:
                        why = f"the member test is `{A.show(call)[:50]}`, not {sup_n}.is_superselector({sub_n})"
    (ctx.ok if ok else ctx.fail)("F5-list-covers-members", "SelectorSet::is_superselector = forall member of other, exists member of self", *([None] if ok else [f"SelectorSet::is_superselector: {why}", ss["path"]]))
    # ---------------------------------------------------------------- (iv) pseudo :not reversal
    ps_ = tree.one_method("css::selectors::pseudo::Pseudo", "is_superselector")
    oname = [p["pat"]["n"] for p in ps_["sig"]["params"] if p.get("pat") and p["pat"].get("n")][0]
    # local aliases `let x = &self.arg;` / `let y = &b.arg;`
    alias = {}

    def side(x):
        """'self' / 'other' when x is (a reference to / an alias of) self.arg / <other>.arg, else None"""
        x = A.strip(x)
        while isinstance(x, dict) and x.get("e") == "ref":
            x = A.strip(x["x"])
        if not isinstance(x, dict):
            return None
        if x.get("e") == "field" and x.get("f") == "arg":
            base = A.strip(x["x"])
            if base.get("e") == "path" and base.get("p") == "self":
                return "self"
            if base.get("e") == "path" and base.get("p") == oname:
                return "other"
        if x.get("e") == "path" and x.get("p") in alias:
            return alias[x["p"]]
        return None

    def stmts_in(n):
        if isinstance(n, list):
            for x in n:
                yield from stmts_in(x)
        elif isinstance(n, dict):
            if n.get("s") == "let":
                yield n
            for v in n.values():
                if isinstance(v, (dict, list)):
                    yield from stmts_in(v)

    for st_ in stmts_in(ps_["body"]):
        if st_.get("init") is not None and st_["pat"].get("p") == "bind":
            sd = side(st_["init"])
            if sd:
                alias[st_["pat"]["n"]] = sd

    def direction_counts(n):
        f = r = 0
        for c in A.walk(n):
            if c.get("e") == "mcall" and c["m"] == "is_superselector" and len(c["args"]) == 1:
                a_, b_ = side(c["recv"]), side(c["args"][0])
                if (a_, b_) == ("self", "other"):
                    f += 1
                elif (a_, b_) == ("other", "self"):
                    r += 1
        return f, r

    # the `:not` arm: then-branch of an `if` whose condition names "not", or a match arm whose pattern does
    not_arms = []
    for n in A.walk(ps_["body"]):
        if n.get("e") == "if" and '"not"' in A.show(n["cond"]):
            not_arms.append(n["then"])
        elif n.get("e") == "match":
            for arm in n["arms"]:
                if '"not"' in A.showpat(arm["pat"]) or (arm.get("guard") is not None and '"not"' in A.show(arm["guard"])):
                    not_arms.append(arm["body"])
    fwd_all, rev_all = direction_counts(ps_["body"])
    not_rev = None
    fwd_not = rev_not = 0
    if len(not_arms) == 1:
        fwd_not, rev_not = direction_counts(not_arms[0])
        not_rev = rev_not == 1 and fwd_not == 0
    fwd, rev = fwd_all - fwd_not, rev_all - rev_not
    if not_rev and rev == 0 and fwd >= 1:
        ctx.ok("F5-pseudo-direction", "Pseudo::is_superselector: :not reversed, others forward", None)
    else:
        ctx.fail("F5-pseudo-direction", "Pseudo::is_superselector: :not reversed, others forward", f"argument comparisons outside the `:not` arm: {fwd} forward, {rev} reversed; `:not` arm(s) found: {len(not_arms)}, reversed there: {not_rev}; `:not(a)` covers `:not(b)` exactly when b covers a, every other pseudo compares arguments forward", where=ps_["path"])

    # ---------------------------------------------------------------- (v) pseudo reflexivity: no unconditional `false`
    import re as _re

    def differs_test(cond):
        def disj(c):
            c = unblock(c)
            if c.get("e") == "bin" and c["op"] == "||":
                return disj(c["l"]) + disj(c["r"])
            return [c]
        for d in disj(cond):
            if not (d.get("e") == "bin" and d["op"] == "!="):
                return False
            l, r = A.show(d["l"]).replace(" ", ""), A.show(d["r"]).replace(" ", "")
            sw = lambda t: _re.sub(r"\bself\b", oname, t)
            if not (sw(l) == r or sw(r) == l):
                return False
        return True

    def rets(n, guards):
        if isinstance(n, list):
            for x in n:
                yield from rets(x, guards)
            return
        if not isinstance(n, dict):
            return
        if n.get("e") == "closure":
            return
        if n.get("e") == "if":
            yield from rets(n["cond"], guards)
            yield from rets(n["then"], guards + [(n["cond"], True)])
            yield from rets(n.get("else"), guards + [(n["cond"], False)])
            return
        if n.get("e") == "ret":
            yield (n.get("x"), guards)
            return
        for v in n.values():
            if isinstance(v, (dict, list)):
                yield from rets(v, guards)

    def tails(n, guards):
        if not isinstance(n, dict):
            return
        n2 = A.strip(n)
        if n2.get("e") == "block":
            st = n2["stmts"]
            if st and st[-1].get("s") == "expr" and not st[-1].get("semi"):
                yield from tails(st[-1]["x"], guards)
            return
        if n2.get("e") == "if":
            yield from tails(n2["then"], guards + [(n2["cond"], True)])
            yield from tails(n2.get("else"), guards + [(n2["cond"], False)])
            return
        if n2.get("e") == "match":
            for arm in n2["arms"]:
                yield from tails(arm["body"], guards + [(None, None)])
            return
        yield (n2, guards)

    n_leaves = 0
    bad = []
    for leaf, guards in list(rets(ps_["body"], [])) + list(tails(ps_["body"], [])):
        n_leaves += 1
        lf = A.strip(leaf) if isinstance(leaf, dict) else None
        if lf is not None and lf.get("e") == "lit" and lf.get("t") == "bool" and lf.get("v") is False:
            if not any(br is True and c is not None and differs_test(c) for c, br in guards):
                bad.append(len(guards))
    ctx.floor("result expressions of Pseudo::is_superselector", n_leaves, 3)
    if bad:
        ctx.fail("F5-pseudo-reflexive", "Pseudo::is_superselector: `false` only where self and the other differ",
                 f"{len(bad)} result(s) of Pseudo::is_superselector are the constant `false` on a path that is not guarded by a test that `self` and `{oname}` differ (such as `self.name != {oname}.name`): "
                 "a pseudo selector reaching that path is not a superselector of itself, so is-superselector is not reflexive", where=ps_["path"])
    else:
        ctx.ok("F5-pseudo-reflexive", "Pseudo::is_superselector: `false` only where self and the other differ", None)

    # ---------------------------------------------------------------- (vi) Arg::is_superselector covers the diagonal
    arg_enum = tree.enum("css::selectors::pseudo::Arg")
    am = tree.one_method("css::selectors::pseudo::Arg", "is_superselector")
    a_other = [p["pat"]["n"] for p in am["sig"]["params"] if p.get("pat") and p["pat"].get("n")][0]
    the_match = None
    for n in A.walk(am["body"]):
        if n.get("e") == "match":
            on = A.strip(n["on"])
            if on.get("e") == "tuple" and len(on["xs"]) == 2:
                names = sorted(A.show(x).replace(" ", "").lstrip("&*") for x in on["xs"])
                if names == sorted(["self", a_other]):
                    the_match = n
                    break
    if the_match is None:
        ctx.anchor_lost("Arg::is_superselector", "no `match (self, other)` over both arguments")
    else:
        def variant_of(pt):
            while pt.get("p") == "ref":
                pt = pt.get("x") or pt.get("pat") or {}
            if pt.get("p") in ("tstruct", "path", "struct"):
                return (pt.get("v") or "").split("::")[-1]
            return None

        def alts(pt):
            if pt.get("p") == "or":
                for x in pt["xs"]:
                    yield from alts(x)
            else:
                yield pt

        covered = {}
        for arm in the_match["arms"]:
            body = A.strip(unblock(arm["body"]))
            is_false = body.get("e") == "lit" and body.get("t") == "bool" and body.get("v") is False
            stop = False
            for pt in alts(arm["pat"]):
                if pt.get("p") in ("wild", "bind"):
                    stop = arm.get("guard") is None
                    continue
                if pt.get("p") == "tuple" and len(pt["xs"]) == 2:
                    v1, v2 = variant_of(pt["xs"][0]), variant_of(pt["xs"][1])
                    if v1 and v1 == v2 and v1 not in covered:
                        covered[v1] = (not is_false) and arm.get("guard") is None
                    else:
                        # `(V, _) => <computed>` / `(_, V) => <computed>`: the diagonal case is decided by an
                        # expression this rule does not evaluate; only a constant `false` there is a miss
                        half = [v for v, o in ((v1, pt["xs"][1]), (v2, pt["xs"][0])) if v and o.get("p") in ("wild", "bind")]
                        for v in half:
                            if v not in covered and arm.get("guard") is None:
                                covered[v] = not is_false
            if stop:
                break
        variants = [v["name"] for v in arg_enum["variants"]]
        ctx.floor("variants of pseudo::Arg", len(variants), 3)
        missing = [v for v in variants if not covered.get(v)]
        key = "Arg::is_superselector: every variant has a diagonal arm that is not `false`"
        if missing:
            ctx.fail("F5-arg-diagonal", key,
                     f"pseudo::Arg::is_superselector has no unguarded `(Self::{missing[0]}(..), Self::{missing[0]}(..))` arm with a non-`false` body before the catch-all (missing: {', '.join(missing)}): "
                     "a pseudo selector whose argument is of that kind is not a superselector of itself (reflexivity)", where=am["path"])
        else:
            ctx.ok("F5-arg-diagonal", key, None)
