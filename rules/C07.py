"""C07 — output is well framed and correctly encoded.

 (i)   brackets balance: bracket-height verifier (lib/brackets.py) over every function of the
       css / output / value modules that writes to a CssBuf or a fmt::Formatter; every writer
       is neutral except the block primitives start_block (+1 brace) / end_block (-1);
       start_block/end_block are paired on every success path of their callers;
 (ii)  final newline: the tail of CssData::into_buffer strips trailing newlines (and one `;`
       in compressed style) and then appends exactly one newline to a non-empty result;
 (iii) encoding marker: chosen by `<[u8]>::is_ascii` of the finished bytes; the prefix is the
       BOM under is_compressed() and `@charset "UTF-8";\\n` otherwise; nothing else emits either;
 (iv)  no line break in compressed output: every emitted literal containing `\\n` is the normal
       half of an add_one whose compressed half has none, or sits under a !is_compressed() test,
       or is the final newline, or belongs to a reviewed site;
 (v)   brackets carried by data: the verifier of (i) sees literals only, so every place in the
       css / output modules that transforms text at character level (chars / split / lines /
       replace / trim / strip / case mapping) is inventoried against a reviewed table (MIR);
 (vi)  bytes are removed from the output buffer only under a test that the last byte is a known
       non-bracket byte (`last() == Some(&b'\\n')`, `Some(&b';')`).
"""
import json
import os
import re

from lib import ast as A, mir, sym, cfgutil
from lib.brackets import Verifier, vec, ZERO, template_text

HERE = os.path.dirname(os.path.abspath(__file__))
WRITER_MODULES = ("css::", "output::", "value::")
PRIMITIVES = {"start_block": (0, 1, 0), "end_block": (0, -1, 0)}


def is_writer(f):
    p = f["path"]
    if not p.startswith(WRITER_MODULES):
        return False
    im = f.get("_impl")
    if im and (im["trait"] or "").endswith("Debug"):
        return False
    if any("test" in a for a in f.get("attrs", [])):
        return False
    if "::error::" in p:
        return False      # Display of error values is not CSS output
    for prm in f["sig"]["params"]:
        ty = (prm.get("ty") or "").replace(" ", "")
        if ty in ("&mutCssBuf", "&mutfmt::Formatter", "&mutfmt::Formatter<'_>", "&mutFormatter", "&mutFormatter<'_>", "&mutimplWrite", "&mutimplfmt::Write", "&mutstd::fmt::Formatter<'_>", "&mutstd::fmt::Formatter"):
            return True
    if im and im["self_ty"].replace(" ", "") == "CssBuf":
        return True
    return False


def run(ctx, F):
    tree = F.ast
    prog = F.lib
    writers = [f for f in tree.fn_list if is_writer(f)]
    ctx.floor("writer functions (CssBuf / Formatter) in css, output, value", len(writers), 40)
    # ---------------------------------------------------------------- (i) bracket heights with summaries to a fixpoint
    summaries = dict(PRIMITIVES)
    results = {}
    for _ in range(6):
        changed = False
        byname = {}
        for f in writers:
            v = Verifier(summaries)
            res, probs = v.function(f)
            results[f["path"]] = (res, probs)
            byname.setdefault(f["sig"]["name"], set()).add(res)
        for name, vs in byname.items():
            vs = {x for x in vs if x is not None}
            if len(vs) == 1:
                val = next(iter(vs))
                if summaries.get(name, ZERO) != val and name not in PRIMITIVES:
                    summaries[name] = val
                    changed = True
        if not changed:
            break
    n_lit = 0
    for f in writers:
        res, probs = results[f["path"]]
        name = f["sig"]["name"]
        emits = any(_emits_bracket(n) for n in A.walk(f["body"]))
        if emits:
            n_lit += 1
        key = f["path"]
        want = PRIMITIVES.get(name, ZERO) if f["path"].startswith("output::cssbuf::") else ZERO
        if probs:
            ctx.fail("F6-bracket-height", key, f"{f['path']}: " + "; ".join(probs)[:400])
        elif res is not None and res != want:
            ctx.fail("F6-bracket-height", key, f"{f['path']} leaves the bracket height at (paren, brace, square) = {res}, expected {want}")
        else:
            ctx.ok("F6-bracket-height", key, {"height": res} if emits and n_lit <= 6 else None)
    ctx.floor("writer functions that emit bracket literals", n_lit, 12)
    # start_block / end_block pairing on the CFG of their callers
    for b in sorted(prog.bodies.values(), key=lambda b: b.def_):
        starts = [bi for bi, t in b.calls() if (mir.callee_name(t) or "").endswith("CssBuf>::start_block")]
        ends = [bi for bi, t in b.calls() if (mir.callee_name(t) or "").endswith("CssBuf>::end_block")]
        for s in starts:
            p = cfgutil.paths_to_return_avoiding(b, b.blocks[s]["term"]["target"], set(ends))
            key = f"{b.def_}|start_block"
            if p:
                ctx.fail("F3-block-pairing", key, f"a success path of {b.def_} opens a block and returns without end_block", where=b.where(s), path=[f"bb{x}" for x in p])
            else:
                ctx.ok("F3-block-pairing", key, None)
        if ends and not starts:
            ctx.fail("F3-block-pairing", f"{b.def_}|end_block-without-start", f"{b.def_} closes a block it did not open", where=b.where(ends[0]))
    # ---------------------------------------------------------------- (ii) (iii) into_buffer
    ib, D, fa = finisher_set(prog, tree)
    final_newline(ctx, fa)
    encoding_marker(ctx, prog, ib, D, tree)
    # ---------------------------------------------------------------- (iv) newline discipline
    newline_discipline(ctx, tree, writers)
    comment_producers(ctx, prog)
    text_rewriters(ctx, prog)
    buffer_trims(ctx, tree)
    values_folded(ctx, prog)
    ctx.explanation = ("Bracket-height verifier over the AST of all CssBuf/Formatter writers of the css, output and value modules (summaries by fixpoint; branches, match arms, loop bodies, closures, exits); "
                       "CFG pairing of start_block/end_block; shape of the tail of into_buffer; provenance of the is_ascii test and inventory of the marker literals; classification of every emitted literal that contains a line break.")


REWRITE_API = re.compile(r"^<str>::(chars|char_indices|split\w*|rsplit\w*|lines|trim\w*|replace\w*|strip_\w+|to_\w*case|repeat|escape_\w+)$")


def text_rewriters(ctx, prog):
    from lib.keys import fn_key, Ordinals
    table = json.load(open(os.path.join(os.path.dirname(HERE), "tables", "text_rewriters.json")))
    reviewed = {r["key"]: r["reason"] for r in table["rewriters"]}
    n = 0
    for dname in sorted(prog.bodies):
        head = dname.lstrip("<&")
        if not (head.startswith("css::") or head.startswith("output::")):
            continue
        b = prog.bodies[dname]
        seen = set()
        for bi, t in b.calls():
            api = mir.short(mir.callee_name(t) or "")
            if not REWRITE_API.match(api):
                continue
            key = f"{fn_key(dname, prog)}|{api}"
            if key in seen:
                continue
            seen.add(key)
            n += 1
            if key in reviewed:
                ctx.reviewed("F8-text-rewriters", key, reviewed[key])
            elif _inherits_review(prog, dname, api, reviewed, fn_key):
                # a private helper split out of reviewed writer(s): same transformation, same review
                ctx.reviewed("F8-text-rewriters", key, "helper called only by functions reviewed for the same transformation: " + _inherits_review(prog, dname, api, reviewed, fn_key))
            else:
                ctx.fail("F8-text-rewriters", key, f"{mir.short(dname)} transforms text at character level with {api}; this site is not in the reviewed table: "
                         "a transformation of emitted text can drop or add a bracket that the literal analysis cannot see", where=b.where(bi))
    ctx.floor("character-level text transformations in css / output", n, 10)


def values_folded(ctx, prog):
    """(vii) a declaration value is written on one line: every text that Property::write hands to the buffer and
    that is a rendered value (`Value::format(..)`) passes through `replace('\\n', " ")`: a line break inside a
    value (also inside a quoted string built at run time) must not reach compressed output."""
    S = sym.Sym(prog, inline_depth=0)
    b = prog.one("<css::rule::Property>::write")
    n = 0
    for bi, t in b.calls():
        if not ((mir.callee_name(t) or "").endswith("CssBuf>::add_str") or (mir.callee_name(t) or "").endswith("CssBuf>::add_one")):
            continue
        for a in t["args"][1:]:
            term = sym.strip_transparent(S.operand(b, a))
            if "Value>::format" not in repr(term):
                continue
            n += 1
            folded = term[0] == "call" and term[1].endswith("<str>::replace") and len(term[2]) == 3 and term[2][1] == ("const", "\n") and term[2][2] == ("const", " ")
            key = f"Property::write|value text#{n}"
            if folded:
                ctx.ok("F4-value-folded", key, None)
            else:
                ctx.fail("F4-value-folded", key, f"Property::write hands the rendered value `{sym.show(term)[:120]}` to the buffer without replacing line breaks by spaces: a value containing a line break (e.g. a re-quoted string) breaks the one-line discipline of compressed output", where=b.where(bi))
    ctx.floor("rendered value texts written by Property::write", n, 1)


def _inherits_review(prog, dname, api, reviewed, fn_key):
    root = dname
    while root in prog.bodies and prog.bodies[root].raw.get("parent"):
        root = prog.bodies[root].raw["parent"]
    callers = [c for c in prog.callers_of(root) if c != root]
    if not callers:
        return None
    keys = []
    for c in callers:
        croot = c
        while croot in prog.bodies and prog.bodies[croot].raw.get("parent"):
            croot = prog.bodies[croot].raw["parent"]
        # same module (private helper) and the caller is itself reviewed for this API
        if croot.rsplit("::", 1)[0].lstrip("<&") .split(">")[0] != root.rsplit("::", 1)[0].lstrip("<&").split(">")[0]:
            return None
        k = f"{fn_key(croot, prog)}|{api}"
        if k not in reviewed:
            return None
        keys.append(k)
    return "; ".join(sorted(set(keys)))


def buffer_trims(ctx, tree):
    """every removal of bytes from an output buffer (Vec<u8>) in output::cssbuf / output::cssdata is guarded by
    a test that the last byte is a fixed non-bracket byte"""
    n = 0
    for f in tree.fn_list:
        if not (f["path"].startswith("output::cssbuf::") or f["path"].startswith("output::cssdata::")):
            continue
        for node, conds in _with_conditions(f["body"], []):
            if not (node.get("e") == "mcall" and node["m"] in ("pop", "truncate", "drain", "remove", "clear", "retain", "split_off")):
                continue
            recv = A.show(node["recv"]).strip()
            n += 1
            key = f"{f['path']}|{recv}.{node['m']}"
            ok = False
            for c in conds:
                for cmp_ in A.walk(c):
                    if cmp_.get("e") == "bin" and cmp_["op"] == "==":
                        l, r = A.show(cmp_["l"]).strip(), A.strip(cmp_["r"])
                        if l == recv + ".last()":
                            lits = [x for x in A.walk(r) if x.get("e") == "lit" and x.get("t") in ("byte", "char", "int")]
                            if len(lits) == 1:
                                v = lits[0]["v"]
                                ch = chr(v) if isinstance(v, int) else str(v)
                                if ch not in "(){}[]":
                                    ok = True
            if ok:
                ctx.ok("F6-buffer-trim", key, "guarded by last() == a fixed non-bracket byte")
            else:
                ctx.fail("F6-buffer-trim", key, f"{f['path']} removes bytes from the output buffer ({recv}.{node['m']}) without testing that the last byte is a fixed non-bracket byte: a closing bracket can be removed", where=f["path"])
    ctx.floor("byte removals from output buffers", n, 4)


def _with_conditions(n, conds):
    """(node, enclosing if/while conditions) for every expression node"""
    if isinstance(n, list):
        for x in n:
            yield from _with_conditions(x, conds)
        return
    if not isinstance(n, dict):
        return
    if "e" in n:
        yield n, conds
    if n.get("e") == "if":
        yield from _with_conditions(n["cond"], conds)
        yield from _with_conditions(n["then"], conds + [n["cond"]])
        if n.get("else") is not None:
            yield from _with_conditions(n["else"], conds)
        return
    if n.get("e") == "while":
        yield from _with_conditions(n["cond"], conds)
        yield from _with_conditions(n["body"], conds + [n["cond"]])
        return
    for k, v in A.children(n):
        yield from _with_conditions(v, conds)


def _emits_bracket(n):
    if n.get("e") == "mcall" and n["m"] in ("add_str", "add_char", "write_str", "write_char", "add_one"):
        return any((A.lit_str(A.strip(a)) or "") and re.search(r"[(){}\[\]]", A.lit_str(A.strip(a)) or "") for a in n["args"])
    if n.get("e") == "fmt" and n.get("template"):
        return bool(re.search(r"[(){}\[\]]", template_text(n["template"])))
    return False


def finisher_set(prog, tree):
    """CssData::into_buffer and the functions of the output::cssdata module it calls (its work may be split
    into helpers); AST and MIR views."""
    ib = prog.one("<output::cssdata::CssData>::into_buffer")
    D = [ib]
    i = 0
    while i < len(D):
        for bi, t in D[i].calls():
            d = mir.callee_name(t)
            if d and d in prog.bodies and "output::cssdata::" in d and d not in [x.def_ for x in D] and "{closure" not in d:
                D.append(prog.bodies[d])
        i += 1
    names = {b.def_.rsplit("::", 1)[-1] for b in D}
    fa = [f for f in tree.fn_list if f["path"].startswith("output::cssdata::") and f["sig"]["name"] in names]
    return ib, D, fa


MUTATORS = ("push", "push_str", "extend", "extend_from_slice", "insert", "append", "truncate", "clear", "pop", "remove", "retain", "drain", "resize", "splice")


def final_newline(ctx, fa):
    """(ii) in the function that finishes the output: `while R.last() == Some(&b'\n') { R.pop(); }` ... then
    `if !R.is_empty() { R.push(b'\n') }`, nothing touches R afterwards, and R is what the function returns."""
    key = "into_buffer tail: strip newlines, strip `;` (compressed), push one newline if non-empty"
    found = []
    for f in fa:
        for blk in A.walk(f["body"]):
            if blk.get("e") != "block":
                continue
            st = blk["stmts"]
            for i, s_ in enumerate(st):
                x = A.strip(s_.get("x") or {}) if s_.get("s") == "expr" else {}
                if not (isinstance(x, dict) and x.get("e") == "if" and not x.get("else")):
                    continue
                pushes = [m for m in A.walk(x["then"]) if m.get("e") == "mcall" and m["m"] == "push" and m["args"] and A.strip(m["args"][0]).get("v") in (10, "\n")]
                if len(pushes) != 1 or A.strip(pushes[0]["recv"]).get("e") != "path":
                    continue
                R = A.strip(pushes[0]["recv"])["p"]
                found.append((f, st, i, x, R))
    if len(found) != 1:
        ctx.fail("F6-final-newline", key, f"expected exactly one place in CssData::into_buffer (and its helpers) that appends the final newline byte under an `if`, found {len(found)}")
        return
    f, st, i, x, R = found[0]
    why = []
    c = A.show(A.strip(x["cond"])).replace(" ", "")
    if c not in (f"!{R}.is_empty()", f"!({R}.is_empty())"):
        why.append(f"the final newline is appended under `{c}`, not `!{R}.is_empty()`")
    others = [m for m in A.walk(x["then"]) if m.get("e") == "mcall" and m["m"] in MUTATORS and A.show(m["recv"]).strip() == R]
    if len(others) != 1:
        why.append("more than one mutation in the newline branch")
    # before: a loop that strips every trailing newline of the same vector
    strip_nl = False
    strip_semi = False
    for s_ in st[:i]:
        y = A.strip(s_.get("x") or {}) if s_.get("s") == "expr" else {}
        if isinstance(y, dict) and y.get("e") == "while":
            cond = A.show(y["cond"]).replace(" ", "")
            lits = [m.get("v") for m in A.walk(y["cond"]) if m.get("e") == "lit"]
            pops = [m for m in A.walk(y["body"]) if m.get("e") == "mcall" and m["m"] == "pop" and A.show(m["recv"]).strip() == R]
            if cond.startswith(f"({R}.last()==") and (10 in lits or "\n" in lits) and pops:
                strip_nl = True
        if isinstance(y, dict) and y.get("e") == "if" and not y.get("else"):
            lits = [m.get("v") for m in A.walk(y["cond"]) if m.get("e") == "lit"]
            pops = [m for m in A.walk(y["then"]) if m.get("e") == "mcall" and m["m"] == "pop" and A.show(m["recv"]).strip() == R]
            if f"{R}.last()" in A.show(y["cond"]).replace(" ", "") and (59 in lits or ";" in lits) and pops:
                strip_semi = True
    if not strip_nl:
        why.append(f"no `while {R}.last() == Some(&b'\\n') {{ {R}.pop(); }}` before the final newline is appended: the output can end with several newlines")
    if not strip_semi:
        why.append(f"no removal of a trailing `;` of `{R}` before the final newline")
    # after: R is not touched any more and is the function's value
    for s_ in st[i + 1:]:
        muts = [m for m in A.walk(s_) if m.get("e") == "mcall" and m["m"] in MUTATORS and A.show(m["recv"]).strip() == R]
        if muts:
            why.append(f"`{R}` is modified again after the final newline was appended ({muts[0]['m']})")
    last = st[-1]
    tail = A.show(A.strip(last.get("x") or {})).replace(" ", "") if last.get("s") == "expr" and not last.get("semi") else ""
    if tail not in (R, f"Ok({R})"):
        why.append(f"the function does not end with `{R}` / `Ok({R})` (found `{tail[:40]}`)")
    if why:
        ctx.fail("F6-final-newline", key, f"{f['path']}: " + "; ".join(why), where=f["path"])
    else:
        ctx.ok("F6-final-newline", key, {"in": f["path"], "vector": R})


def encoding_marker(ctx, prog, ib, D, tree):
    S = sym.Sym(prog, inline_depth=3, force_inline={b.def_ for b in D[1:]}, auto_inline=False)
    envs = {ib.def_: None}
    for b in D[1:]:
        sites = [(c, t) for c in D for bi, t in c.calls() if mir.callee_name(t) == b.def_]
        envs[b.def_] = [S.operand(sites[0][0], a, env=envs.get(sites[0][0].def_)) for a in sites[0][1]["args"]] if len(sites) == 1 and sites[0][0].def_ in envs else None
    from rules.C40 import producers
    asc = [(b, bi, t) for b in D for bi, t in b.calls() if (mir.callee_name(t) or "").endswith("::is_ascii")]
    if len(asc) != 1:
        ctx.fail("F4-encoding-marker", "marker chosen by is_ascii of the output", f"expected one is_ascii test in into_buffer (and its helpers), found {len(asc)}", where=ib.where())
    else:
        b, bi, t = asc[0]
        callee = mir.callee_name(t)
        arg = sym.strip_transparent(S.operand(b, t["args"][0], env=envs.get(b.def_)))
        srcs = producers(arg)
        good = callee == "<[u8]>::is_ascii" and srcs and all(x[0] == "call" and x[1].endswith("CssBuf>::take") for x in srcs)
        if good:
            ctx.ok("F4-encoding-marker", "marker chosen by is_ascii of the output", {"tested": sym.show(srcs[0])[:120]})
        else:
            ctx.fail("F4-encoding-marker", "marker chosen by is_ascii of the output", f"the charset / BOM decision tests `{callee}({sym.show(arg)[:80]})`, not `<[u8]>::is_ascii` of the finished output bytes (CssBuf::take): non-ASCII output could be emitted without its marker", where=b.where(bi))
    want = {"\ufeff", '@charset "UTF-8";\n'}
    holder = None
    for b in D:
        lits = {c.get("v") for c in mir.iter_consts_body(b.raw) if isinstance(c.get("v"), str)}
        if want <= lits:
            holder = b
    if holder is not None:
        ctx.ok("F6-marker-literals", "BOM and @charset literals present in into_buffer", None)
    else:
        ctx.fail("F6-marker-literals", "BOM and @charset literals present in into_buffer", "the two marker literals are not both present in into_buffer (or one helper of it)", where=ib.where())
    # which literal under which style: the two constants are assigned on the two edges of a switch on is_compressed()
    sel_ok = False
    if holder is not None:
        hb = holder
        dom = hb.dominators()
        where_lit = {}
        for bi, si, st in hb.stmts():
            if st["k"] == "assign":
                for o in st["rv"].get("ops", []) or []:
                    if o.get("k") == "const" and o.get("v") in want:
                        where_lit[o["v"]] = bi
        for bi, blk in enumerate(hb.blocks):
            tm = blk["term"]
            if tm["k"] != "switch" or len(want & set(where_lit)) != 2:
                continue
            false_t = [tg for v, tg, _ in tm["targets"] if str(v) == "0"]
            true_t = tm["otherwise"]
            if len(false_t) != 1:
                continue
            cond = sym.strip_transparent(S.operand(hb, tm["discr"], env=envs.get(hb.def_)))
            is_c = cond[0] == "call" and cond[1].endswith("Format>::is_compressed")
            bom_b, cs_b = where_lit["\ufeff"], where_lit['@charset "UTF-8";\n']
            if is_c and (true_t in dom.get(bom_b, ()) or true_t == bom_b) and (false_t[0] in dom.get(cs_b, ()) or false_t[0] == cs_b):
                sel_ok = True
    if sel_ok:
        ctx.ok("F6-marker-literals", "compressed -> BOM, otherwise @charset", None)
    else:
        ctx.fail("F6-marker-literals", "compressed -> BOM, otherwise @charset", "the marker is not selected as: BOM on the true edge of is_compressed(), `@charset \"UTF-8\";\\n` on the false edge")
    others = []
    dnames = {b.def_ for b in D}
    for b in prog.bodies.values():
        if b.def_ in dnames or b.def_.startswith("parser::"):
            continue
        for c in mir.iter_consts_body(b.raw):
            v = c.get("v")
            if isinstance(v, str) and (v == "\ufeff" or v.lower().startswith("@charset")):
                others.append(b.def_)
    if others:
        ctx.fail("F6-marker-literals", "no other emitter of the markers", f"marker literals also appear in {sorted(set(others))}")
    else:
        ctx.ok("F6-marker-literals", "no other emitter of the markers", None)


REVIEWED_NL = {
    "css::comment::<Comment>::write": "comment text: loud comments are dropped before reaching the writer in compressed style (plain-CSS input is the known finding)",
}


def newline_discipline(ctx, tree, writers):
    n_sites = 0
    for f in writers:
        # collect literal emissions with `\n`, with the stack of enclosing conditions
        def rec(node, guards):
            nonlocal n_sites
            if isinstance(node, list):
                for x in node:
                    rec(x, guards)
                return
            if not isinstance(node, dict):
                return
            e = node.get("e")
            if e == "if":
                c = A.show(A.strip(node["cond"])).replace(" ", "")
                rec(node["cond"], guards)
                rec(node["then"], guards + [c])
                if node.get("else") is not None:
                    rec(node["else"], guards + ["!(" + c + ")"])
                return
            if e == "mcall" and node["m"] == "add_one" and len(node["args"]) == 2:
                a, b = (A.lit_str(A.strip(x)) for x in node["args"])
                if a is not None and "\n" in a:
                    n_sites += 1
                    key = f"{f['path']}|add_one({a!r}, {b!r})"
                    if b is not None and "\n" not in b:
                        ctx.ok("F6-compressed-newline", key, None)
                    else:
                        ctx.fail("F6-compressed-newline", key, f"the compressed half of add_one({a!r}, {b!r}) contains a line break")
                elif b is not None and "\n" in b:
                    n_sites += 1
                    ctx.fail("F6-compressed-newline", f"{f['path']}|add_one({a!r}, {b!r})", "the compressed half of add_one contains a line break")
                return
            lits = []
            if e == "mcall" and node["m"] in ("add_str", "add_char", "write_str", "write_char") and node["args"]:
                s = A.lit_str(A.strip(node["args"][0]))
                if s is not None:
                    lits.append(s)
            if e == "fmt" and node.get("template"):
                lits.append(template_text(node["template"]))
            for s in lits:
                if "\n" in s:
                    n_sites += 1
                    key = f"{f['path']}|{s!r}"
                    guards = [c for g in guards for c in split_and(g)]
                    uncompressed = any(g.replace("self.format.", "").replace("buf.format().", "").replace("self.", "") in ("!is_compressed()", "!(is_compressed())", "!compressed", "!(compressed)") or g.startswith("!self.format.is_compressed()") or g.startswith("!(self.format.is_compressed())") for g in guards)
                    if uncompressed:
                        ctx.ok("F6-compressed-newline", key, {"guards": guards})
                    elif f["path"] in REVIEWED_NL:
                        ctx.reviewed("F6-compressed-newline", key, REVIEWED_NL[f["path"]])
                    else:
                        ctx.fail("F6-compressed-newline", key, f"{f['path']} emits a literal containing a line break that is not under a `!is_compressed()` test (guards: {guards})")
            for k, v in node.items():
                if isinstance(v, (dict, list)) and not k.startswith("_"):
                    rec(v, guards)
        rec(f["body"], [])
    ctx.floor("literal emissions containing a line break", n_sites, 8)


def comment_producers(ctx, prog):
    """Comment text (which may contain line breaks) must not reach the writer in compressed style:
    every site that hands a comment to a CssDestination is dominated by a test of the style."""
    S = sym.Sym(prog, inline_depth=0)
    n = 0
    # the writer itself may refuse: `Comment::write` returns before emitting anything on the compressed edge
    # unless the text starts with `!` (then every producer is covered, whatever path the comment took)
    writer_guards = False
    cw = prog.bodies.get("<css::comment::Comment>::write")
    if cw is not None:
        from lib import cfgutil
        emit_rx = re.compile(r"CssBuf>::(add_str|add_one|add_char|do_indent\w*)$|::write(_fmt|_str|_char)?$")
        emits = {bi for bi, t in cw.calls() if emit_rx.search(mir.callee_name(t) or "") or emit_rx.search(mir.callee_orig(t) or "")}
        dom = cw.dominators()
        for bi, t in cw.calls():
            if not (mir.callee_name(t) or "").endswith("Format>::is_compressed") or t.get("target") is None:
                continue
            sw = cw.term(t["target"])
            if sw["k"] != "switch" or sw.get("otherwise") is None:
                continue
            comp = sw["otherwise"]
            # on the compressed edge every emitting block is behind a test of the comment's own text
            behind_text = True
            for e_ in emits:
                if not (e_ == comp or comp in dom.get(e_, ())):
                    continue
                ok_ = False
                for db in dom.get(e_, ()):
                    tm = cw.blocks[db]["term"]
                    if tm["k"] == "switch" and tm["discr"]["k"] in ("copy", "move") and "starts_with" in repr(S.operand(cw, tm["discr"])) and (db == comp or comp in dom.get(db, ())):
                        ok_ = True
                behind_text = behind_text and ok_
            # and nothing is emitted before the style test
            before = [e_ for e_ in emits if e_ in dom.get(bi, ())]
            if behind_text and not before:
                writer_guards = True
    for name in ("output::transform::handle_item", "output::transform::handle_css"):
        b = prog.one(name)
        dom = b.dominators()
        for bi, t in b.calls():
            o = mir.callee_orig(t) or ""
            d = mir.callee_name(t) or ""
            carries = o.endswith("CssDestination::push_comment") or (name.endswith("handle_css") and (o.endswith("CssDestination::push_item") or d.endswith("transform::push_items")))
            if not carries:
                continue
            n += 1
            guarded = False
            for db in dom.get(bi, ()):
                tm = b.blocks[db]["term"]
                if tm["k"] == "switch" and tm["discr"]["k"] in ("copy", "move"):
                    if "is_compressed" in repr(S.operand(b, tm["discr"])):
                        guarded = True
            key = f"{name}|{(o or d).rsplit('::', 1)[-1]}"
            if not guarded and writer_guards:
                ctx.ok("F6-compressed-comment", key, "Comment::write emits nothing in compressed style unless the text starts with `!`")
                continue
            if guarded:
                ctx.ok("F6-compressed-comment", key, None)
            else:
                ctx.fail("F6-compressed-comment", key, f"{name} passes items that can be comments to the destination without testing the output style: comment text (with its line breaks) is written in compressed output", where=b.where(bi))
    ctx.floor("comment-carrying destination calls", n, 3)


def split_and(g):
    """conjuncts of a rendered condition `((a&&b)&&c)`"""
    g = g.strip()
    while g.startswith("(") and g.endswith(")") and _balanced(g[1:-1]):
        g = g[1:-1]
    depth = 0
    for i in range(len(g) - 1):
        if g[i] == "(":
            depth += 1
        elif g[i] == ")":
            depth -= 1
        elif depth == 0 and g[i:i + 2] == "&&":
            return split_and(g[:i]) + split_and(g[i + 2:])
    return [g]


def _balanced(s):
    d = 0
    for ch in s:
        if ch == "(":
            d += 1
        elif ch == ")":
            d -= 1
            if d < 0:
                return False
    return d == 0
