"""C07 — output is well framed and correctly encoded.

 (i)   brackets balance: bracket-height verifier (lib/brackets.py) over every function of the
       css / output / value modules that writes to a CssBuf or a fmt::Formatter; every writer
       is neutral except the block primitives start_block (+1 brace) / end_block (-1);
       start_block/end_block are paired on every success path of their callers;
 (ii)  final newline: the tail of CssData::into_buffer strips trailing newlines (and one `;`
       in compressed style) and then appends exactly one newline to a non-empty result;
 (iii) encoding marker: chosen by `<[u8]>::is_ascii` of the finished bytes; the prefix is the
       BOM under is_compressed() and `@charset "UTF-8";\\n` otherwise; nothing else emits either;
 (iv)  no line break in compressed output: every emitted literal containing `\\n` is the normal
       half of an add_one whose compressed half has none, or sits under a !is_compressed() test,
       or is the final newline, or belongs to a reviewed site;
 (v)   brackets carried by data: the verifier of (i) sees literals only, so every place in the
       css / output modules that transforms text at character level (chars / split / lines /
       replace / trim / strip / case mapping) is inventoried against a reviewed table (MIR);
 (vi)  bytes are removed from the output buffer only under a test that the last byte is a known
       non-bracket byte (`last() == Some(&b'\\n')`, `Some(&b';')`).
"""
import json
import os
import re

from lib import ast as A, mir, sym, cfgutil
from lib.brackets import Verifier, vec, ZERO, template_text

HERE = os.path.dirname(os.path.abspath(__file__))
WRITER_MODULES = ("css::", "output::", "value::")
PRIMITIVES = {"start_block": (0, 1, 0), "end_block": (0, -1, 0)}


def is_writer(f):
    p = f["path"]
    if not p.startswith(WRITER_MODULES):
        return False
    im = f.get("_impl")
    if im and (im["trait"] or "").endswith("Debug"):
        return False
    if any("test" in a for a in f.get("attrs", [])):
        return False
    if "::error::" in p:
        return False      # Display of error values is not CSS output
    for prm in f["sig"]["params"]:
        ty = (prm.get("ty") or "").replace(" ", "")
        if ty in ("&mutCssBuf", "&mutfmt::Formatter", "&mutfmt::Formatter<'_>", "&mutFormatter", "&mutFormatter<'_>", "&mutimplWrite", "&mutimplfmt::Write", "&mutstd::fmt::Formatter<'_>", "&mutstd::fmt::Formatter"):
            return True
    if im and im["self_ty"].replace(" ", "") == "CssBuf":
        return True
    return False


def run(ctx, F):
    tree = F.ast
    prog = F.lib
    writers = [f for f in tree.fn_list if is_writer(f)]
    ctx.floor("writer functions (CssBuf / Formatter) in css, output, value", len(writers), 40)
    # ---------------------------------------------------------------- (i) bracket heights with summaries to a fixpoint
    summaries = dict(PRIMITIVES)
    results = {}
    for _ in range(6):
        changed = False
        byname = {}
        for f in writers:
            v = Verifier(summaries)
            res, probs = v.function(f)
            results[f["path"]] = (res, probs)
            byname.setdefault(f["sig"]["name"], set()).add(res)
        for name, vs in byname.items():
            vs = {x for x in vs if x is not None}
            if len(vs) == 1:
                val = next(iter(vs))
                if summaries.get(name, ZERO) != val and name not in PRIMITIVES:
                    summaries[name] = val
                    changed = True
        if not changed:
            break
    n_lit = 0
    for f in writers:
        res, probs = results[f["path"]]
        name = f["sig"]["name"]
        emits = any(_emits_bracket(n) for n in A.walk(f["body"]))
        if emits:
            n_lit += 1
        key = f["path"]
        want = PRIMITIVES.get(name, ZERO) if f["path"].startswith("output::cssbuf::") else ZERO
        if probs:
            ctx.fail("F6-bracket-height", key, f"{f['path']}: " + "; ".join(probs)[:400])
        elif res is not None and res != want:
            ctx.fail("F6-bracket-height", key, f"{f['path']} leaves the bracket height at (paren, brace, square) = {res}, expected {want}")
        else:
            ctx.ok("F6-bracket-height", key, {"height": res} if emits and n_lit <= 6 else None)
    ctx.floor("writer functions that emit bracket literals", n_lit, 12)
    # start_block / end_block pairing on the CFG of their callers
    for b in sorted(prog.bodies.values(), key=lambda b: b.def_):
        starts = [bi for bi, t in b.calls() if (mir.callee_name(t) or "").endswith("CssBuf>::start_block")]
        ends = [bi for bi, t in b.calls() if (mir.callee_name(t) or "").endswith("CssBuf>::end_block")]
        for s in starts:
            p = cfgutil.paths_to_return_avoiding(b, b.blocks[s]["term"]["target"], set(ends))
            key = f"{b.def_}|start_block"
            if p:
                ctx.fail("F3-block-pairing", key, f"a success path of {b.def_} opens a block and returns without end_block", where=b.where(s), path=[f"bb{x}" for x in p])
            else:
                ctx.ok("F3-block-pairing", key, None)
        if ends and not starts:
            ctx.fail("F3-block-pairing", f"{b.def_}|end_block-without-start", f"{b.def_} closes a block it did not open", where=b.where(ends[0]))
    # ---------------------------------------------------------------- (ii) (iii) into_buffer
    ib_ast = tree.one_method("output::cssdata::CssData", "into_buffer")
    ib = prog.one("<output::cssdata::CssData>::into_buffer")
    final_newline(ctx, ib_ast)
    encoding_marker(ctx, prog, ib, tree)
    # ---------------------------------------------------------------- (iv) newline discipline
    newline_discipline(ctx, tree, writers)
    comment_producers(ctx, prog)
    text_rewriters(ctx, prog)
    buffer_trims(ctx, tree)
    ctx.explanation = ("Bracket-height verifier over the AST of all CssBuf/Formatter writers of the css, output and value modules (summaries by fixpoint; branches, match arms, loop bodies, closures, exits); "
                       "CFG pairing of start_block/end_block; shape of the tail of into_buffer; provenance of the is_ascii test and inventory of the marker literals; classification of every emitted literal that contains a line break.")


REWRITE_API = re.compile(r"^<str>::(chars|char_indices|split\w*|rsplit\w*|lines|trim\w*|replace\w*|strip_\w+|to_\w*case|repeat|escape_\w+)$")


def text_rewriters(ctx, prog):
    from lib.keys import fn_key, Ordinals
    table = json.load(open(os.path.join(os.path.dirname(HERE), "tables", "text_rewriters.json")))
    reviewed = {r["key"]: r["reason"] for r in table["rewriters"]}
    n = 0
    for dname in sorted(prog.bodies):
        head = dname.lstrip("<&")
        if not (head.startswith("css::") or head.startswith("output::")):
            continue
        b = prog.bodies[dname]
        seen = set()
        for bi, t in b.calls():
            api = mir.short(mir.callee_name(t) or "")
            if not REWRITE_API.match(api):
                continue
            key = f"{fn_key(dname, prog)}|{api}"
            if key in seen:
                continue
            seen.add(key)
            n += 1
            if key in reviewed:
                ctx.reviewed("F8-text-rewriters", key, reviewed[key])
            else:
                ctx.fail("F8-text-rewriters", key, f"{mir.short(dname)} transforms text at character level with {api}; this site is not in the reviewed table: "
                         "a transformation of emitted text can drop or add a bracket that the literal analysis cannot see", where=b.where(bi))
    ctx.floor("character-level text transformations in css / output", n, 10)


def buffer_trims(ctx, tree):
    """every removal of bytes from an output buffer (Vec<u8>) in output::cssbuf / output::cssdata is guarded by
    a test that the last byte is a fixed non-bracket byte"""
    n = 0
    for f in tree.fn_list:
        if not (f["path"].startswith("output::cssbuf::") or f["path"].startswith("output::cssdata::")):
            continue
        for node, conds in _with_conditions(f["body"], []):
            if not (node.get("e") == "mcall" and node["m"] in ("pop", "truncate", "drain", "remove", "clear", "retain", "split_off")):
                continue
            recv = A.show(node["recv"]).strip()
            n += 1
            key = f"{f['path']}|{recv}.{node['m']}"
            ok = False
            for c in conds:
                for cmp_ in A.walk(c):
                    if cmp_.get("e") == "bin" and cmp_["op"] == "==":
                        l, r = A.show(cmp_["l"]).strip(), A.strip(cmp_["r"])
                        if l == recv + ".last()":
                            lits = [x for x in A.walk(r) if x.get("e") == "lit" and x.get("t") in ("byte", "char", "int")]
                            if len(lits) == 1:
                                v = lits[0]["v"]
                                ch = chr(v) if isinstance(v, int) else str(v)
                                if ch not in "(){}[]":
                                    ok = True
            if ok:
                ctx.ok("F6-buffer-trim", key, "guarded by last() == a fixed non-bracket byte")
            else:
                ctx.fail("F6-buffer-trim", key, f"{f['path']} removes bytes from the output buffer ({recv}.{node['m']}) without testing that the last byte is a fixed non-bracket byte: a closing bracket can be removed", where=f["path"])
    ctx.floor("byte removals from output buffers", n, 4)


def _with_conditions(n, conds):
    """(node, enclosing if/while conditions) for every expression node"""
    if isinstance(n, list):
        for x in n:
            yield from _with_conditions(x, conds)
        return
    if not isinstance(n, dict):
        return
    if "e" in n:
        yield n, conds
    if n.get("e") == "if":
        yield from _with_conditions(n["cond"], conds)
        yield from _with_conditions(n["then"], conds + [n["cond"]])
        if n.get("else") is not None:
            yield from _with_conditions(n["else"], conds)
        return
    if n.get("e") == "while":
        yield from _with_conditions(n["cond"], conds)
        yield from _with_conditions(n["body"], conds + [n["cond"]])
        return
    for k, v in A.children(n):
        yield from _with_conditions(v, conds)


def _emits_bracket(n):
    if n.get("e") == "mcall" and n["m"] in ("add_str", "add_char", "write_str", "write_char", "add_one"):
        return any((A.lit_str(A.strip(a)) or "") and re.search(r"[(){}\[\]]", A.lit_str(A.strip(a)) or "") for a in n["args"])
    if n.get("e") == "fmt" and n.get("template"):
        return bool(re.search(r"[(){}\[\]]", template_text(n["template"])))
    return False


def final_newline(ctx, f):
    stmts = f["body"]["stmts"]
    txt = [A.show(s.get("x") or s.get("init")) for s in stmts]
    tail = stmts[-4:]
    ok = len(tail) == 4
    why = []
    if ok:
        w, semi, push, ret = tail
        wx = A.strip(w.get("x") or {})
        if not (wx.get("e") == "while" and "result.last()" in A.show(wx["cond"]) and any(m.get("e") == "lit" and m.get("v") in (10, "\n") for m in A.walk(wx["cond"])) and "pop" in json.dumps(wx["body"])):
            ok = False
            why.append("no `while result.last() == Some(&b'\\n') { result.pop(); }`")
        sx = A.strip(semi.get("x") or {})
        if not (sx.get("e") == "if" and "compressed" in A.show(sx["cond"]) and '";"' in json.dumps(sx["cond"]).replace("59", '";"') and "pop" in json.dumps(sx["then"])):
            if not (sx.get("e") == "if" and "compressed" in A.show(sx["cond"]) and "pop" in json.dumps(sx["then"])):
                ok = False
                why.append("no `if compressed && result.last() == Some(&b';') { result.pop(); }`")
        px = A.strip(push.get("x") or {})
        if not (px.get("e") == "if" and "is_empty" in A.show(px["cond"]) and A.show(px["cond"]).strip().startswith("!") and "push" in json.dumps(px["then"]) and not px.get("else")):
            ok = False
            why.append("no `if !result.is_empty() { result.push(b'\\n'); }`")
        else:
            pushed = [n for n in A.walk(px["then"]) if n.get("e") == "mcall" and n["m"] == "push"]
            if len(pushed) != 1 or A.strip(pushed[0]["args"][0]).get("v") not in (10, "\n"):
                ok = False
                why.append("the appended byte is not a single newline")
        rx = A.strip(ret.get("x") or {})
        if not (A.show(rx).replace(" ", "") == "Ok(result)"):
            ok = False
            why.append("the function does not end with Ok(result)")
    if ok:
        ctx.ok("F6-final-newline", "into_buffer tail: strip newlines, strip `;` (compressed), push one newline if non-empty", None)
    else:
        ctx.fail("F6-final-newline", "into_buffer tail: strip newlines, strip `;` (compressed), push one newline if non-empty", "CssData::into_buffer does not end with the strip / strip / push-one-newline / Ok(result) sequence: " + "; ".join(why))


def encoding_marker(ctx, prog, ib, tree):
    S = sym.Sym(prog, inline_depth=0)
    asc = [(bi, t) for bi, t in ib.calls() if (mir.callee_name(t) or "").endswith("::is_ascii")]
    if len(asc) != 1:
        ctx.fail("F4-encoding-marker", "marker chosen by is_ascii of the output", f"expected one is_ascii test in into_buffer, found {len(asc)}", where=ib.where())
    else:
        bi, t = asc[0]
        callee = mir.callee_name(t)
        arg = sym.strip_transparent(S.operand(ib, t["args"][0]))
        good = callee == "<[u8]>::is_ascii" and arg[0] == "call" and arg[1].endswith("CssBuf>::take")
        if good:
            ctx.ok("F4-encoding-marker", "marker chosen by is_ascii of the output", {"tested": sym.show(arg)})
        else:
            ctx.fail("F4-encoding-marker", "marker chosen by is_ascii of the output", f"the charset / BOM decision tests `{callee}({sym.show(arg)[:80]})`, not `<[u8]>::is_ascii` of the finished output bytes (CssBuf::take): non-ASCII output could be emitted without its marker", where=ib.where(bi))
    lits = [c.get("v") for c in mir.iter_consts_body(ib.raw) if isinstance(c.get("v"), str)]
    want = {"\ufeff", '@charset "UTF-8";\n'}
    if want <= set(lits):
        ctx.ok("F6-marker-literals", "BOM and @charset literals present in into_buffer", None)
    else:
        ctx.fail("F6-marker-literals", "BOM and @charset literals present in into_buffer", f"marker literals in into_buffer: {[l for l in lits if l and (l.startswith('@charset') or l == chr(0xfeff))]}", where=ib.where())
    # which literal under which style: AST `let mark = if compressed { BOM } else { @charset }`
    f = tree.one_method("output::cssdata::CssData", "into_buffer")
    sel = None
    for n in A.walk(f["body"]):
        if n.get("e") == "if" and A.lit_str(A.strip(A.strip(n["then"]))) in want:
            sel = n
    if sel is not None and A.show(sel["cond"]).strip() == "compressed" and A.lit_str(A.strip(sel["then"])) == "\ufeff" and A.lit_str(A.strip(sel["else"])) == '@charset "UTF-8";\n':
        ctx.ok("F6-marker-literals", "compressed -> BOM, otherwise @charset", None)
    else:
        ctx.fail("F6-marker-literals", "compressed -> BOM, otherwise @charset", "the marker selection is not `if compressed { \"\\u{feff}\" } else { \"@charset \\\"UTF-8\\\";\\n\" }`")
    others = []
    for b in prog.bodies.values():
        if b is ib or b.def_.startswith("parser::"):
            continue
        for c in mir.iter_consts_body(b.raw):
            v = c.get("v")
            if isinstance(v, str) and (v == "\ufeff" or v.lower().startswith("@charset")):
                others.append(b.def_)
    if others:
        ctx.fail("F6-marker-literals", "no other emitter of the markers", f"marker literals also appear in {sorted(set(others))}")
    else:
        ctx.ok("F6-marker-literals", "no other emitter of the markers", None)


REVIEWED_NL = {
    "css::comment::<Comment>::write": "comment text: loud comments are dropped before reaching the writer in compressed style (plain-CSS input is the known finding)",
}


def newline_discipline(ctx, tree, writers):
    n_sites = 0
    for f in writers:
        # collect literal emissions with `\n`, with the stack of enclosing conditions
        def rec(node, guards):
            nonlocal n_sites
            if isinstance(node, list):
                for x in node:
                    rec(x, guards)
                return
            if not isinstance(node, dict):
                return
            e = node.get("e")
            if e == "if":
                c = A.show(A.strip(node["cond"])).replace(" ", "")
                rec(node["cond"], guards)
                rec(node["then"], guards + [c])
                if node.get("else") is not None:
                    rec(node["else"], guards + ["!(" + c + ")"])
                return
            if e == "mcall" and node["m"] == "add_one" and len(node["args"]) == 2:
                a, b = (A.lit_str(A.strip(x)) for x in node["args"])
                if a is not None and "\n" in a:
                    n_sites += 1
                    key = f"{f['path']}|add_one({a!r}, {b!r})"
                    if b is not None and "\n" not in b:
                        ctx.ok("F6-compressed-newline", key, None)
                    else:
                        ctx.fail("F6-compressed-newline", key, f"the compressed half of add_one({a!r}, {b!r}) contains a line break")
                elif b is not None and "\n" in b:
                    n_sites += 1
                    ctx.fail("F6-compressed-newline", f"{f['path']}|add_one({a!r}, {b!r})", "the compressed half of add_one contains a line break")
                return
            lits = []
            if e == "mcall" and node["m"] in ("add_str", "add_char", "write_str", "write_char") and node["args"]:
                s = A.lit_str(A.strip(node["args"][0]))
                if s is not None:
                    lits.append(s)
            if e == "fmt" and node.get("template"):
                lits.append(template_text(node["template"]))
            for s in lits:
                if "\n" in s:
                    n_sites += 1
                    key = f"{f['path']}|{s!r}"
                    guards = [c for g in guards for c in split_and(g)]
                    uncompressed = any(g.replace("self.format.", "").replace("buf.format().", "").replace("self.", "") in ("!is_compressed()", "!(is_compressed())", "!compressed", "!(compressed)") or g.startswith("!self.format.is_compressed()") or g.startswith("!(self.format.is_compressed())") for g in guards)
                    if uncompressed:
                        ctx.ok("F6-compressed-newline", key, {"guards": guards})
                    elif f["path"] in REVIEWED_NL:
                        ctx.reviewed("F6-compressed-newline", key, REVIEWED_NL[f["path"]])
                    else:
                        ctx.fail("F6-compressed-newline", key, f"{f['path']} emits a literal containing a line break that is not under a `!is_compressed()` test (guards: {guards})")
            for k, v in node.items():
                if isinstance(v, (dict, list)) and not k.startswith("_"):
                    rec(v, guards)
        rec(f["body"], [])
    ctx.floor("literal emissions containing a line break", n_sites, 8)


def comment_producers(ctx, prog):
    """Comment text (which may contain line breaks) must not reach the writer in compressed style:
    every site that hands a comment to a CssDestination is dominated by a test of the style."""
    S = sym.Sym(prog, inline_depth=0)
    n = 0
    for name in ("output::transform::handle_item", "output::transform::handle_css"):
        b = prog.one(name)
        dom = b.dominators()
        for bi, t in b.calls():
            o = mir.callee_orig(t) or ""
            d = mir.callee_name(t) or ""
            carries = o.endswith("CssDestination::push_comment") or (name.endswith("handle_css") and (o.endswith("CssDestination::push_item") or d.endswith("transform::push_items")))
            if not carries:
                continue
            n += 1
            guarded = False
            for db in dom.get(bi, ()):
                tm = b.blocks[db]["term"]
                if tm["k"] == "switch" and tm["discr"]["k"] in ("copy", "move"):
                    if "is_compressed" in repr(S.operand(b, tm["discr"])):
                        guarded = True
            key = f"{name}|{(o or d).rsplit('::', 1)[-1]}"
            if guarded:
                ctx.ok("F6-compressed-comment", key, None)
            else:
                ctx.fail("F6-compressed-comment", key, f"{name} passes items that can be comments to the destination without testing the output style: comment text (with its line breaks) is written in compressed output", where=b.where(bi))
    ctx.floor("comment-carrying destination calls", n, 3)


def split_and(g):
    """conjuncts of a rendered condition `((a&&b)&&c)`"""
    g = g.strip()
    while g.startswith("(") and g.endswith(")") and _balanced(g[1:-1]):
        g = g[1:-1]
    depth = 0
    for i in range(len(g) - 1):
        if g[i] == "(":
            depth += 1
        elif g[i] == ")":
            depth -= 1
        elif depth == 0 and g[i:i + 2] == "&&":
            return split_and(g[:i]) + split_and(g[i + 2:])
    return [g]


def _balanced(s):
    d = 0
    for ch in s:
        if ch == "(":
            d += 1
        elif ch == ")":
            d -= 1
            if d < 0:
                return False
    return d == 0
