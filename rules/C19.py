"""C19 (partial) — direction, kind and order of selector nesting.

What the combined selector list looks like for arbitrary selector trees (with `&` in suffixes and pseudo
arguments) relates runtime trees and is NOT decided.  Decided (AST), each a necessary condition:

 (i)   direction: in CssSelectorSet::nest every `X.nest(Y)` of single selectors has X bound by an iteration
       over the *outer* list (`self`) and Y by an iteration over the *inner* list (`other`): the result is
       `outer inner`, never `inner outer`;
 (ii)  kind: when the inner selector has no leading combinator of its own, Selector::nest attaches the
       outer selector as `(RelKind::Ancestor, self.clone())` — the descendant combination;
 (iii) `&` or nesting, never both: an inner selector is either resolved against the parent
       (`resolve_ref`, when `has_backref()`) or nested under every outer selector (the `else` of the same
       test);
 (iv)  outer-major order: either the per-inner lists (each in outer order) are interleaved round-robin
       (`while .. { for i in &mut parts { if let Some(next) = i.next() { push } } }`), or the combination is
       a `flat_map` over the outer list with the inner list inside.  Any other shape is reported as a
       lost anchor.
"""
from lib import ast as A


def unblock(n):
    n = A.strip(n)
    while isinstance(n, dict) and n.get("e") == "block" and len(n["stmts"]) == 1 and n["stmts"][0].get("s") == "expr":
        n = A.strip(n["stmts"][0]["x"])
    return n


def run(ctx, F):
    ctx.explanation = ("C19, structural clauses only (the combined list for arbitrary selector trees is not decided): which list each operand of Selector::nest is drawn from, the "
                       "descendant kind attached when the inner selector has no combinator, the exclusive choice between `&` resolution and nesting, and the outer-major combination order (AST)")
    tree = F.ast
    try:
        f = tree.one_method("css::selectors::cssselectorset::CssSelectorSet", "nest")
        g = tree.one_method("css::selectors::selector::Selector", "nest")
    except Exception as e:  # AnchorLost
        ctx.anchor_lost("nest methods", str(e))
        return
    inner_name = [p["pat"]["n"] for p in f["sig"]["params"] if p.get("pat") and p["pat"].get("n")][0]

    # closures with their binder and what they iterate over: map/flat_map(|x| ..) on <recv>
    binders = {}          # name -> "outer" / "inner"

    def source(recv):
        t = A.show(recv).replace(" ", "")
        if t.startswith("self.") or t.startswith("self"):
            return "outer"
        if t.startswith(inner_name + ".") or t == inner_name:
            return "inner"
        return None
    for n in A.walk(f["body"]):
        if n.get("e") == "mcall" and n["m"] in ("map", "flat_map", "for_each", "filter_map") and n["args"]:
            cl = unblock(n["args"][0])
            if cl.get("e") == "closure" and len(cl["params"]) == 1 and cl["params"][0].get("n"):
                # walk the receiver chain down to its root
                r = n["recv"]
                while A.strip(r).get("e") == "mcall":
                    src = source(r)
                    if src:
                        break
                    r = A.strip(r)["recv"]
                src = source(r)
                if src:
                    binders[cl["params"][0]["n"]] = src
        if n.get("e") == "for" and n.get("pat", {}).get("n"):
            src = source(n["iter"])
            if src:
                binders[n["pat"]["n"]] = src
    # ---------------------------------------------------------------- (i) direction
    nests = [n for n in A.walk(f["body"]) if n.get("e") == "mcall" and n["m"] == "nest" and len(n["args"]) == 1]
    ctx.floor("Selector::nest calls in CssSelectorSet::nest", len(nests), 1)
    for k, n in enumerate(nests):
        recv = A.show(n["recv"]).strip().lstrip("&*")
        arg = A.show(n["args"][0]).strip().lstrip("&*")
        key = "CssSelectorSet::nest|outer.nest(inner)" + ("" if k == 0 else f"#{k}")
        if binders.get(recv) == "outer" and binders.get(arg) == "inner":
            ctx.ok("F4-nest-direction", key, f"{recv} (outer) .nest({arg} (inner))")
        else:
            ctx.fail("F4-nest-direction", key, f"`{recv}.nest({arg})`: the receiver is drawn from the {binders.get(recv)} list and the argument from the {binders.get(arg)} list; nesting must put the outer selector in front (`outer inner`)", where=f["path"])
    # ---------------------------------------------------------------- (iii) & or nesting
    ok3 = False
    for n in A.walk(f["body"]):
        if n.get("e") == "if" and n.get("else") is not None:
            c = unblock(n["cond"])
            neg = c.get("e") == "unary" and c.get("op") == "!"
            c2 = unblock(c["x"]) if neg else c
            if c2.get("e") == "mcall" and c2["m"] == "has_backref":
                a, b = (n["else"], n["then"]) if neg else (n["then"], n["else"])
                res = any(m.get("e") == "mcall" and m["m"] == "resolve_ref" for m in A.walk(a))
                nst = any(m.get("e") == "mcall" and m["m"] == "nest" for m in A.walk(b))
                res_b = any(m.get("e") == "mcall" and m["m"] == "resolve_ref" for m in A.walk(b))
                nst_a = any(m.get("e") == "mcall" and m["m"] == "nest" for m in A.walk(a))
                ok3 = res and nst and not res_b and not nst_a
    (ctx.ok if ok3 else ctx.fail)("F5-backref-or-nest", "an inner selector with `&` is resolved, any other is nested", *([None] if ok3 else ["CssSelectorSet::nest does not choose between resolve_ref (has_backref) and nest in the two branches of one test: a selector with `&` would also get the descendant combination, or one without it would not be nested", f["path"]]))
    # ---------------------------------------------------------------- (iv) order
    shape = None
    # B: self...flat_map(|s| other...map(|o| s.nest(o)))
    for n in A.walk(f["body"]):
        if n.get("e") == "mcall" and n["m"] == "flat_map" and source(n["recv"]) == "outer" or (n.get("e") == "mcall" and n["m"] == "flat_map" and any(source(x) == "outer" for x in [n["recv"]])):
            cl = unblock(n["args"][0]) if n["args"] else {}
            if cl.get("e") == "closure" and any(m.get("e") == "mcall" and m["m"] in ("map",) and inner_name in A.show(m["recv"]) for m in A.walk(cl["body"])):
                shape = "outer flat_map over inner map"
    # A: per-inner vectors interleaved round-robin
    if shape is None:
        per_inner = any(n.get("e") == "mcall" and n["m"] == "map" and inner_name in A.show(n["recv"]) and any(m.get("e") == "mcall" and m["m"] == "nest" for m in A.walk(n["args"][0])) for n in A.walk(f["body"]) if n.get("args"))
        # the same written as a `for` over the inner list that pushes one list per inner selector
        per_inner = per_inner or any(n.get("e") == "for" and source(n["iter"]) == "inner" and any(m.get("e") == "mcall" and m["m"] == "nest" for m in A.walk(n["body"]))
                                     and any(m.get("e") == "mcall" and m["m"] == "push" for m in A.walk(n["body"])) for n in A.walk(f["body"]))
        rr = False
        for n in A.walk(f["body"]):
            if n.get("e") in ("while", "loop"):
                for m in A.walk(n["body"]):
                    if m.get("e") != "for":
                        continue
                    it = A.show(m["iter"]).replace(" ", "")
                    if it.startswith("&") or it.endswith(".iter_mut()"):
                        body = m["body"]
                        nexts = any(x.get("e") == "mcall" and x["m"] == "next" for x in A.walk(body))
                        pushes = any(x.get("e") == "mcall" and x["m"] == "push" for x in A.walk(body))
                        if nexts and pushes:
                            rr = True
        if per_inner and rr:
            shape = "per-inner lists in outer order, interleaved round-robin"
    if shape:
        ctx.ok("F5-outer-major", "combination order is outer-major", shape)
    else:
        ctx.anchor_lost("combination order of CssSelectorSet::nest", "neither the round-robin interleaving of per-inner lists nor an outer flat_map over the inner list was recognised")
    # ---------------------------------------------------------------- (ii) kind
    ok2 = False
    seen = []
    for n in A.walk(g["body"]):
        if n.get("e") == "match":
            for arm in n["arms"]:
                if A.showpat(arm["pat"]).strip() == "None":
                    elems = [A.show(y).replace(" ", "") for x in A.walk(arm["body"]) if x.get("e") == "tuple" for y in x["xs"]]
                    seen.append(elems)
                    if len(elems) >= 2 and elems[0].endswith("RelKind::Ancestor") and elems[1].startswith("self.clone()"):
                        ok2 = True
    (ctx.ok if ok2 else ctx.fail)("F4-descendant-kind", "Selector::nest attaches the outer selector as Ancestor", *([None] if ok2 else [f"Selector::nest: for an inner selector without combinator the attached relation is {seen[:2]} — expected `(RelKind::Ancestor, self.clone())`, the descendant combination `outer inner`", g["path"]]))
