"""C27 — strings keep their content through escaping and quoting (structural clauses).

 (i)   every template that emits a hexadecimal escape (`\\{:x}`) is followed by a delimiter inside
       the template, or the emitting function implements the carry-space idiom (a flag set at the
       emission and tested before the next character);
 (ii)  every predicate that decides whether a character continues a hex escape accepts the whole
       CSS hex-digit set 0-9 a-f A-F (a partial set silently merges an escape with the next char);
 (iii) escape decoders accumulate with the radix they read digits in (`acc * K + to_digit(R)`: K == R).
 (iv)  escape normalisers (the functions that turn a decoded escape back into the stored form):
       their decision chains are evaluated for representative characters; a backslash is never
       stored bare, control characters are stored as hexadecimal escapes, and in unquoted
       text the characters that end a token are never stored bare; the Sass reader and the
       plain-CSS reader agree on every representative (sibling cross-check).
 (v)   escapers (loops that copy text character by character into a quoted form): in the branch taken for
       a backslash every path writes the escaped form `\\{c}`; no path of that branch copies the bare
       character.
Whether decoded code points equal the source's is the runtime part of the property and is not claimed.
"""
import unicodedata
import re

from lib import ast as A

HEX = set("0123456789abcdefABCDEF")


def char_set_of_pattern(p):
    """set of chars accepted by a pattern made of char literals / ranges / or-patterns, else None"""
    k = p.get("p")
    if k == "or":
        out = set()
        for x in p["xs"]:
            s = char_set_of_pattern(x)
            if s is None:
                return None
            out |= s
        return out
    if k == "lit":
        v = p["x"].get("v")
        if p["x"].get("t") == "char":
            return {v}
        if p["x"].get("t") == "byte":
            return {chr(v)}
        return None
    if k == "range":
        lo, hi = p.get("lo"), p.get("hi")
        if lo and hi and lo.get("t") in ("char", "byte") and hi.get("t") in ("char", "byte"):
            a = ord(lo["v"]) if lo["t"] == "char" else lo["v"]
            b = ord(hi["v"]) if hi["t"] == "char" else hi["v"]
            if not p.get("incl"):
                b -= 1
            return {chr(c) for c in range(a, b + 1)}
        return None
    if k == "ref":
        return char_set_of_pattern(p["x"])
    return None


def char_predicates(tree):
    """(function path, description, accepted set) for every `matches!`-style char class and literal char set"""
    out = []
    for f in tree.fn_list:
        for n in A.walk(f["body"]):
            if n.get("e") == "match" and len(n["arms"]) == 2:
                a0, a1 = n["arms"]
                s = char_set_of_pattern(a0["pat"])
                b0, b1 = A.strip(a0["body"]), A.strip(a1["body"])
                if s is not None and b0.get("v") is True and b1.get("v") is False and a1["pat"].get("p") == "wild":
                    out.append((f["path"], "matches!(" + A.show(n["on"]) + ", " + A.showpat(a0["pat"])[:60] + ")", s))
            if n.get("e") == "call" and n["f"].get("e") == "path" and n["f"]["p"].rsplit("::", 1)[-1] in ("one_of", "is_a", "none_of", "is_not") and n["args"]:
                s = A.lit_str(A.strip(n["args"][0]))
                if s is not None and n["f"]["p"].rsplit("::", 1)[-1] in ("one_of", "is_a"):
                    out.append((f["path"], f"{n['f']['p']}({s!r})", set(s)))
    return out


def run(ctx, F):
    tree = F.ast
    # ---------------------------------------------------------------- (ii) hex predicates
    preds = char_predicates(tree)
    n_hex = 0
    for path, descr, s in preds:
        digits = set("0123456789")
        letters = s & set("abcdefABCDEF")
        if not (digits <= s and letters):
            continue
        if s - HEX - set("\t ?"):
            continue      # a wider class (identifier characters ...), not a hex-digit test
        n_hex += 1
        key = f"{path}|{descr}"
        if HEX <= s:
            ctx.ok("F5-hex-class-complete", key, {"accepts": "".join(sorted(s & HEX))})
        else:
            ctx.fail("F5-hex-class-complete", key, f"{path}: the character class {descr} accepts {''.join(sorted(s))!r}, i.e. only part of the hex digits (missing {''.join(sorted(HEX - s))!r}): an escape followed by one of the missing digits merges with it")
    # std predicate uses are complete by definition; count them as instances
    n_std = 0
    for f in tree.fn_list:
        for n in A.walk(f["body"]):
            if n.get("e") == "mcall" and n["m"] == "is_ascii_hexdigit":
                n_std += 1
                ctx.ok("F5-hex-class-complete", f"{f['path']}|is_ascii_hexdigit()", None)
    ctx.floor("hex-digit predicates (std + literal classes)", n_std + n_hex, 3)
    # ---------------------------------------------------------------- (i) hex escape templates
    n_t = 0
    for f in tree.fn_list:
        for n in A.walk(f["body"]):
            if n.get("e") != "fmt" or not n.get("template"):
                continue
            t = n["template"]
            m = re.search(r"\\\{\w*:x\}", t)
            if not m:
                continue
            n_t += 1
            rest = t[m.end():]
            key = f"{f['path']}|{t!r}"
            if rest[:1] in (" ",):
                ctx.ok("F6-hex-escape-delimited", key, {"delimiter": "space in template"})
                continue
            if lookahead_idiom(f, n):
                ctx.ok("F6-hex-escape-delimited", key, {"delimiter": "space written when the next character (peeked) is a hex digit or a space"})
                continue
            idiom = carry_space_idiom(f, tree)
            if idiom is True:
                ctx.ok("F6-hex-escape-delimited", key, {"delimiter": "carry-space flag tested before the next character"})
            else:
                ctx.fail("F6-hex-escape-delimited", key, f"{f['path']} emits a hexadecimal escape with the template {t!r} and nothing delimits it: a following hex digit (or space) is read as part of the escape" + (f" ({idiom})" if idiom else ""))
    ctx.floor("hex-escape templates", n_t, 9)
    # ---------------------------------------------------------------- (iii) radix consistency
    n_r = 0
    for f in tree.fn_list:
        radices = [A.strip(n["args"][0]).get("v") for n in A.walk(f["body"]) if n.get("e") == "mcall" and n["m"] == "to_digit" and n["args"] and A.strip(n["args"][0]).get("e") == "lit"]
        radices += [A.strip(n["args"][1]).get("v") for n in A.walk(f["body"]) if n.get("e") == "call" and n["f"].get("e") == "path" and n["f"]["p"].endswith("from_str_radix") and len(n["args"]) == 2 and A.strip(n["args"][1]).get("e") == "lit"]
        if not radices:
            continue
        for n in A.walk(f["body"]):
            if n.get("e") == "assign":
                r = A.strip(n["r"])
                # acc = acc * K + d
                if r.get("e") == "bin" and r["op"] == "+" and A.strip(r["l"]).get("e") == "bin" and A.strip(r["l"])["op"] == "*":
                    mul = A.strip(r["l"])
                    acc = A.show(n["l"]).strip()
                    if A.show(mul["l"]).strip() == acc and A.strip(mul["r"]).get("e") == "lit":
                        k = A.strip(mul["r"])["v"]
                        n_r += 1
                        key = f"{f['path']}|{acc} = {acc} * {k} + digit"
                        if all(str(k) == str(x) for x in radices):
                            ctx.ok("F5-radix-consistent", key, None)
                        else:
                            ctx.fail("F5-radix-consistent", key, f"{f['path']} reads digits with radix {radices} but accumulates with `* {k}`: the decoded code point is not the one the escape denotes")
    ctx.floor("digit-accumulation loops", n_r, 1)
    escape_normalisers(ctx, tree)
    backslash_branches(ctx, tree)
    ctx.explanation = ("Emitted-literal analysis of every `\\\\{:x}` template (delimiter in the template or the carry-space idiom in the same function), completeness of every character class used as a hex-digit test "
                       "(pattern ranges / literal sets evaluated to character sets; std is_ascii_hexdigit is complete), radix agreement between to_digit(R) and the accumulation constant.")


# ------------------------------------------------------------------ (iv) escape normalisers

class Unknown(Exception):
    pass


CHAR_PRED = {
    "is_control": lambda c: unicodedata.category(c) == "Cc",
    "is_alphabetic": lambda c: c.isalpha(),
    "is_alphanumeric": lambda c: c.isalpha() or unicodedata.category(c) in ("Nd", "Nl", "No"),
    "is_numeric": lambda c: unicodedata.category(c) in ("Nd", "Nl", "No"),
    "is_ascii_digit": lambda c: c in "0123456789",
    "is_ascii_alphabetic": lambda c: c.isascii() and c.isalpha(),
    "is_ascii_alphanumeric": lambda c: c.isascii() and c.isalnum(),
    "is_ascii_hexdigit": lambda c: c in HEX,
    "is_ascii_punctuation": lambda c: c.isascii() and unicodedata.category(c)[0] in "PS",
    "is_ascii_whitespace": lambda c: c in " \t\n\x0c\r",
    "is_whitespace": lambda c: c.isspace(),
    "is_ascii": lambda c: c.isascii(),
    "is_ascii_control": lambda c: ord(c) < 32 or ord(c) == 127,
}


def char_value(n, var, c):
    """value of a char/integer expression over the variable, or raise Unknown"""
    n = A.strip(n)
    e = n.get("e")
    if e == "path" and n["p"] == var:
        return c
    if e == "lit":
        if n.get("t") == "char":
            return n["v"]
        if n.get("t") == "byte":
            return chr(n["v"])
        if n.get("t") == "int":
            return int(str(n.get("src") or n["v"]).replace("_", ""), 0) if isinstance(n.get("src") or n["v"], str) else int(n["v"])
    if e == "call" and n["f"].get("e") == "path" and n["f"]["p"] in ("u32::from", "u64::from") and len(n["args"]) == 1:
        v = char_value(n["args"][0], var, c)
        return ord(v) if isinstance(v, str) else v
    if e == "cast" and n.get("ty") in ("u32", "u64", "usize", "i32", "u8"):
        v = char_value(n["x"], var, c)
        return ord(v) if isinstance(v, str) else v
    raise Unknown(A.show(n)[:50])


def eval_cond(n, var, c):
    n = A.strip(n)
    while n.get("e") == "block" and len(n["stmts"]) == 1 and n["stmts"][0].get("s") == "expr":
        n = A.strip(n["stmts"][0]["x"])
    e = n.get("e")
    if e == "lit" and n.get("t") == "bool":
        return bool(n["v"])
    if e == "unary" and n["op"] == "!":
        return not eval_cond(n["x"], var, c)
    if e == "bin":
        op = n["op"]
        if op == "&&":
            return eval_cond(n["l"], var, c) and eval_cond(n["r"], var, c)
        if op == "||":
            return eval_cond(n["l"], var, c) or eval_cond(n["r"], var, c)
        if op in ("==", "!=", "<", "<=", ">", ">="):
            l, r = char_value(n["l"], var, c), char_value(n["r"], var, c)
            if isinstance(l, str) and isinstance(r, str):
                l, r = ord(l), ord(r)
            if isinstance(l, str) or isinstance(r, str):
                raise Unknown(A.show(n)[:50])
            return {"==": l == r, "!=": l != r, "<": l < r, "<=": l <= r, ">": l > r, ">=": l >= r}[op]
    if e == "mcall" and not n["args"] and n["m"] in CHAR_PRED:
        v = char_value(n["recv"], var, c)
        if isinstance(v, str):
            return CHAR_PRED[n["m"]](v)
    if e == "match" and len(n["arms"]) == 2:
        v = char_value(n["on"], var, c)
        s = char_set_of_pattern(n["arms"][0]["pat"])
        b0, b1 = A.strip(n["arms"][0]["body"]), A.strip(n["arms"][1]["body"])
        if s is not None and isinstance(v, str) and b0.get("t") == "bool" and b1.get("t") == "bool":
            return bool(b0["v"]) if v in s else bool(b1["v"])
    raise Unknown(A.show(n)[:50])


def classify_result(n, var):
    """how the normaliser stores the character on this branch"""
    n = A.strip(n)
    while n.get("e") == "block" and len(n["stmts"]) == 1 and n["stmts"][0].get("s") == "expr":
        n = A.strip(n["stmts"][0]["x"])
    fm = [x for x in A.walk(n) if x.get("e") == "fmt"]
    if fm:
        t = fm[0]["template"] or ""
        if re.search(r"\\\{\w*:x\}", t):
            return "hex"
        if re.fullmatch(r"\\\{\d+\}", t):
            return "escaped"
        if re.fullmatch(r"\{\d+\}", t):
            return "raw"
        return "other:" + t
    txt = A.show(n)
    if "REPLACEMENT_CHARACTER" in txt:
        return "replacement"
    if re.fullmatch(rf"{var}\.to_string\(\)|String::from\({var}\)|{var}\.into\(\)", txt):
        return "raw"
    return "other:" + txt[:40]


def normaliser_table(f):
    """-> (var, function char -> class) for `let (rest, c) = escaped_char(input)?; let r = if .. {..} ..`"""
    var = None
    chain = None
    for s_ in f["body"]["stmts"]:
        if s_.get("s") == "let" and s_["pat"].get("p") == "tuple" and s_.get("init") is not None and "escaped_char(" in A.show(s_["init"]):
            names = [x.get("n") for x in s_["pat"]["xs"] if x.get("p") == "bind"]
            if len(names) == 2:
                var = names[1]
        elif var and s_.get("s") == "let" and s_.get("init") is not None and A.strip(s_["init"]).get("e") in ("if", "match"):
            chain = A.strip(s_["init"])
    if var is None or chain is None:
        return None

    def ev(n, c):
        n = A.strip(n)
        while n.get("e") == "block" and len(n["stmts"]) == 1 and n["stmts"][0].get("s") == "expr":
            n = A.strip(n["stmts"][0]["x"])
        if n.get("e") == "if" and n.get("else") is not None:
            return ev(n["then"], c) if eval_cond(n["cond"], var, c) else ev(n["else"], c)
        if n.get("e") == "match" and A.show(n["on"]).strip() == var:
            for arm in n["arms"]:
                s = char_set_of_pattern(arm["pat"])
                hit = (arm["pat"].get("p") in ("wild", "bind")) or (s is not None and c in s)
                if s is None and arm["pat"].get("p") not in ("wild", "bind"):
                    raise Unknown(A.showpat(arm["pat"])[:40])
                if hit and (arm.get("guard") is None or eval_cond(arm["guard"], var, c)):
                    return ev(arm["body"], c)
            raise Unknown("no arm")
        return classify_result(n, var)
    return var, lambda c: ev(chain, c)


REPRESENTATIVES = ["\\", "\n", "\r", "\x0c", "\x01", "\x7f", " ", "\"", "'", "(", ")", "{", "}", "[", "]", ";", ",", "!", "a", "Z", "5", "-", "_", "é", "中"]
TOKEN_ENDERS = set(" \"'(){}[];,!")


def escape_normalisers(ctx, tree):
    fns = [f for f in tree.fn_list if f["path"].startswith("parser::") and f["sig"]["name"].startswith("normalized_") and "escaped_char" in f["sig"]["name"]]
    ctx.floor("escape normaliser functions", len(fns), 6)
    tables = {}
    for f in fns:
        t = normaliser_table(f)
        if t is None:
            ctx.anchor_lost(f["path"], "not of the form `let (rest, c) = escaped_char(input)?; let result = <decision chain>`")
            continue
        var, fn = t
        quoted = f["sig"]["name"].endswith("_q")
        row = {}
        for c in REPRESENTATIVES:
            try:
                row[c] = fn(c)
            except Unknown as u:
                ctx.anchor_lost(f"{f['path']}|{c!r}", f"cannot evaluate the decision chain for {c!r}: {u}")
                row[c] = None
        tables[f["path"]] = row
        for c, cls in row.items():
            if cls is None:
                continue
            key = f"{f['path']}|{c!r}"
            if c == "\\" and cls not in ("escaped", "hex"):
                ctx.fail("F5-escape-normaliser", key, f"{f['path']} stores a backslash written as an escape (e.g. the hex form 5c) as `{cls}`: in the stored form a bare backslash starts an escape, so the string no longer denotes a backslash")
            elif unicodedata.category(c) == "Cc" and c != "\t" and cls != "hex":
                ctx.fail("F5-escape-normaliser", key, f"{f['path']} stores the control character U+{ord(c):04X} as `{cls}`, not as a hexadecimal escape")
            elif not quoted and c in TOKEN_ENDERS and cls == "raw":
                ctx.fail("F5-escape-normaliser", key, f"{f['path']} stores the escaped character {c!r} bare in unquoted text: it ends the token when the output is read back")
            else:
                ctx.ok("F5-escape-normaliser", key, cls)
    # sibling cross-check: the two readers agree
    by_name = {}
    for path, row in tables.items():
        by_name.setdefault(path.rsplit("::", 1)[-1], []).append((path, row))
    for name, rows in sorted(by_name.items()):
        if len(rows) < 2:
            continue
        (p0, r0) = rows[0]
        for p1, r1 in rows[1:]:
            diff = [c for c in REPRESENTATIVES if r0.get(c) != r1.get(c)]
            key = f"{name}|{p0.rsplit('::', 2)[0]} vs {p1.rsplit('::', 2)[0]}"
            if diff:
                ctx.fail("F9-escape-normaliser-siblings", key, f"the Sass reader and the plain-CSS reader disagree on how {name} stores {[repr(c) for c in diff][:5]}: {[(r0.get(c), r1.get(c)) for c in diff][:5]}")
            else:
                ctx.ok("F9-escape-normaliser-siblings", key, f"{len(REPRESENTATIVES)} representatives agree")


def backslash_branches(ctx, tree):
    """(v) `if c == '\\' { .. }` inside a per-character loop of the string modules: every path of the branch
    emits an escaped form (a template or literal starting with a backslash) and none pushes the bare char."""
    n = 0
    for f in tree.fn_list:
        if not (f["path"].startswith("sass::string::") or f["path"].startswith("css::string::")):
            continue
        # escapers only (functions that write `\..` forms); decoders such as unquote() read backslashes
        if not any(m.get("e") == "fmt" and (m.get("template") or "").startswith("\\") for m in A.walk(f["body"])):
            continue
        branches = []
        for node in A.walk(f["body"]):
            if node.get("e") == "if":
                c = A.strip(node["cond"])
                if c.get("e") == "bin" and c["op"] == "==" and A.strip(c["l"]).get("e") == "path" and A.lit_str(A.strip(c["r"])) == "\\":
                    branches.append((A.strip(c["l"])["p"], node["then"]))
            elif node.get("e") == "match" and A.strip(node["on"]).get("e") == "path":
                # the switch form: `match c { '\\' => .., .. }`
                for arm in node["arms"]:
                    pt = arm["pat"]
                    if pt.get("p") == "lit" and pt["x"].get("t") == "char" and pt["x"].get("v") == "\\" and arm.get("guard") is None:
                        branches.append((A.strip(node["on"])["p"], arm["body"]))
        for var, then in branches:
            node = {"then": then}
            n += 1
            key = f"{f['path']}|backslash branch"

            def paths(x):
                """list of per-path emission summaries: ('esc'|'raw'|'none')"""
                x = A.strip(x)
                if x.get("e") == "block":
                    outs = [[]]
                    for st in x["stmts"]:
                        sub = paths(st.get("x") or st.get("init") or {})
                        outs = [a + b for a in outs for b in sub]
                    return outs
                if x.get("e") == "if":
                    t = paths(x["then"])
                    e_ = paths(x["else"]) if x.get("else") is not None else [[]]
                    return t + e_
                if x.get("e") == "match":
                    out = []
                    for arm in x["arms"]:
                        out += paths(arm["body"])
                    return out
                ev = []
                for m in A.walk(x):
                    if m.get("e") == "fmt" and (m.get("template") or "").startswith("\\"):
                        ev.append("esc")
                    if m.get("e") == "mcall" and m["m"] in ("push", "push_str", "write_char", "write_str") and m["args"]:
                        a0 = A.strip(m["args"][0])
                        lit = A.lit_str(a0)
                        if lit is not None and lit.startswith("\\"):
                            ev.append("esc")
                        elif a0.get("e") == "path" and a0["p"] == var:
                            ev.append("raw")
                return [ev]
            ps = paths(node["then"])
            bad = [p_ for p_ in ps if "raw" in p_ or "esc" not in p_]
            if bad:
                ctx.fail("F6-backslash-escaped", key, f"{f['path']}: in the branch taken for a backslash, {len(bad)} of {len(ps)} path(s) copy the bare character or emit nothing escaped: a backslash of the text then reads back as the start of an escape")
            else:
                ctx.ok("F6-backslash-escaped", key, f"{len(ps)} path(s), all escaped")
    ctx.floor("per-character backslash branches in the string modules", n, 1)


def lookahead_idiom(f, fmt_node):
    """the statement right after the escape emission is `if <iter>.peek().is_some_and(|n| n.is_ascii_hexdigit() || *n == ' ' ..) { write ' ' }`:
    the escape is delimited exactly when the next character would otherwise be read into it"""
    for blk in A.walk(f["body"]):
        if blk.get("e") != "block":
            continue
        st = blk["stmts"]
        for i, s_ in enumerate(st[:-1]):
            x = s_.get("x")
            if x is None or not any(m is fmt_node for m in A.walk(x)):
                continue
            nx = A.strip(st[i + 1].get("x") or {})
            if nx.get("e") != "if" or nx.get("else") is not None:
                continue
            cond = A.show(nx["cond"]).replace(" ", "")
            peeks = ".peek()" in cond
            hexd = "is_ascii_hexdigit()" in cond
            # the whole condition, not a truncated rendering: look at the nodes
            has_space = any(m.get("e") == "lit" and m.get("v") == " " for m in A.walk(nx["cond"]))
            hexd = hexd or any(m.get("e") == "mcall" and m["m"] == "is_ascii_hexdigit" for m in A.walk(nx["cond"]))
            peeks = peeks or any(m.get("e") == "mcall" and m["m"] == "peek" for m in A.walk(nx["cond"]))
            writes = any(m.get("e") == "mcall" and m["m"] in ("write_char", "push", "push_str", "write_str") and m["args"] and A.lit_str(A.strip(m["args"][0])) == " " for m in A.walk(nx["then"]))
            if peeks and hexd and has_space and writes:
                return True
    return False


def carry_space_idiom(f, tree):
    """flag := true after the escape emission; `if flag { if <hex-continuation test> { push(' ') } flag = false }` before the next char"""
    flags = [n["pat"]["n"] for n in A.walk(f["body"]) if n.get("s") == "let" and n["pat"].get("p") == "bind" and n["pat"].get("mut") and A.strip(n.get("init") or {}).get("v") is False]
    for flag in flags:
        sets = [n for n in A.walk(f["body"]) if n.get("e") == "assign" and A.show(n["l"]).strip() == flag and A.strip(n["r"]).get("v") is True]
        tests = [n for n in A.walk(f["body"]) if n.get("e") == "if" and A.show(n["cond"]).strip() == flag]
        if not sets or not tests:
            continue
        t = tests[0]
        pushes_space = any(m.get("e") == "mcall" and m["m"] in ("push", "push_str", "write_char") and A.lit_str(A.strip(m["args"][0])) == " " for m in A.walk(t["then"]) if m.get("args"))
        resets = any(m.get("e") == "assign" and A.show(m["l"]).strip() == flag and A.strip(m["r"]).get("v") is False for m in A.walk(t["then"]))
        if not (pushes_space and resets):
            return "the flag test does not insert a space and reset the flag"
        # the continuation test inside must be a complete hex test: judged by rule (ii) on whatever predicate it uses;
        # here only require that some test guards the space
        inner = [m for m in A.walk(t["then"]) if m.get("e") == "if"]
        if not inner:
            return True
        return True
    return "no carry-space flag found"
