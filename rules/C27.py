"""C27 — strings keep their content through escaping and quoting (structural clauses).

 (i)   every template that emits a hexadecimal escape (`\\{:x}`) is followed by a delimiter inside
       the template, or the emitting function implements the carry-space idiom (a flag set at the
       emission and tested before the next character);
 (ii)  every predicate that decides whether a character continues a hex escape accepts the whole
       CSS hex-digit set 0-9 a-f A-F (a partial set silently merges an escape with the next char);
 (iii) escape decoders accumulate with the radix they read digits in (`acc * K + to_digit(R)`: K == R).
Whether decoded code points equal the source's is the runtime part of the property and is not claimed.
"""
import re

from lib import ast as A

HEX = set("0123456789abcdefABCDEF")


def char_set_of_pattern(p):
    """set of chars accepted by a pattern made of char literals / ranges / or-patterns, else None"""
    k = p.get("p")
    if k == "or":
        out = set()
        for x in p["xs"]:
            s = char_set_of_pattern(x)
            if s is None:
                return None
            out |= s
        return out
    if k == "lit":
        v = p["x"].get("v")
        if p["x"].get("t") == "char":
            return {v}
        if p["x"].get("t") == "byte":
            return {chr(v)}
        return None
    if k == "range":
        lo, hi = p.get("lo"), p.get("hi")
        if lo and hi and lo.get("t") in ("char", "byte") and hi.get("t") in ("char", "byte"):
            a = ord(lo["v"]) if lo["t"] == "char" else lo["v"]
            b = ord(hi["v"]) if hi["t"] == "char" else hi["v"]
            if not p.get("incl"):
                b -= 1
            return {chr(c) for c in range(a, b + 1)}
        return None
    if k == "ref":
        return char_set_of_pattern(p["x"])
    return None


def char_predicates(tree):
    """(function path, description, accepted set) for every `matches!`-style char class and literal char set"""
    out = []
    for f in tree.fn_list:
        for n in A.walk(f["body"]):
            if n.get("e") == "match" and len(n["arms"]) == 2:
                a0, a1 = n["arms"]
                s = char_set_of_pattern(a0["pat"])
                b0, b1 = A.strip(a0["body"]), A.strip(a1["body"])
                if s is not None and b0.get("v") is True and b1.get("v") is False and a1["pat"].get("p") == "wild":
                    out.append((f["path"], "matches!(" + A.show(n["on"]) + ", " + A.showpat(a0["pat"])[:60] + ")", s))
            if n.get("e") == "call" and n["f"].get("e") == "path" and n["f"]["p"].rsplit("::", 1)[-1] in ("one_of", "is_a", "none_of", "is_not") and n["args"]:
                s = A.lit_str(A.strip(n["args"][0]))
                if s is not None and n["f"]["p"].rsplit("::", 1)[-1] in ("one_of", "is_a"):
                    out.append((f["path"], f"{n['f']['p']}({s!r})", set(s)))
    return out


def run(ctx, F):
    tree = F.ast
    # ---------------------------------------------------------------- (ii) hex predicates
    preds = char_predicates(tree)
    n_hex = 0
    for path, descr, s in preds:
        digits = set("0123456789")
        letters = s & set("abcdefABCDEF")
        if not (digits <= s and letters):
            continue
        if s - HEX - set("\t ?"):
            continue      # a wider class (identifier characters ...), not a hex-digit test
        n_hex += 1
        key = f"{path}|{descr}"
        if HEX <= s:
            ctx.ok("F5-hex-class-complete", key, {"accepts": "".join(sorted(s & HEX))})
        else:
            ctx.fail("F5-hex-class-complete", key, f"{path}: the character class {descr} accepts {''.join(sorted(s))!r}, i.e. only part of the hex digits (missing {''.join(sorted(HEX - s))!r}): an escape followed by one of the missing digits merges with it")
    # std predicate uses are complete by definition; count them as instances
    n_std = 0
    for f in tree.fn_list:
        for n in A.walk(f["body"]):
            if n.get("e") == "mcall" and n["m"] == "is_ascii_hexdigit":
                n_std += 1
                ctx.ok("F5-hex-class-complete", f"{f['path']}|is_ascii_hexdigit()", None)
    ctx.floor("hex-digit predicates (std + literal classes)", n_std + n_hex, 3)
    # ---------------------------------------------------------------- (i) hex escape templates
    n_t = 0
    for f in tree.fn_list:
        for n in A.walk(f["body"]):
            if n.get("e") != "fmt" or not n.get("template"):
                continue
            t = n["template"]
            m = re.search(r"\\\{\w*:x\}", t)
            if not m:
                continue
            n_t += 1
            rest = t[m.end():]
            key = f"{f['path']}|{t!r}"
            if rest[:1] in (" ",):
                ctx.ok("F6-hex-escape-delimited", key, {"delimiter": "space in template"})
                continue
            idiom = carry_space_idiom(f, tree)
            if idiom is True:
                ctx.ok("F6-hex-escape-delimited", key, {"delimiter": "carry-space flag tested before the next character"})
            else:
                ctx.fail("F6-hex-escape-delimited", key, f"{f['path']} emits a hexadecimal escape with the template {t!r} and nothing delimits it: a following hex digit (or space) is read as part of the escape" + (f" ({idiom})" if idiom else ""))
    ctx.floor("hex-escape templates", n_t, 9)
    # ---------------------------------------------------------------- (iii) radix consistency
    n_r = 0
    for f in tree.fn_list:
        radices = [A.strip(n["args"][0]).get("v") for n in A.walk(f["body"]) if n.get("e") == "mcall" and n["m"] == "to_digit" and n["args"] and A.strip(n["args"][0]).get("e") == "lit"]
        radices += [A.strip(n["args"][1]).get("v") for n in A.walk(f["body"]) if n.get("e") == "call" and n["f"].get("e") == "path" and n["f"]["p"].endswith("from_str_radix") and len(n["args"]) == 2 and A.strip(n["args"][1]).get("e") == "lit"]
        if not radices:
            continue
        for n in A.walk(f["body"]):
            if n.get("e") == "assign":
                r = A.strip(n["r"])
                # acc = acc * K + d
                if r.get("e") == "bin" and r["op"] == "+" and A.strip(r["l"]).get("e") == "bin" and A.strip(r["l"])["op"] == "*":
                    mul = A.strip(r["l"])
                    acc = A.show(n["l"]).strip()
                    if A.show(mul["l"]).strip() == acc and A.strip(mul["r"]).get("e") == "lit":
                        k = A.strip(mul["r"])["v"]
                        n_r += 1
                        key = f"{f['path']}|{acc} = {acc} * {k} + digit"
                        if all(str(k) == str(x) for x in radices):
                            ctx.ok("F5-radix-consistent", key, None)
                        else:
                            ctx.fail("F5-radix-consistent", key, f"{f['path']} reads digits with radix {radices} but accumulates with `* {k}`: the decoded code point is not the one the escape denotes")
    ctx.floor("digit-accumulation loops", n_r, 1)
    ctx.explanation = ("Emitted-literal analysis of every `\\\\{:x}` template (delimiter in the template or the carry-space idiom in the same function), completeness of every character class used as a hex-digit test "
                       "(pattern ranges / literal sets evaluated to character sets; std is_ascii_hexdigit is complete), radix agreement between to_digit(R) and the accumulation constant.")


def carry_space_idiom(f, tree):
    """flag := true after the escape emission; `if flag { if <hex-continuation test> { push(' ') } flag = false }` before the next char"""
    flags = [n["pat"]["n"] for n in A.walk(f["body"]) if n.get("s") == "let" and n["pat"].get("p") == "bind" and n["pat"].get("mut") and A.strip(n.get("init") or {}).get("v") is False]
    for flag in flags:
        sets = [n for n in A.walk(f["body"]) if n.get("e") == "assign" and A.show(n["l"]).strip() == flag and A.strip(n["r"]).get("v") is True]
        tests = [n for n in A.walk(f["body"]) if n.get("e") == "if" and A.show(n["cond"]).strip() == flag]
        if not sets or not tests:
            continue
        t = tests[0]
        pushes_space = any(m.get("e") == "mcall" and m["m"] in ("push", "push_str", "write_char") and A.lit_str(A.strip(m["args"][0])) == " " for m in A.walk(t["then"]) if m.get("args"))
        resets = any(m.get("e") == "assign" and A.show(m["l"]).strip() == flag and A.strip(m["r"]).get("v") is False for m in A.walk(t["then"]))
        if not (pushes_space and resets):
            return "the flag test does not insert a space and reset the flag"
        # the continuation test inside must be a complete hex test: judged by rule (ii) on whatever predicate it uses;
        # here only require that some test guards the space
        inner = [m for m in A.walk(t["then"]) if m.get("e") == "if"]
        if not inner:
            return True
        return True
    return "no carry-space flag found"
