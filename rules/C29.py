"""C29 (partial) — the math functions reach the kernel their name says, and keep units where the statement
says so.

That the value returned is the mathematically specified one is numerical and NOT decided.  Decided, on the
MIR of the closures the registry binds to `sass:math` (crate-local callees in the math module followed):

 (i)   kernel table: sqrt / exp / sin / cos / tan / asin / acos / atan / atan2 / pow / log each call the
       f64 operation of the same name (powf for pow — an integer-power shortcut through powi is a
       different function of the exponent —, a log for log) and none of the OTHER named kernels
       (so `math.sin` cannot compute a cosine); abs / ceil / floor / round call the Number method of the
       same name;
 (ii)  abs / ceil / floor / round keep units: the Numeric they return is built with the unit of their
       argument;
 (iii) inverse trigonometric functions answer in degrees (`to_degrees` and `Unit::Deg`);
 (iv)  argument discipline: every argument of exp / log / pow / sqrt / asin / acos / atan / percentage is
       fetched through a converter that reaches `check::unitless`, whose Ok exit is dominated by the
       `is_no_unit` test; every argument of sin / cos / tan through one that reaches
       `Numeric::as_unit_def(.., Unit::Rad)` (so a length is an error, an angle is converted);
 (v)   max and min are the same `find_extreme` with `Ordering::Greater` resp. `Ordering::Less`, and
       find_extreme keeps `found` when `cmp2(found, v) == pref` and takes `v` otherwise;
 (vi)  percentage is `value * 100` with `Unit::Percent`;
 (vii) clamp: `$number` is replaced by `$max` exactly on the true edge of `number >= max` (or an
       equivalent spelling) and by `$min` on the true edge of `number <= min`; both bounds and the number
       go through the same compatibility converter, which refuses a unit/unitless mix and incompatible
       units;
 (viii) the strategies of the global `round()`: `Strategy::apply` maps nearest -> round, up -> ceil,
       down -> floor, to-zero -> trunc; the names read (`TryFrom<CssString>`) and the names written back
       into an unevaluated `round(..)` call (`From<Strategy> for Value`) are the same table.
"""
import json
import re

from lib import mir, sym

KERNEL = {"sqrt": "sqrt", "exp": "exp", "sin": "sin", "cos": "cos", "tan": "tan", "asin": "asin", "acos": "acos", "atan": "atan", "atan2": "atan2", "pow": "powf", "log": "log"}
ALL_KERNELS = {"sqrt", "exp", "sin", "cos", "tan", "asin", "acos", "atan", "atan2", "powf", "powi", "ln", "log", "log2", "log10", "sinh", "cosh", "tanh", "cbrt", "exp2"}
ROUNDERS = ("abs", "ceil", "floor", "round")


def family(prog, root, depth=2):
    out = [b for d, b in prog.bodies.items() if d == root or d.startswith(root + "::")]
    seen = {b.def_ for b in out}
    frontier = list(out)
    for _ in range(depth):
        nxt = []
        for b in frontier:
            for _, t in b.calls():
                d = mir.callee_name(t)
                if d and d in prog.bodies and d not in seen and d.startswith("sass::functions::math"):
                    seen.add(d)
                    nxt.append(prog.bodies[d])
                    for d2, b2 in prog.bodies.items():
                        if d2.startswith(d + "::{closure") and d2 not in seen:
                            seen.add(d2)
                            nxt.append(b2)
        out += nxt
        frontier = nxt
    return out


def run(ctx, F):
    ctx.explanation = ("C29, structural clauses only (the numerical results are not decided): f64 kernel table of the registered sass:math functions, unit provenance of abs/ceil/floor/round, "
                       "degree conversion of the inverse trigonometric functions (MIR call inventories + symbolic provenance)")
    prog = F.lib
    from rules.C34 import registry
    S = sym.Sym(prog, inline_depth=0)
    reg = registry(prog, S)
    impl = {}
    for (kind, mod, name), impls in reg.items():
        if mod == "math" and kind == "module":
            im = [i for i in impls if i]
            if len(im) == 1:
                impl[name] = im[0]
    ctx.floor("C29 registered sass:math implementations", len(impl), 20)
    for name, want in sorted(KERNEL.items()):
        if name not in impl:
            ctx.anchor_lost(f"sass:math.{name}", "no registered implementation")
            continue
        fam = family(prog, impl[name])
        f64s = sorted({mir.short(mir.callee_name(t) or "").split("::")[-1] for b in fam for _, t in b.calls() if mir.short(mir.callee_name(t) or "").startswith("<f64>::")})
        others = [k for k in f64s if k in ALL_KERNELS and k != want and not (name == "log" and k in ("ln", "log", "log2", "log10"))]
        key = f"sass:math.{name} -> f64::{want}"
        has = want in f64s or (name == "log" and any(k in f64s for k in ("ln", "log")))
        if has and not others:
            ctx.ok("F5-math-kernel", key, None)
        else:
            ctx.fail("F5-math-kernel", key, f"math.{name} calls f64::{f64s}: expected f64::{want}" + (f" and none of {others}" if others else ""), where=prog.bodies[impl[name]].where())
    for name in ROUNDERS:
        if name not in impl:
            ctx.anchor_lost(f"sass:math.{name}", "no registered implementation")
            continue
        fam = family(prog, impl[name])
        calls = [(b, bi, t) for b in fam for bi, t in b.calls()]
        meth = [mir.short(mir.callee_name(t) or "") for b, bi, t in calls]
        key = f"sass:math.{name} -> Number::{name}, unit kept"
        news = [(b, bi, t) for b, bi, t in calls if (mir.callee_name(t) or "").endswith("value::numeric::Numeric>::new")]
        unit_ok = False
        for b, bi, t in news:
            if len(t["args"]) == 2:
                u = sym.show(sym.strip_transparent(S.operand(b, t["args"][1])))
                v = sym.show(sym.strip_transparent(S.operand(b, t["args"][0])))
                # the unit is the `.unit` of the same argument whose `.value` is rounded
                if u.endswith(".unit") and f"Number>::{name}" in v and u[:-len(".unit")] in v:
                    unit_ok = True
        if f"<Number>::{name}" in meth and unit_ok and not any(f"<Number>::{o}" in meth for o in ROUNDERS if o != name):
            ctx.ok("F4-math-units", key, None)
        else:
            ctx.fail("F4-math-units", key, f"math.{name}: Number methods called {[m for m in meth if m.startswith('<Number>::')]}, result carries the argument's unit: {unit_ok}", where=prog.bodies[impl[name]].where())
    for name in ("asin", "acos", "atan", "atan2"):
        if name in impl:
            fam = family(prog, impl[name])
            f64s = {mir.short(mir.callee_name(t) or "") for b in fam for _, t in b.calls()}
            key = f"sass:math.{name} answers in degrees"
            (ctx.ok if "<f64>::to_degrees" in f64s else ctx.fail)("F5-math-angle", key, *([None] if "<f64>::to_degrees" in f64s else [f"math.{name} does not convert its result with to_degrees", prog.bodies[impl[name]].where()]))

    # ---------------------------------------------------------------- (iv) argument discipline
    def reach(root, depth=4):
        seen, fr = {root}, [root]
        for _ in range(depth):
            nx = []
            for d in fr:
                b = prog.bodies.get(d)
                if b is None:
                    continue
                for _, t in b.calls():
                    c = mir.callee_name(t)
                    if c and c not in seen and c.startswith("sass::functions"):
                        seen.add(c)
                        nx.append(c)
                for d2 in prog.bodies:
                    if d2.startswith(d + "::{closure") and d2 not in seen:
                        seen.add(d2)
                        nx.append(d2)
            fr = nx
        return seen

    def converter_kind(term):
        """'unitless' / 'radians' / None for the function value handed to get_map"""
        if term[0] not in ("fn", "closure"):
            return None
        rs = reach(term[1])
        calls = [(prog.bodies[d], t) for d in rs if d in prog.bodies for _, t in prog.bodies[d].calls()]
        names = {mir.callee_name(t) or "" for _, t in calls}
        if any(n.endswith("functions::check::unitless") for n in names) or term[1].endswith("functions::check::unitless"):
            return "unitless"
        for b, t in calls:
            if (mir.callee_name(t) or "").endswith("Numeric>::as_unit_def") and "Rad" in repr(S.operand(b, t["args"][-1])):
                return "radians"
        return None
    WANT = {"exp": "unitless", "log": "unitless", "pow": "unitless", "sqrt": "unitless", "asin": "unitless", "acos": "unitless", "atan": "unitless", "percentage": "unitless",
            "sin": "radians", "cos": "radians", "tan": "radians"}
    n_args = 0
    for name, want in sorted(WANT.items()):
        if name not in impl:
            ctx.anchor_lost(f"sass:math.{name}", "no registered implementation")
            continue
        for b in family(prog, impl[name], depth=0):
            for bi, t in b.calls():
                cn = mir.callee_name(t) or ""
                m = re.search(r"ResolvedArgs>::(get_map|get_opt_map|get_opt|get|get_va)$", cn)
                if not m:
                    continue
                argname = re.search(r"from_static', \(\('const', '(\w+)'", repr(S.operand(b, t["args"][1])))
                key = f"sass:math.{name}(${argname.group(1) if argname else '?'}) via {want}"
                n_args += 1
                got = converter_kind(sym.strip_transparent(S.operand(b, t["args"][2]))) if m.group(1) in ("get_map", "get_opt_map") and len(t["args"]) == 3 else None
                if got == want:
                    ctx.ok("F4-math-argument", key, None)
                else:
                    ctx.fail("F4-math-argument", key, f"math.{name} fetches this argument through `{mir.short(cn)}` with a converter of kind {got}; the statement requires {'unitless input' if want == 'unitless' else 'an angle (converted to radians)'}", where=b.where(bi))
    ctx.floor("C29 converted arguments", n_args, 13)
    cu = prog.find("sass::functions::check::unitless")
    if len(cu) != 1:
        ctx.anchor_lost("check::unitless", f"found {len(cu)}")
    else:
        b = cu[0]
        dom = b.dominators()
        true_edges = []
        for bi, t in b.calls():
            if not (mir.callee_name(t) or "").endswith("Numeric>::is_no_unit") or t.get("target") is None:
                continue
            sw = b.term(t["target"])
            if sw["k"] != "switch" or sw["discr"].get("p", [None])[0] != t["dest"][0]:
                continue
            zero = [tg for val, tg, _ in sw["targets"] if str(val) == "0"]
            other = [tg for val, tg, _ in sw["targets"] if str(val) != "0"] + ([sw["otherwise"]] if sw.get("otherwise") is not None else [])
            if len(zero) == 1 and len(other) == 1 and other[0] != zero[0]:
                true_edges.append(other[0])
        oks = sorted({bi for bi, si, st in b.stmts() if st["k"] == "assign" and st["rv"]["k"] == "agg" and str(st["rv"].get("variant", "")) == "Ok"})
        key = "check::unitless: Ok only after is_no_unit"
        bad = [o for o in oks if not any(te == o or te in dom.get(o, ()) for te in true_edges)]
        if oks and true_edges and not bad:
            ctx.ok("F3-unitless-guard", key, f"Ok constructions: {len(oks)}, each dominated by the true edge of an is_no_unit() test")
        else:
            ctx.fail("F3-unitless-guard", key, f"check::unitless builds Ok in {len(oks)} place(s), {len(bad)} of them not dominated by the true edge of `is_no_unit()` ({len(true_edges)} tests): a number with a unit must be refused", where=b.where(bad[0] if bad else None))
    # ---------------------------------------------------------------- (v) max / min
    for name, want in (("max", "Greater"), ("min", "Less")):
        if name not in impl:
            ctx.anchor_lost(f"sass:math.{name}", "no registered implementation")
            continue
        b = prog.bodies[impl[name]]
        fe = [(bi, t) for bi, t in b.calls() if (mir.callee_name(t) or "").endswith("math::find_extreme")]
        key = f"sass:math.{name} = find_extreme(.., Ordering::{want})"
        if len(fe) == 1 and f"Ordering::{want}" in sym.show(sym.strip_transparent(S.operand(b, fe[0][1]["args"][1]))):
            ctx.ok("F5-extreme-direction", key, None)
        else:
            ctx.fail("F5-extreme-direction", key, f"math.{name} calls find_extreme {len(fe)} time(s) with preference `{sym.show(S.operand(b, fe[0][1]['args'][1]))[:60] if fe else '-'}`", where=b.where())
    fes = prog.find("sass::functions::math::find_extreme")
    if len(fes) != 1:
        ctx.anchor_lost("find_extreme", f"found {len(fes)}")
    else:
        b = fes[0]
        key = "find_extreme keeps the current value when it compares as preferred"
        dom = b.dominators()
        # the ordering comparison of (current, candidate): whatever function computes the Option<Ordering>
        c2 = [(bi, t) for bi, t in b.calls() if re.search(r"Option<std::cmp::Ordering>$", str(t.get("dest_ty", ""))) and len(t["args"]) == 2
              and all("Numeric" in str(x) for x in (t.get("arg_tys") or ["", ""])[:2])]
        c2_names = {mir.callee_name(t) or "" for _, t in c2}
        eqs = []
        for bi, t in b.calls():
            m = re.search(r"PartialEq>?::(eq|ne)$", mir.callee_name(t) or "")
            if m and "Ordering" in str(t["callee"].get("self_ty", "")) + str(t.get("arg_tys", "")) and len(t["args"]) == 2 and t.get("target") is not None:
                terms = [repr(S.operand(b, x)) for x in t["args"]]
                if any(any(n and n in x for n in c2_names) for x in terms) and any("'param', 2" in x or "arg2" in sym.show(S.operand(b, a_)) for x, a_ in zip(terms, t["args"])):
                    eqs.append((bi, t, m.group(1)))
        if len(c2) != 1 or len(eqs) != 1:
            ctx.anchor_lost("find_extreme selection", f"{len(c2)} ordering comparisons of two numbers, {len(eqs)} comparisons of such a result with the preference")
        else:
            def base_local(op):
                """the local the reference argument points into"""
                p_ = op.get("p")
                for bi2, si, st in b.stmts():
                    if st["k"] == "assign" and st["p"] == p_ and st["rv"]["k"] == "ref":
                        return st["rv"]["p"][0]
                return None
            cur, cand = (base_local(x) for x in c2[0][1]["args"])
            bi, t, op = eqs[0]
            sw = b.term(t["target"])
            zero = [tg for val, tg, _ in sw.get("targets", []) if str(val) == "0"]
            if sw["k"] != "switch" or len(zero) != 1 or sw.get("otherwise") is None or cur is None or cand is None:
                ctx.anchor_lost("find_extreme selection", "the comparison with the preference does not feed a two-way branch")
            else:
                t_true, t_false = sw["otherwise"], zero[0]
                keep_edge, take_edge = (t_true, t_false) if op == "eq" else (t_false, t_true)

                def mentions(region_head, local):
                    out = []
                    for bi2, si, st in b.stmts():
                        if (bi2 == region_head or region_head in dom.get(bi2, ())) and st["k"] == "assign":
                            if re.search(r'"p": \[%d, ' % local, json.dumps(st["rv"])):
                                out.append(bi2)
                    return out
                took = mentions(take_edge, cand)
                wrong = mentions(keep_edge, cand)
                if took and not wrong:
                    ctx.ok("F5-extreme-selection", key, f"cmp2(current, candidate) {op} preference: candidate taken only on the {'false' if op == 'eq' else 'true'} edge")
                else:
                    ctx.fail("F5-extreme-selection", key, f"find_extreme: after `cmp2(current, candidate) {'==' if op == 'eq' else '!='} pref` the candidate is taken on the preferred edge: {bool(wrong)}, on the other edge: {bool(took)}; "
                             "the current value must be kept when it already compares as preferred (else max returns the smaller and min the larger argument)", where=b.where(bi))
    # ---------------------------------------------------------------- (vi) percentage
    pc = prog.find("value::numeric::Numeric::percentage")
    if len(pc) != 1:
        ctx.anchor_lost("Numeric::percentage", f"found {len(pc)}")
    else:
        b = pc[0]
        nw = [(bi, t) for bi, t in b.calls() if (mir.callee_name(t) or "").endswith("Numeric>::new")]
        key = "Numeric::percentage = value * 100, Unit::Percent"
        ok = False
        desc = "no Numeric::new call"
        if len(nw) == 1:
            v = sym.show(sym.strip_transparent(S.operand(b, nw[0][1]["args"][0])))
            u = sym.show(sym.strip_transparent(S.operand(b, nw[0][1]["args"][1])))
            desc = f"Numeric::new({v[:80]}, {u[:40]})"
            ok = "Mul" in v and re.search(r"\b100\b", v) is not None and "Percent" in u
        (ctx.ok if ok else ctx.fail)("F4-percentage", key, *([desc] if ok else [f"percentage builds {desc}: expected the value multiplied by 100 with unit %", b.where()]))
    if "percentage" in impl:
        b = prog.bodies[impl["percentage"]]
        uses = any((mir.callee_name(t) or "").endswith("Numeric>::percentage") for _, t in b.calls())
        (ctx.ok if uses else ctx.fail)("F4-percentage", "sass:math.percentage -> Numeric::percentage", *([None] if uses else ["math.percentage does not build its result with Numeric::percentage", b.where()]))

    # ---------------------------------------------------------------- (vii) clamp
    if "clamp" not in impl:
        ctx.anchor_lost("sass:math.clamp", "no registered implementation")
    else:
        b = prog.bodies[impl["clamp"]]
        dom = b.dominators()

        def base_local(op):
            p_ = op.get("p")
            for bi2, si, st in b.stmts():
                if st["k"] == "assign" and st["p"] == p_ and st["rv"]["k"] == "ref":
                    return st["rv"]["p"][0]
            return p_[0] if p_ else None

        def argname(op):
            names = set(re.findall(r"from_static', \(\('const', \"?'(\w+)'", repr(S.operand(b, op))))
            return names
        seen = {}
        for bi, t in b.calls():
            m = re.search(r"PartialOrd>?::(ge|gt|le|lt)$", mir.callee_name(t) or "")
            if not m or len(t["args"]) != 2 or t.get("target") is None:
                continue
            n0, n1 = argname(t["args"][0]), argname(t["args"][1])
            op = m.group(1)
            if "number" in n0 and (n1 & {"min", "max"}) and "number" not in n1:
                num, bound, bname = t["args"][0], t["args"][1], sorted(n1 & {"min", "max"})[0]
            elif "number" in n1 and (n0 & {"min", "max"}) and "number" not in n0:
                num, bound, bname = t["args"][1], t["args"][0], sorted(n0 & {"min", "max"})[0]
                op = {"ge": "le", "gt": "lt", "le": "ge", "lt": "gt"}[op]
            else:
                continue
            sw = b.term(t["target"])
            zero = [tg for val, tg, _ in sw.get("targets", []) if str(val) == "0"]
            key = f"sass:math.clamp|$number against ${bname}"
            if sw["k"] != "switch" or len(zero) != 1 or sw.get("otherwise") is None:
                ctx.anchor_lost(key, "comparison does not feed a two-way branch")
                continue
            t_true, t_false = sw["otherwise"], zero[0]
            ln, lb = base_local(num), base_local(bound)

            def flows(head):
                """does the bound's local flow into the number's local inside the region headed by `head`?"""
                have = {lb}
                hit = False
                for _ in range(4):
                    for bi2, si, st in b.stmts():
                        if (bi2 == head or head in dom.get(bi2, ())) and st["k"] == "assign" and st["rv"]["k"] == "use":
                            src = st["rv"]["ops"][0].get("p")
                            if src and src[0] in have and not src[1]:
                                have.add(st["p"][0])
                                if st["p"][0] == ln and not st["p"][1]:
                                    hit = True
                return hit
            want_ops = ("ge", "gt") if bname == "max" else ("le", "lt")
            seen[bname] = True
            if op in want_ops and flows(t_true) and not flows(t_false):
                ctx.ok("F5-clamp-selection", key, f"number {op} {bname} -> number := {bname}")
            else:
                ctx.fail("F5-clamp-selection", key, f"clamp compares `$number {op} ${bname}` and replaces $number by ${bname} on the true edge: {flows(t_true)}, on the false edge: {flows(t_false)}; expected the replacement exactly when number {'>=' if bname == 'max' else '<='} {bname}", where=b.where(bi))
        for bname in ("max", "min"):
            if bname not in seen:
                ctx.anchor_lost(f"sass:math.clamp|$number against ${bname}", "no ordering comparison of $number with this bound found")
        # the converter of $number and $max refuses mixed and incompatible units
        convs = set()
        for bi, t in b.calls():
            if re.search(r"ResolvedArgs>::get_map$", mir.callee_name(t) or "") and len(t["args"]) == 3:
                c = sym.strip_transparent(S.operand(b, t["args"][2]))
                convs.add(c[1] if c[0] in ("closure", "fn") else None)
        key = "sass:math.clamp|bounds and number share one unit-compatibility converter"
        good = False
        if len(convs) == 1 and None not in convs:
            cb = prog.bodies.get(next(iter(convs)))
            # the converter and the math-module helpers it forwards to
            cbs = [prog.bodies[d] for d in reach(next(iter(convs)), depth=2) if d in prog.bodies and (d == next(iter(convs)) or d.startswith("sass::functions::math"))] if cb else []
            names = [mir.short(mir.callee_name(t) or "") for c_ in cbs for _, t in c_.calls()]
            errs = [1 for c_ in cbs for bi2, si, st in c_.stmts() if st["k"] == "assign" and st["rv"]["k"] == "agg" and str(st["rv"].get("variant", "")) == "Err"]
            good = names.count("<Numeric>::is_no_unit") >= 2 and any(n.endswith("::is_compatible") for n in names) and bool(errs)
        (ctx.ok if good else ctx.fail)("F4-clamp-units", key, *([None] if good else [f"clamp fetches $number / $max through converters {sorted(map(str, convs))}; expected one converter that tests is_no_unit on both sides, is_compatible, and has an error exit", b.where()]))

    # ---------------------------------------------------------------- (viii) round() strategies
    from lib import ast as A
    tree = F.ast
    WANT_K = {"Nearest": "round", "Up": "ceil", "Down": "floor", "ToZero": "trunc"}
    ap = [f for f in tree.fn_list if f["path"].endswith("round::<Strategy>::apply")]
    if len(ap) != 1:
        ctx.anchor_lost("Strategy::apply", f"found {len(ap)}")
    else:
        got = {}
        for n in A.walk(ap[0]["body"]):
            if n.get("e") == "match":
                for arm in n["arms"]:
                    pats = arm["pat"]["xs"] if arm["pat"].get("p") == "or" else [arm["pat"]]
                    ms = [m["m"] for m in A.walk(arm["body"]) if m.get("e") == "mcall" and m["m"] in ("round", "ceil", "floor", "trunc", "abs", "signum")]
                    for p_ in pats:
                        if p_.get("p") == "path":
                            got[p_["v"].rsplit("::", 1)[-1]] = ms
        for k, want in sorted(WANT_K.items()):
            key = f"round() strategy {k} -> Number::{want}"
            if got.get(k) == [want]:
                ctx.ok("F5-round-strategy", key, None)
            else:
                ctx.fail("F5-round-strategy", key, f"Strategy::apply rounds `{k}` with {got.get(k)}; expected exactly `{want}`", where=ap[0]["path"])
    rd = [f for f in tree.fn_list if "round::" in f["path"] and "TryFrom<CssString>" in f["path"] and "Strategy" in f["path"] and f["path"].endswith("::try_from")]
    wr = [f for f in tree.fn_list if "round::" in f["path"] and "From<Strategy>" in f["path"] and f["path"].endswith("::from")]
    if len(rd) != 1 or len(wr) != 1:
        ctx.anchor_lost("Strategy name tables", f"readers {len(rd)}, writers {len(wr)}")
    else:
        read, written = {}, {}
        for n in A.walk(rd[0]["body"]):
            if n.get("e") == "match":
                for arm in n["arms"]:
                    pats = arm["pat"]["xs"] if arm["pat"].get("p") == "or" else [arm["pat"]]
                    names = [p_["x"]["v"] for p_ in pats if p_.get("p") == "lit" and p_["x"].get("t") == "str"]
                    ks = [m["p"].rsplit("::", 1)[-1] for m in A.walk(arm["body"]) if m.get("e") == "path" and m["p"].rsplit("::", 1)[-1] in WANT_K]
                    if names and len(ks) == 1:
                        for nm in names:
                            read[nm] = ks[0]
        for n in A.walk(wr[0]["body"]):
            if n.get("e") == "match":
                for arm in n["arms"]:
                    if arm["pat"].get("p") == "path" and A.lit_str(A.strip(arm["body"])) is not None:
                        written[arm["pat"]["v"].rsplit("::", 1)[-1]] = A.lit_str(A.strip(arm["body"]))
        for k in sorted(WANT_K):
            key = f"round() strategy {k}: name written is a name read"
            w = written.get(k)
            if w is not None and read.get(w) == k:
                ctx.ok("F5-strategy-names", key, w)
            else:
                ctx.fail("F5-strategy-names", key, f"an unevaluated round() is written with strategy `{w}` for {k}, which the reader maps to {read.get(w)}: the emitted call means a different rounding", where=wr[0]["path"])
