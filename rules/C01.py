"""C01 — compilation never panics (F1 may-panic reachability).

Every panic-capable construct of the library MIR (overflow/bounds/division asserts,
calls into the panicking-API table, explicit panics) that is reachable in the
over-approximated call graph from the compile / error-display entry points is
(1) discharged by a sound local rule, (2) matched against the reviewed table,
(3) matched against known_findings.json, or (4) reported.
Stack depth and allocation failure are not decided (runtime quantities).
"""
import json
import re
import os
from collections import Counter

from lib import mir, sym, panics
from lib.keys import Ordinals, fn_key

HERE = os.path.dirname(os.path.abspath(__file__))
TABLE = os.path.join(os.path.dirname(HERE), "tables", "panic_reviewed.json")
THOROUGH_CONFIGS = ["release"]

ENTRY_FNS = ["compile_scss", "compile_scss_path", "compile_value", "Context<AnyLoader>>::transform",
             "<input::sourcefile::SourceFile>::parse", "parser::parse_value_data",
             "<input::fsloader::FsLoader>::for_path", "<input::fsloader::FsLoader>::for_cwd", "Context<input::fsloader::FsLoader>>::for_path",
             "Context<input::fsloader::FsLoader>>::for_cwd", "Context<AnyLoader>>::with_format", "Context<input::fsloader::FsLoader>>::push_path"]
ERROR_TYPES = ["error::Error", "parser::error::ParseError", "error::Invalid", "sass::functions::call_error::CallError",
               "input::loader::LoadError", "css::selectors::error::BadSelector", "variablescope::ScopeError", "css::valueformat", "sass::formal_args::ArgsError"]


def entry_points(prog, ctx):
    roots = []
    for e in ENTRY_FNS:
        c = prog.find(e)
        if len(c) != 1:
            ctx.anchor_lost("entry:" + e, f"entry point {e}: found {len(c)} bodies")
            continue
        roots.append(c[0].def_)
    n_disp = 0
    for b in prog.bodies.values():
        tr = b.raw.get("trait")
        if tr in ("std::fmt::Display", "std::fmt::Debug") and b.raw.get("self_ty"):
            st = b.raw["self_ty"]
            if any(st == e or st.startswith(e + "<") for e in ERROR_TYPES):
                roots.append(b.def_)
                n_disp += 1
    ctx.floor("error Display/Debug entry points", n_disp, 6)
    return roots


def reach(prog, roots, skip_reasons=()):
    cg = prog.callgraph()
    seen = {}
    from collections import deque
    dq = deque()
    for r in roots:
        if r not in seen:
            seen[r] = (None, "root")
            dq.append(r)
    while dq:
        d = dq.popleft()
        for tgt, reasons in cg.get(d, {}).items():
            if tgt in seen:
                continue
            rs = [r for r in reasons if r[0] not in skip_reasons]
            if not rs:
                continue
            seen[tgt] = (d, rs[0][0])
            dq.append(tgt)
    return seen


_OP = re.compile(r"[(\[@]")


def _opname(descr):
    return _OP.split(descr, 1)[0]


_CALLERS = {}


def single_caller(prog, d):
    """the one crate-local function that calls `d` (closures count as their enclosing function), if `d` is
    a private function with exactly one caller"""
    if not _CALLERS:
        for dn, bb in prog.bodies.items():
            for _, t in bb.calls():
                c = mir.callee_name(t)
                if c in prog.bodies and c != dn:
                    _CALLERS.setdefault(c, set()).add(re.sub(r"(::\{closure#\d+\})+$", "", dn))
        _CALLERS["__done__"] = set()
    b = prog.bodies.get(d)
    if b is None or b.raw.get("pub") or "{closure" in d:
        return None
    cs = _CALLERS.get(d, set()) - {d}
    return next(iter(cs)) if len(cs) == 1 else None


def _norm_overflow(key):
    return re.sub(r"\)\.0", ")", key.replace("WithOverflow", ""))


def _folded_key(prog, b, d, descr):
    """Key of a site inside a closure as if it stood in the enclosing function: `::{closure}` dropped from the
    function part, captured operands (`param #1.N`) named by the captured place (`self.from`)."""
    if "{closure" not in d:
        return fn_key(d, prog) + "|" + descr
    ups = b.raw.get("upvars") or []

    def name(m):
        i = int(m.group(1))
        return "param " + ups[i][0].replace("__", ".") if i < len(ups) and ups[i][0] else m.group(0)
    descr = re.sub(r"param #1\.(\d+)\**", name, descr)
    return re.sub(r"(::\{closure\})+", "", fn_key(d, prog)) + "|" + descr


def run(ctx, F):
    prog = F.lib
    S = sym.Sym(prog, inline_depth=2, max_depth=25)
    table = json.load(open(TABLE))
    reviewed = {r["key"]: r["reason"] for r in table["reviewed"]}
    # a reviewed site inside a closure may also be met in the enclosing function after a rewrite (closure
    # replaced by a match arm): rows whose operands do not mention captured variables are also indexed by
    # their key with `::{closure}` dropped, when that is unambiguous
    reviewed_folded = {}
    for k in reviewed:
        fnp, _, dsc = k.partition("|")
        if "{closure}" in fnp and "param #" not in dsc:
            fk = re.sub(r"(::\{closure\})+", "", fnp) + "|" + dsc
            reviewed_folded[fk] = None if fk in reviewed_folded or fk in reviewed else k
    reviewed_folded = {a: b_ for a, b_ in reviewed_folded.items() if b_}
    reviewed_norm = {}
    for k in reviewed:
        reviewed_norm.setdefault(_norm_overflow(k), k)
    roots = entry_points(prog, ctx)
    seen_all = reach(prog, roots)
    seen_nostatic = reach(prog, roots, skip_reasons=("static-ref",))
    local_reach = [d for d in seen_all if d in prog.bodies]
    ctx.units["bodies"] = len(prog.bodies)
    ctx.units["reachable_bodies"] = len(local_reach)
    ctx.units["config"] = ctx.config
    ords = Ordinals()
    n_sites = 0
    kinds = Counter()
    unreachable_sites = 0
    pending = []
    pending = []
    for d in sorted(prog.bodies):
        b = prog.bodies[d]
        ss = panics.sites_of(b)
        if not ss:
            continue
        if d not in seen_all:
            unreachable_sites += len(ss)
            continue
        for s in ss:
            n_sites += 1
            kinds[s.kind if s.kind != "assert" else s.what] += 1
            descr = panics.describe(S, s)
            key = ords.key(f"{fn_key(d, prog)}|{descr}")
            where = f"{b.file}:{s.line}"
            if d not in seen_nostatic:
                ctx.ok("F1-panic", key, None, status="discharged")
                ctx.count("discharged:input-independent (static initialiser only)")
                continue
            dis = panics.discharge(S, s, prog)
            if dis:
                ctx.ok("F1-panic", key, {"rule": dis[0], "detail": dis[1], "where": where} if ctx.counters.get("sampled:" + dis[0], 0) < 3 else None)
                ctx.count("sampled:" + dis[0])
                ctx.count("discharged:" + dis[0])
                continue
            if key in reviewed:
                ctx.reviewed("F1-panic", key, reviewed[key])
                ctx.count("reviewed")
                continue
            # a release build has no overflow checks: `AddWithOverflow(x, y).0` of the debug MIR is `Add(x, y)` there;
            # a row reviewed for one spelling covers the other (same operation, same operands)
            nk = _norm_overflow(key)
            if nk in reviewed_norm:
                rk = reviewed_norm[nk]
                ctx.reviewed("F1-panic", rk, reviewed[rk] + (" (operand spelled without the overflow-checked addition in this build configuration)" if rk != key else ""))
                ctx.count("reviewed")
                continue
            fk = _folded_key(prog, b, d, descr)
            if fk not in reviewed and fk in reviewed_folded:
                fk = reviewed_folded[fk]
            if fk != key and fk in reviewed:
                # the reviewed operation was moved into a closure of the same function (captured operands are
                # named by the place they capture): same function, same operation, same operands
                ctx.reviewed("F1-panic", fk, reviewed[fk] + " (same operation and operands; the site moved between the reviewed function and one of its closures)")
                ctx.count("reviewed")
                continue
            # the reviewed operation was moved, unchanged, into a private helper that only the reviewed
            # function calls (a function split in two): the row of the single caller applies
            cs = single_caller(prog, d)
            if cs is not None:
                k2 = f"{fn_key(cs, prog)}|{descr}"
                if k2 in reviewed:
                    ctx.reviewed("F1-panic", k2, reviewed[k2] + f" (site now in the helper {mir.short(d)}, called only by the reviewed function)")
                    ctx.count("reviewed")
                    continue
            path = prog.path_to(seen_nostatic, d)
            pending.append((key, fn_key(d, prog) + "|" + _opname(descr), s, descr, d, where, path))
    # known findings are call sites: when the operand provenance in a key changed (the code around the site was
    # rewritten) but function and operation are the same, and the leftover known findings and leftover sites of
    # that (function, operation) pair off one to one, the site is still that known finding
    exact = {k for k, *_ in pending if f"F1-panic:{k}" in ctx.known}
    left_known = {}
    for fk in ctx.known:
        if fk.startswith("F1-panic:") and fk[len("F1-panic:"):] not in exact:
            inst = fk[len("F1-panic:"):]
            fnp, _, dsc = inst.partition("|")
            left_known.setdefault(fnp + "|" + _opname(dsc), []).append(inst)
    left_sites = {}
    for item in pending:
        if item[0] not in exact:
            left_sites.setdefault(item[1], []).append(item)
    remap = {}
    for coarse, items in left_sites.items():
        ks = left_known.get(coarse, [])
        if ks and len(ks) == len(items):
            for it, k in zip(items, sorted(ks)):
                remap[it[0]] = k
    for key, coarse, s, descr, d, where, path in pending:
        use = remap.get(key, key)
        note = " (same call site as the listed finding; operand provenance changed)" if use != key else ""
        ctx.fail("F1-panic", use, f"reachable panic-capable construct: {s.kind} {descr} in {d}; not discharged by a local rule and not reviewed" + note, where=where,
                 path=[mir.short(x) for x in (path[:3] + ["…"] + path[-3:] if len(path) > 7 else path)])
    ctx.units["panic_sites_reachable"] = n_sites
    ctx.units["panic_sites_unreachable_code"] = unreachable_sites
    ctx.units["site_kinds"] = dict(kinds)
    if ctx.config == "default":
        ctx.floor("reachable library bodies", len(local_reach), 1500)
        ctx.floor("classified panic sites", n_sites, 200)
    # unbounded recursion cycles are listed, not decided
    ctx.note("stack depth is a runtime quantity (frame size x recursion depth) and is not decided; recursion cycles through value_expression/single_value, handle_item/handle_body, Selector::nest exist")
    ctx.explanation = ("May-panic reachability: MIR panic sites (Assert bounds/overflow/div, panicking std APIs incl. integer operators compiled as calls, explicit panics) "
                       "in functions reachable from compile_scss/compile_scss_path/compile_value/Context::transform/SourceFile::parse and the Display/Debug impls of the error types, "
                       "over a call graph closed under CHA, function values, static initialisers and drop glue. Each site: discharged by poison / static-initialiser-only / constant-argument / "
                       "dominating-test / length-arithmetic / constant-operand, else reviewed table (exact line-free key), else known finding, else VIOLATION.")
    ctx.assumptions += ["functions of std/nom/fastrand/arc-swap/tracing outside the panicking-API table do not panic for the arguments rsass passes",
                        "allocation failure and stack exhaustion are out of scope of this rule",
                        "constant-argument discharge assumes a call on literals only has an input-independent outcome that the existing suite has executed"]
