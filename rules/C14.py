"""C14 — `not`, `and`, `or` follow Sass truthiness (F5 decision tables, AST).

 (i)  `not` table: in sass::Value::do_evaluate the UnaryOp arm, for every css::Value variant
      under Operator::Not, yields the constant True for {False, Null} and the constant False
      otherwise, or the idiom "negation of is_true() of the operand"; css::Value::is_true and
      sass::Value::is_true are the Sass truthiness table;
 (ii) `and` / `or`: in sass BinOp::eval the right operand is evaluated only on the branch
      where it is needed and the other branch yields the evaluated left operand itself;
      Operator::eval And/Or select the same operands.
"""
from lib import ast as A

FALSY = {"False", "Null"}


def tuple_arm_matches(pat, vals):
    """pat: pattern of a `match (a, b)`; vals: list of variant names. -> 'yes'/'maybe'/'no'"""
    k = pat.get("p")
    if k in ("wild",):
        return "yes"
    if k == "bind":
        return "yes" if not pat.get("sub") else tuple_arm_matches(pat["sub"], vals)
    if k == "or":
        rs = [tuple_arm_matches(x, vals) for x in pat["xs"]]
        return "yes" if "yes" in rs else ("maybe" if "maybe" in rs else "no")
    if k != "tuple" or len(pat["xs"]) != len(vals):
        return "maybe"
    res = "yes"
    for p, v in zip(pat["xs"], vals):
        m = A.pat_matches_variant(p, v)
        if m == "no":
            return "no"
        if m == "maybe":
            res = "maybe"
    return res


def classify_not_body(body, operand_names):
    b = A.strip(body)
    while b.get("e") == "block" and len(b["stmts"]) == 1 and b["stmts"][0].get("s") == "expr":
        b = A.strip(b["stmts"][0]["x"])
    if b.get("e") == "path":
        last = b["p"].rsplit("::", 1)[-1]
        if last in ("True", "False") and "Value" in b["p"]:
            return ("const", last)
    # (!v.is_true()).into()
    if b.get("e") == "mcall" and b["m"] == "into":
        r = A.strip(b["recv"])
        if r.get("e") == "unary" and r["op"] == "!":
            x = A.strip(r["x"])
            if x.get("e") == "mcall" and x["m"] == "is_true" and A.strip(x["recv"]).get("e") == "path" and A.strip(x["recv"])["p"] in operand_names:
                return ("idiom", "!is_true")
    return ("other", A.show(b)[:80])


def truthiness_table(ctx, tree, ty, enum_path):
    f = tree.one_method(ty, "is_true")
    en = tree.enum(enum_path)
    variants = [v["name"] for v in en["variants"]]
    ms = [n for n in A.walk(f["body"]) if n.get("e") == "match"]
    body = A.strip(f["body"])
    if len(ms) != 1:
        ctx.anchor_lost(f"{ty}::is_true", f"expected a single match (matches!), found {len(ms)}")
        return
    # polarity: `!match .. { pats => true, _ => false }`
    negated = False
    for n in A.walk(f["body"]):
        if n.get("e") == "unary" and n["op"] == "!" and A.strip(n["x"]) is ms[0]:
            negated = True
    for v in variants:
        arms = A.select_arms(ms[0], v)
        val = None
        if arms and arms[0][1] == "yes":
            b = A.strip(arms[0][0]["body"])
            if b.get("e") == "lit" and b.get("t") == "bool":
                val = b["v"]
        if val is None:
            ctx.fail("F5-truthiness", f"{ty}::is_true|{v}", f"cannot evaluate is_true for {v} (value-dependent arm)")
            continue
        truth = (not val) if negated else val
        want = v not in FALSY
        if truth == want:
            ctx.ok("F5-truthiness", f"{ty}::is_true|{v}", None)
        else:
            ctx.fail("F5-truthiness", f"{ty}::is_true|{v}", f"{ty}::is_true({v}) is {truth}; Sass: only false and null are falsy")
    ctx.floor(f"{ty} variants", len(variants), 10)


def run(ctx, F):
    tree = F.ast
    truthiness_table(ctx, tree, "css::value::Value", "css::value::Value")
    truthiness_table(ctx, tree, "sass::value::Value", "sass::value::Value")
    # ---------------------------------------------------------------- (i) not table
    ev = tree.one_method("sass::value::Value", "do_evaluate")
    css_variants = [v["name"] for v in tree.enum("css::value::Value")["variants"]]
    target = None
    for n in A.walk(ev["body"]):
        if n.get("e") == "match" and A.strip(n["on"]).get("e") == "tuple":
            pats = " ".join(A.showpat(a["pat"]) for a in n["arms"])
            if "Operator::Not" in pats:
                target = n
    if target is None:
        ctx.anchor_lost("do_evaluate unary-operator table", "no `match (op, value)` mentioning Operator::Not in sass::Value::do_evaluate")
    else:
        operand = A.strip(target["on"])["xs"][1]
        for v in css_variants:
            sel = []
            for arm in target["arms"]:
                m = tuple_arm_matches(arm["pat"], ["Not", v])
                if m == "no":
                    continue
                certain = m == "yes" and arm.get("guard") is None
                sel.append((arm, certain))
                if certain:
                    break
            want = "True" if v in FALSY else "False"
            key = f"not {v}"
            problems = []
            for arm, certain in sel:
                names = bound_names(arm["pat"]) | ({operand["p"]} if operand.get("e") == "path" else set())
                c = classify_not_body(arm["body"], names)
                if c == ("const", want) or c[0] == "idiom":
                    continue
                problems.append(f"arm `{A.showpat(arm['pat'])}`" + (" (guarded)" if arm.get("guard") else "") + f" gives {c[1] if c[0] != 'const' else c[1]}")
            if not sel:
                problems.append("no arm")
            if problems:
                ctx.fail("F5-not-table", key, f"`not` applied to a {v} value must be {want.lower()} (only false and null are falsy): " + "; ".join(problems))
            else:
                ctx.ok("F5-not-table", key, {"arms": [A.showpat(a["pat"]) for a, _ in sel]})
    # ---------------------------------------------------------------- (ii) and / or
    be = tree.one_method("sass::value::BinOp", "eval")
    found = {}
    for n in A.walk(be["body"]):
        if n.get("e") == "if":
            c = A.strip(n["cond"])
            if c.get("e") == "bin" and c["op"] == "==" and A.strip(c["r"]).get("e") == "path" and A.show(c["l"]).replace(" ", "") == "self.op":
                opn = A.strip(c["r"])["p"].rsplit("::", 1)[-1]
                if opn in ("And", "Or"):
                    found[opn] = n
            elif c.get("e") == "bin" and c["op"] == "==" and A.strip(c["l"]).get("e") == "path" and A.show(c["r"]).replace(" ", "") == "self.op":
                opn = A.strip(c["l"])["p"].rsplit("::", 1)[-1]
                if opn in ("And", "Or"):
                    found[opn] = n
        # the same decision written as `match self.op { Operator::And => .., Operator::Or => .., .. }`
        if n.get("e") == "match" and A.show(n["on"]).replace(" ", "").lstrip("&*") == "self.op":
            for arm in n["arms"]:
                if arm["pat"].get("p") == "path" and arm.get("guard") is None:
                    opn = arm["pat"]["v"].rsplit("::", 1)[-1]
                    if opn in ("And", "Or"):
                        body = A.strip(arm["body"])
                        if body.get("e") != "block":
                            body = {"e": "block", "stmts": [{"s": "expr", "x": body, "semi": False}]}
                        found[opn] = {"then": body}
    for opn in ("And", "Or"):
        if opn not in found:
            ctx.anchor_lost(f"BinOp::eval {opn} branch", f"no `if self.op == Operator::{opn}` in sass BinOp::eval")
            continue
        blk = found[opn]["then"]
        inner = [n for n in A.walk(blk) if n.get("e") == "if" and "is_true" in A.show(n["cond"])]
        evals_b_outside = []
        if len(inner) != 1:
            ctx.fail("F3-lazy-operand", f"{opn}|shape", f"the {opn} branch of BinOp::eval does not consist of one `if a.is_true()` selection")
            continue
        sel = inner[0]
        cond = A.strip(sel["cond"])
        left = A.strip(cond["recv"])["p"] if cond.get("e") == "mcall" and A.strip(cond["recv"]).get("e") == "path" else None
        # the tested value must be the evaluated left operand
        let_a = [s for s in blk["stmts"] if s.get("s") == "let" and s["pat"].get("n") == left]
        left_ok = bool(let_a) and "self.a" in A.show(let_a[0]["init"]).replace(" ", "") and "do_evaluate" in A.show(let_a[0]["init"])
        then_e, else_e = sel["then"], sel["else"]
        def evals_b(x):
            return any(n.get("e") == "mcall" and n["m"] in ("do_evaluate", "evaluate") and A.show(n["recv"]).replace(" ", "") == "self.b" for n in A.walk(x))
        def is_left(x):
            y = A.strip(x)
            while y.get("e") == "block" and len(y["stmts"]) == 1 and y["stmts"][0].get("s") == "expr":
                y = A.strip(y["stmts"][0]["x"])
            return y.get("e") == "path" and y["p"] == left
        want_then_b = opn == "And"
        ok = left_ok and ((evals_b(then_e) and is_left(else_e)) if want_then_b else (is_left(then_e) and evals_b(else_e)))
        # no evaluation of self.b before the selection
        count_b = sum(1 for n in A.walk(blk) if n.get("e") == "mcall" and n["m"] in ("do_evaluate", "evaluate") and A.show(n["recv"]).replace(" ", "") == "self.b")
        if ok and count_b == 1:
            ctx.ok("F3-lazy-operand", f"a {opn.lower()} b: b evaluated only when a is {'truthy' if want_then_b else 'falsy'}, otherwise a itself", None)
        else:
            ctx.fail("F3-lazy-operand", f"a {opn.lower()} b: b evaluated only when a is {'truthy' if want_then_b else 'falsy'}, otherwise a itself",
                     f"BinOp::eval {opn}: tested value is the evaluated left operand: {left_ok}; then=`{A.show(then_e)[:60]}` else=`{A.show(else_e)[:60]}`; evaluations of self.b in the branch: {count_b}")
    # Operator::eval And / Or
    oe = tree.one_method("value::operator::Operator", "eval")
    ms = [n for n in A.walk(oe["body"]) if n.get("e") == "match" and "self" in A.show(n["on"])]
    if not ms:
        ctx.anchor_lost("Operator::eval table", "no match on *self")
    else:
        for opn in ("And", "Or"):
            arms = A.select_arms(ms[0], opn)
            if len(arms) != 1:
                ctx.fail("F5-operator-table", opn, f"Operator::eval has {len(arms)} arms for {opn}")
                continue
            ifs = [n for n in A.walk(arms[0][0]["body"]) if n.get("e") == "if"]
            good = False
            if len(ifs) == 1 and A.show(ifs[0]["cond"]).replace(" ", "") == "a.is_true()":
                t = A.show(A.strip(ifs[0]["then"])).strip("{}")
                e = A.show(A.strip(ifs[0]["else"])).strip("{}")
                good = (t, e) == (("b", "a") if opn == "And" else ("a", "b"))
            (ctx.ok if good else ctx.fail)("F5-operator-table", f"Operator::{opn}", *([None] if good else [f"Operator::eval {opn} does not select `if a.is_true() {{ {'b' if opn == 'And' else 'a'} }} else {{ {'a' if opn == 'And' else 'b'} }}`"]))
    ctx.explanation = ("Decision tables extracted from the expanded AST: the (operator, value) match of sass::Value::do_evaluate is evaluated abstractly for Operator::Not x every css::Value variant "
                       "(first matching arm; guarded arms contribute both outcomes) and each selected arm must be the Sass constant or the !is_true() idiom; is_true tables of both Value types; "
                       "structure of the And/Or branches of BinOp::eval (b evaluated once, only on the needed branch; the other branch yields the evaluated left operand) and of Operator::eval.")


def bound_names(pat):
    out = set()

    def rec(p):
        if not isinstance(p, dict):
            return
        if p.get("p") == "bind":
            out.add(p["n"])
            rec(p.get("sub"))
        for k in ("xs",):
            for x in p.get(k, []) or []:
                rec(x)
        if p.get("p") == "struct":
            for _, b in p["fields"]:
                rec(b)
        if p.get("p") == "ref":
            rec(p["x"])
    rec(pat)
    return out
