"""C15 — operators follow Sass precedence and associativity (F7 grammar levels, AST).

From the combinator trees of the value parser: for each function on the chain from
single_expression down to single_value — the operator constants it recognises, the parser
of its left operand, the parser of its right operand and the node it builds.  Oracle (Sass):
  or < and < {== !=} < {< <= > >=} < {+ -} < {* / %},  every level left-associative (the
right operand is parsed by the next tighter level and the fold builds (acc op rhs)).
Siblings with the same contract (Sass calc() parser, plain-CSS calc reader) are cross-checked.
"""
from lib import ast as A

ORACLE = [["Or"], ["And"], ["Equal", "NotEqual"], ["Greater", "GreaterE", "Lesser", "LesserE"], ["Plus", "Minus"], ["Multiply", "Div", "Modulo"]]
PREC = {op: i for i, lvl in enumerate(ORACLE) for op in lvl}
SYMBOL = {"Or": "or", "And": "and", "Equal": "==", "NotEqual": "!=", "Greater": ">", "GreaterE": ">=", "Lesser": "<", "LesserE": "<=", "Plus": "+", "Minus": "-", "Multiply": "*", "Div": "/", "Modulo": "%"}


class Level:
    def __init__(self, fn, path):
        self.fn = fn
        self.path = path
        self.ops = []
        self.left = None
        self.right = []
        self.builds = []      # descriptions of BinOp::new calls
        self.fold_ok = None


def fn_by_name(tree, module, name):
    c = [f for f in tree.fn_list if f["path"] == module + "::" + name]
    return c[0] if len(c) == 1 else None


def ret_ty(f):
    return (f["sig"].get("ret") or "").replace(" ", "")


def extract(tree, module, f, bind=None):
    """Level description of parser function f.  `bind` maps generic parameter names to fn names."""
    bind = bind or {}
    lvl = Level(f["sig"]["name"], f["path"])
    body = f["body"]
    stmts = body["stmts"]
    # wrapper: `any_additive_expr(term_value, input)`
    if len(stmts) == 1 and stmts[0].get("s") == "expr":
        x = A.strip(stmts[0]["x"])
        if x.get("e") == "call" and x["f"].get("e") == "path" and len(x["args"]) == 2 and A.strip(x["args"][0]).get("e") == "path":
            g = fn_by_name(tree, module, x["f"]["p"].rsplit("::", 1)[-1])
            if g is not None and g["sig"]["params"] and g["sig"]["params"][0].get("pat", {}).get("n"):
                pname = g["sig"]["params"][0]["pat"]["n"]
                sub = extract(tree, module, g, {pname: A.strip(x["args"][0])["p"]})
                sub.fn = f["sig"]["name"] + "=" + sub.fn + "(" + A.strip(x["args"][0])["p"] + ")"
                return sub

    def resolve(name):
        return bind.get(name, name)
    # left operand
    for s in stmts:
        if s.get("s") == "let":
            init = A.strip(s["init"]) if s.get("init") else None
            if init and init.get("e") == "try":
                c = A.strip(init["x"])
                if c.get("e") == "call" and c["f"].get("e") == "path" and len(c["args"]) == 1:
                    lvl.left = resolve(c["f"]["p"].rsplit("::", 1)[-1])
                    break
                if c.get("e") == "call" and c["f"].get("e") == "path" and len(c["args"]) == 2 and A.strip(c["args"][0]).get("e") == "path":
                    # generic level instantiated in place: `any_product(single_value, input)?`
                    lvl.left = generic_name(c)
                    break
    # operators: value(Operator::X, ..), inlining helper parsers that return PResult<Operator>
    def ops_in(node, depth=0):
        out = []
        for n in A.walk(node):
            if n.get("e") == "call" and n["f"].get("e") == "path" and n["f"]["p"].rsplit("::", 1)[-1] == "value" and n["args"]:
                a0 = A.strip(n["args"][0])
                if a0.get("e") == "path" and a0["p"].startswith("Operator::"):
                    out.append(a0["p"].split("::")[1])
            if n.get("e") == "path" and depth < 2:
                g = fn_by_name(tree, module, n["p"])
                if g is not None and ret_ty(g) == "PResult<Operator>":
                    out.extend(ops_in(g["body"], depth + 1))
        return out
    lvl.ops = ops_in(body)
    hard = []
    for n in A.walk(body):
        if n.get("e") == "call" and n["f"].get("e") == "path" and n["f"]["p"].endswith("BinOp::new"):
            for a in n["args"]:
                a = A.strip(a)
                if a.get("e") == "path" and a["p"].startswith("Operator::"):
                    hard.append(a["p"].split("::")[1])
    lvl.hard_ops = hard
    lvl.ops = lvl.ops + [o for o in hard if o not in lvl.ops]
    # right operand: parser paths (returning PResult<Value>) inside tuples that also contain the operator alt
    for n in A.walk(body):
        if n.get("e") == "tuple":
            has_op = any(ops_in(x) for x in n["xs"])
            if not has_op:
                continue
            seen_op = False
            for x in n["xs"]:
                if ops_in(x):
                    seen_op = True
                    if A.strip(x).get("e") == "tuple":
                        continue
                    continue
                xs = A.strip(x)
                if seen_op and xs.get("e") == "path":
                    nm = resolve(xs["p"])
                    g = fn_by_name(tree, module, nm)
                    if (g is not None and ret_ty(g) == "PResult<Value>") or xs["p"] in bind:
                        if nm not in lvl.right:
                            lvl.right.append(nm)
    if hard:
        for n in A.walk(body):
            if n.get("e") == "call" and n["f"].get("e") == "path" and n["f"]["p"].rsplit("::", 1)[-1] in ("fold_many0", "fold_many1", "many0") and n["args"]:
                tup = A.strip(n["args"][0])
                seen_tag = False
                for x in (tup["xs"] if tup.get("e") == "tuple" else []):
                    xs = A.strip(x)
                    if xs.get("e") == "call" and xs["f"].get("e") == "path" and xs["f"]["p"].rsplit("::", 1)[-1] in ("tag", "char", "terminated", "tag_no_case"):
                        seen_tag = True
                        continue
                    if not seen_tag:
                        continue
                    nm = None
                    if xs.get("e") == "path":
                        nm = resolve(xs["p"])
                        g = fn_by_name(tree, module, nm)
                        if not ((g is not None and ret_ty(g) == "PResult<Value>") or xs["p"] in bind):
                            nm = None
                    elif xs.get("e") == "closure":
                        cb = A.strip(xs["body"])
                        if cb.get("e") == "call" and cb["f"].get("e") == "path" and len(cb["args"]) == 2 and A.strip(cb["args"][0]).get("e") == "path":
                            nm = generic_name(cb)
                        elif cb.get("e") == "call" and cb["f"].get("e") == "path" and len(cb["args"]) == 1:
                            nm = resolve(cb["f"]["p"].rsplit("::", 1)[-1])
                    if nm and nm not in lvl.right:
                        lvl.right.append(nm)
    # construction
    for n in A.walk(body):
        if n.get("e") == "call" and n["f"].get("e") == "path" and n["f"]["p"].endswith("BinOp::new"):
            lvl.builds.append([A.show(a) for a in n["args"]])
    # fold shape: closure |acc, (..)| { [let pos = ..;] BinOp::new(acc, .., op, .., rhs, ..).into() }  or the while-let form
    lvl.fold_ok = fold_shape(body)
    return lvl


def generic_name(call):
    return call["f"]["p"].rsplit("::", 1)[-1] + "(" + A.strip(call["args"][0])["p"] + ")"


def level_by_name(tree, module, name):
    """Level of a parser named either `f` or `g(P)` (generic level function g instantiated with P)."""
    if name is None:
        return None
    if "(" in name:
        g, p = name[:-1].split("(", 1)
        gf = fn_by_name(tree, module, g)
        if gf is None or not gf["sig"]["params"] or not gf["sig"]["params"][0].get("pat", {}).get("n"):
            return None
        sub = extract(tree, module, gf, {gf["sig"]["params"][0]["pat"]["n"]: p})
        sub.fn = name
        return sub
    f = fn_by_name(tree, module, name)
    return extract(tree, module, f) if f is not None else None


def fold_shape(body):
    """Returns None if the accumulation is exactly `acc = (acc op rhs)`, else a description."""
    problems = []
    found = False
    for n in A.walk(body):
        if n.get("e") == "call" and n["f"].get("e") == "path" and n["f"]["p"].rsplit("::", 1)[-1] == "fold_many0" and len(n["args"]) == 3:
            found = True
            cl = A.strip(n["args"][2])
            if cl.get("e") != "closure" or len(cl["params"]) != 2:
                problems.append("fold function is not a 2-parameter closure")
                continue
            acc = cl["params"][0].get("n")
            bound = names_in_pat(cl["params"][1])
            b = A.strip(cl["body"])
            stmts = b["stmts"] if b.get("e") == "block" else [{"s": "expr", "x": b, "semi": False}]
            exprs = [s for s in stmts if s.get("s") == "expr"]
            lets = [s for s in stmts if s.get("s") == "let"]
            if len(exprs) != 1 or any(s["pat"].get("n") != "pos" for s in lets) or len(stmts) != len(exprs) + len(lets):
                problems.append("fold closure does more than build one node")
                continue
            problems.extend(check_node(exprs[0]["x"], acc, bound))
    if not found:
        # while-let accumulation
        for n in A.walk(body):
            if n.get("e") == "while" and A.strip(n["cond"]).get("e") == "let":
                found = True
                bound = names_in_pat(A.strip(n["cond"])["pat"])
                assigns = [s["x"] for s in n["body"]["stmts"] if s.get("s") == "expr" and A.strip(s["x"]).get("e") == "assign"]
                node = [a for a in assigns if "BinOp::new" in A.show(a["r"])]
                if len(node) != 1:
                    problems.append("loop does not build exactly one node per iteration")
                    continue
                acc = A.show(node[0]["l"])
                problems.extend(check_node(node[0]["r"], acc, bound))
                others = [A.show(a["l"]) for a in assigns if a is not node[0]]
                extra = [s for s in n["body"]["stmts"] if not (s.get("s") == "let" and s["pat"].get("n") == "pos") and not (s.get("s") == "expr" and A.strip(s["x"]).get("e") == "assign")]
                if extra:
                    problems.append("loop body contains extra statements")
    if not found:
        return "no fold over (operator, operand) pairs found"
    return "; ".join(problems) if problems else None


def names_in_pat(p):
    out = []

    def rec(x):
        if not isinstance(x, dict):
            return
        if x.get("p") == "bind":
            out.append(x["n"])
        for y in x.get("xs", []) or []:
            rec(y)
        if x.get("p") == "tstruct":
            pass
        if x.get("p") == "ref":
            rec(x["x"])
    rec(p)
    return out


def check_node(x, acc, bound):
    x = A.strip(x)
    if not (x.get("e") == "mcall" and x["m"] == "into"):
        return [f"result is `{A.show(x)[:60]}`, not BinOp::new(..).into()"]
    c = A.strip(x["recv"])
    if not (c.get("e") == "call" and c["f"].get("e") == "path" and c["f"]["p"].endswith("BinOp::new")):
        return [f"result is `{A.show(c)[:60]}`, not a BinOp node"]
    args = [A.show(A.strip(a)) for a in c["args"]]
    if args[0] != acc:
        return [f"left operand of the built node is `{args[0]}`, not the accumulator `{acc}`"]
    rest = [a for a in args[1:] if a in bound]
    if any(a.startswith("Operator::") for a in args[1:]):
        rest = ["<constant operator>"] + rest
    # among the bound names passed on, one is the operator and a later one the right operand
    if len(rest) < 2:
        return [f"the built node does not take operator and right operand from the parsed pair (args {args})"]
    return []


CHAINS = [("parser::value", "single_expression", "SassScript expressions", True),
          ("parser::css_function", "sum_expression", "Sass calc() arguments", False),
          ("parser::css::values", "calc_expr", "plain-CSS reader calc()", False)]


def run(ctx, F):
    tree = F.ast
    for module, start, what, full in CHAINS:
        f = fn_by_name(tree, module, start)
        if f is None:
            ctx.anchor_lost(f"{module}::{start}", "level chain start not found")
            continue
        chain = []
        seen = set()
        cur = f
        lvl = extract(tree, module, f)
        while lvl is not None and lvl.fn not in seen and len(chain) < 9:
            seen.add(lvl.fn)
            if not lvl.ops:
                break
            chain.append(lvl)
            lvl = level_by_name(tree, module, lvl.left)
        placed = {}
        for i, lvl in enumerate(chain):
            for op in sorted(set(lvl.ops)):
                placed.setdefault(op, []).append(i)
        ctx.units.setdefault("chains", {})[what] = [{"fn": l.fn, "ops": l.ops, "left": l.left, "right": l.right} for l in chain]
        ops_expected = sorted(PREC) if full else ["Plus", "Minus", "Multiply", "Div", "Modulo"]
        ctx.floor(f"{what}: binary operators placed", len([o for o in ops_expected if o in placed]), len(ops_expected))
        tag = module.rsplit("::", 1)[-1] if module != "parser::value" else "value"
        key_prefix = f"{module}::{start}"
        # ---- relative order of every pair of operator classes
        classes = [c for c in ORACLE if all(o in placed for o in c)] if full else [["Plus", "Minus"], ["Multiply", "Div", "Modulo"]]
        for ci, c1 in enumerate(classes):
            lv1 = {tuple(placed[o]) for o in c1}
            name1 = " ".join(SYMBOL[o] for o in c1)
            if len(lv1) != 1 or any(len(placed[o]) != 1 for o in c1):
                ctx.fail("F7-operator-level", f"{key_prefix}|{{{name1}}} share one level", f"{what}: operators {name1} are recognised at levels {sorted(lv1)}")
                continue
            for c2 in classes[ci + 1:]:
                name2 = " ".join(SYMBOL[o] for o in c2)
                l1 = placed[c1[0]][0]
                l2s = {placed[o][0] for o in c2 if len(placed[o]) == 1}
                key = f"{key_prefix}|{{{name2}}} binds tighter than {{{name1}}}"
                if all(l2 > l1 for l2 in l2s) and l2s:
                    ctx.ok("F7-operator-level", key, None)
                else:
                    rel = "the same level as" if l2s == {l1} else "looser than"
                    ctx.fail("F7-operator-level", key, f"{what}: `{name2}` is parsed at {rel} `{name1}` ({chain[min(l2s)].fn if l2s else '?'} vs {chain[l1].fn}); Sass requires it to bind tighter")
        # ---- associativity and node construction per level
        for i, lvl in enumerate(chain):
            names = " ".join(SYMBOL.get(o, o) for o in lvl.ops)
            key = f"{key_prefix}|level {lvl.fn.split('=')[0]} {{{names}}}"
            nxt = lvl.left
            if lvl.right == [nxt] and nxt != lvl.fn.split("=")[0] and nxt != lvl.fn.split("=")[-1]:
                ctx.ok("F7-left-assoc", key, {"left": nxt, "right": lvl.right})
            else:
                ctx.fail("F7-left-assoc", key, f"{what}: at level {{{names}}} the right operand is parsed by {lvl.right} while the left operand is {nxt}: " + ("the level recurses on its right operand (right-associative)" if lvl.fn.split("=")[0] in lvl.right else "operands are not both the next tighter level"))
            if lvl.fold_ok is None:
                ctx.ok("F7-fold-builds-binop", key, None)
            else:
                ctx.fail("F7-fold-builds-binop", key, f"{what}: the accumulation at level {{{names}}} is not the plain left fold `acc = (acc op rhs)`: {lvl.fold_ok}")
    # unary operators take the tightest level as operand
    u = fn_by_name(tree, "parser::value", "unary_op")
    if u is None:
        ctx.anchor_lost("parser::value::unary_op", "not found")
    else:
        operands = []
        for n in A.walk(u["body"]):
            if n.get("e") == "tuple":
                ps = [A.strip(x)["p"] for x in n["xs"] if A.strip(x).get("e") == "path"]
                if any(any(m.get("e") == "path" and m["p"].startswith("Operator::") for m in A.walk(x)) for x in n["xs"]):
                    cand = [p for p in ps if p not in ("ignore_comments", "position")]
                    if cand and not operands:
                        operands = cand
        if operands == ["single_value"]:
            ctx.ok("F7-unary-tightest", "unary -/+/not applies to single_value", None)
        else:
            ctx.fail("F7-unary-tightest", "unary -/+/not applies to single_value", f"unary operators take {operands} as operand: they must bind tighter than every binary operator")
    ctx.explanation = ("Operator levels read from the nom combinator trees in the expanded AST: value(Operator::X, tag(..)) constants per level function (helper parsers inlined, generic "
                       "any_additive_expr/any_product resolved through their wrappers), left/right operand parsers, and the exact shape of the fold that builds the node. "
                       "All pairs of operator classes are compared with the Sass precedence table; sibling grammars for calc() are held to the same table.")
