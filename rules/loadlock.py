"""Shared analysis of the load lock / module cache protocol (C02, C03)."""
from lib import mir, sym, cfgutil

FIND_FILE = "Context<AnyLoader>>::find_file"
LOCK = "Context<AnyLoader>>::lock_loading"
UNLOCK = "Context<AnyLoader>>::unlock_loading"
PARSE = "<input::sourcefile::SourceFile>::parse"
HANDLERS = ("output::transform::handle_parsed", "output::transform::handle_body", "output::transform::handle_css")
LOAD_MODULE = "CssData>::load_module"
SOURCEFILE_TY = "input::sourcefile::SourceFile"


def ends(name, suffix):
    return name is not None and (name == suffix or name.endswith(suffix))


class LockUser:
    """One function that takes the load lock (through find_file or lock_loading)."""

    def __init__(self, prog, body, S, acq=None):
        self.prog = prog
        self.body = body
        self.S = S
        acq = acq if acq is not None else acquirers(prog)
        self.find_sites = [bi for bi, t in body.calls() if mir.callee_name(t) in acq and not ends(mir.callee_name(t), LOCK)]
        self.lock_sites = [bi for bi, t in body.calls() if ends(mir.callee_name(t), LOCK)]
        self.unlock_sites = [bi for bi, t in body.calls() if ends(mir.callee_name(t), UNLOCK)]
        self.parse_sites = [bi for bi, t in body.calls() if ends(mir.callee_name(t), PARSE)]
        self.handler_sites = [bi for bi, t in body.calls() if any(ends(mir.callee_name(t), h) for h in HANDLERS)]
        self.load_module_sites = [bi for bi, t in body.calls() if ends(mir.callee_name(t), LOAD_MODULE)]

    def term_args(self, bi):
        t = self.body.blocks[bi]["term"]
        return [self.S.operand(self.body, a) for a in t["args"]]

    def held_starts(self, find_bi):
        """Blocks where a SourceFile derived from this find_file call is first bound
        (payload extraction): from there on the lock is held."""
        body = self.body
        out = []
        marker = ("call-at", find_bi)
        for bi, si, s in body.stmts():
            if s["k"] != "assign" or s["p"][1]:
                continue
            l = s["p"][0]
            if body.local_ty(l) != SOURCEFILE_TY:
                continue
            rv = s["rv"]
            if rv["k"] != "use" or rv["ops"][0]["k"] not in ("move", "copy") or not rv["ops"][0]["p"][1]:
                continue
            if self._derives_from_call(rv["ops"][0]["p"][0], find_bi, set()):
                out.append(bi)
        return sorted(set(out))

    def _derives_from_call(self, local, call_bi, seen):
        """Flow-insensitive: is `local` computed from the destination of the call at call_bi?"""
        if local in seen:
            return False
        seen.add(local)
        body = self.body
        for d in body.defs().get(local, []):
            if d[0] == "call":
                if d[1] == call_bi:
                    return True
                for a in d[2]["args"]:
                    if a["k"] in ("copy", "move") and self._derives_from_call(a["p"][0], call_bi, seen):
                        return True
            else:
                rv = d[3]["rv"]
                srcs = []
                if rv["k"] in ("ref", "discr"):
                    srcs.append(rv["p"][0])
                for o in rv.get("ops", []) or []:
                    if o["k"] in ("copy", "move"):
                        srcs.append(o["p"][0])
                for x in srcs:
                    if self._derives_from_call(x, call_bi, seen):
                        return True
        return False

    def file_locals_of(self, find_bi):
        body = self.body
        return [l for l in range(len(body.locals)) if body.local_ty(l) in (SOURCEFILE_TY, "&" + SOURCEFILE_TY) and self._derives_from_call(l, find_bi, set())]

    def unlocks_for(self, find_bi):
        out = []
        for u in self.unlock_sites:
            t = self.body.blocks[u]["term"]
            a = t["args"][1]
            if a["k"] in ("copy", "move") and self._derives_from_call(a["p"][0], find_bi, set()):
                out.append(u)
        return out

    def reaches(self, src_blocks, dst_block, avoid=()):
        """Is dst reachable from (the successors of) any src block on normal edges,
        without passing a block in `avoid` (the re-acquisition of the lock in a loop)?"""
        body = self.body
        for s in src_blocks:
            for nxt in body.successors(s):
                if dst_block in body.reachable_blocks(nxt, avoid=avoid):
                    return True
        return False


_ACQ = {}


def acquirers(prog):
    """The functions that hand a locked file to their caller: lock_loading itself, and (transitively) every
    function that calls one of them, never unlocks, and returns a SourceFile (find_file, and any helper
    find_file's work is split into).  Their callers are the lock *users* the rules look at."""
    key = id(prog)
    if key in _ACQ:
        return _ACQ[key]
    acq = {d for d in prog.bodies if ends(d, LOCK)}
    changed = True
    while changed:
        changed = False
        for d, b in prog.bodies.items():
            if d in acq or ends(d, UNLOCK) or SOURCEFILE_TY not in (b.ret or ""):
                continue
            names = [mir.callee_name(t) for bi, t in b.calls()]
            if any(n in acq for n in names) and not any(ends(n, UNLOCK) for n in names):
                acq.add(d)
                changed = True
    _ACQ[key] = acq
    return acq


def lock_users(prog):
    S = sym.Sym(prog)
    out = []
    acq = acquirers(prog)
    for b in sorted(prog.bodies.values(), key=lambda b: b.def_):
        u = LockUser(prog, b, S, acq)
        if u.find_sites or u.lock_sites or u.unlock_sites:
            # the protocol's own implementation is not a user
            if b.def_ in acq or ends(b.def_, UNLOCK):
                continue
            out.append(u)
    return S, out
