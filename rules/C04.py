"""C04 — load URLs resolve to the documented candidate file.

 * candidate tables: the two closure arrays of Context::find_file read as ordered template
   lists over (base, name) and compared with the oracle of the statement; selected by
   `from.is_import()`;
 * explicit-extension shortcut literal set {.css, .sass, .scss};
 * provenance: Loader::find_file is asked only for the URL itself (shortcut) or for a
   candidate produced from the table in table order; the first hit is returned;
   do_find_file gets `relative(from, url)`; and the spelled URL is then tried unchanged
   (clause of the statement; today a known finding);
 * plain-CSS fallback predicate set; load paths walked in order by both loaders.
"""
import re

from lib import mir, sym, cfgutil, ast as A

MODULE_ORACLE = ["{base}{name}.scss", "{base}_{name}.scss", "{base}{name}/index.scss", "{base}{name}/_index.scss", "{base}{name}.css", "{base}_{name}.css"]
FALLBACK_PREFIXES = {"http://", "https://", "//"}
FALLBACK_SUFFIXES = {".css"}
SHORTCUT = {".css", ".sass", ".scss"}


def closure_template(cl):
    """`|base, name| format!("{base}{name}.scss")` -> '{base}{name}.scss'"""
    if cl.get("e") == "ref":
        cl = cl["x"]
    if cl.get("e") != "closure":
        return None
    params = [p.get("n") for p in cl["params"]]
    fmts = [n for n in A.walk(cl["body"]) if n.get("e") == "fmt"]
    if len(fmts) != 1 or fmts[0]["template"] is None:
        return None
    f = fmts[0]
    names = []
    for a in f["args"]:
        x = A.strip(a["x"])
        names.append(x["p"] if x.get("e") == "path" else "?")
    tpl = f["template"]

    def sub(m):
        key = m.group(1)
        if key.isdigit():
            i = int(key)
            n = names[i] if i < len(names) else "?"
        else:
            n = key
        if n in params:
            return "{" + ("base", "name")[params.index(n)] + "}" if len(params) == 2 else "{" + n + "}"
        return "{?" + n + "}"
    return re.sub(r"\{(\w*)\}", sub, tpl)


def run(ctx, F):
    tree = F.ast
    prog = F.lib
    S = sym.Sym(prog, inline_depth=1)
    ff_ast = tree.fn("<Context<AnyLoader>>::find_file")
    # ---------------------------------------------------------------- candidate tables
    tables = None
    for n in A.walk(ff_ast["body"]):
        if n.get("s") == "let" and n["pat"].get("n") == "names":
            init = A.strip(n["init"])
            if init.get("e") == "if":
                tables = init
    if tables is None:
        ctx.anchor_lost("find_file names table", "no `let names = if .. { [..] } else { [..] }` in Context::find_file")
    else:
        cond = A.show(tables["cond"])
        if cond.replace(" ", "") in ("from.is_import()",):
            ctx.ok("F5-candidate-table", "selector = from.is_import()", None)
        else:
            ctx.fail("F5-candidate-table", "selector = from.is_import()", f"the candidate list is selected by `{cond}`")

        def arr(node):
            x = A.strip(node)
            while x.get("e") == "block" and len(x["stmts"]) == 1:
                x = A.strip(x["stmts"][0].get("x"))
            if x.get("e") == "array":
                return [closure_template(c) for c in x["xs"]]
            return None
        imp = arr(tables["then"])
        mod = arr(tables["else"])
        if imp is None or mod is None or None in imp or None in mod:
            ctx.anchor_lost("find_file names table", f"cannot read candidate closures (import={imp}, module={mod})")
        else:
            ctx.floor("import candidates", len(imp), 10)
            ctx.floor("module candidates", len(mod), 6)
            if mod == MODULE_ORACLE:
                ctx.ok("F5-candidate-table", "@use/@forward candidates", {"list": mod})
            else:
                ctx.fail("F5-candidate-table", "@use/@forward candidates", f"module candidate list is {mod}; the statement requires {MODULE_ORACLE}")
            # import list: without `.import.` entries it is the module list; every .scss entry has its .import.scss variant before it
            plain = [x for x in imp if ".import." not in x]
            if plain == MODULE_ORACLE:
                ctx.ok("F5-candidate-table", "@import candidates (plain part)", None)
            else:
                ctx.fail("F5-candidate-table", "@import candidates (plain part)", f"@import candidates without the import-only variants are {plain}; expected {MODULE_ORACLE}")
            for x in MODULE_ORACLE:
                if not x.endswith(".scss"):
                    continue
                variant = x[:-5] + ".import.scss"
                key = f"@import tries {variant} before {x}"
                if variant in imp and x in imp and imp.index(variant) < imp.index(x):
                    ctx.ok("F5-candidate-table", key, None)
                else:
                    ctx.fail("F5-candidate-table", key, f"in the @import candidate list {imp} the import-only variant {variant} does not precede {x}")
            extra = [x for x in imp if x not in MODULE_ORACLE and not (x.endswith(".import.scss") and x[:-12] + ".scss" in MODULE_ORACLE)]
            if extra:
                ctx.fail("F5-candidate-table", "@import candidates (no extras)", f"unexpected @import candidates {extra}")
            else:
                ctx.ok("F5-candidate-table", "@import candidates (no extras)", {"list": imp})
    # ---------------------------------------------------------------- do_find_file
    dff = prog.one("Context<AnyLoader>>::do_find_file")
    _p, ends, _c = url_literals(prog, dff)
    if ends == SHORTCUT:
        ctx.ok("F5-extension-shortcut", "explicit extensions", {"set": sorted(ends)})
    else:
        ctx.fail("F5-extension-shortcut", "explicit extensions", f"the explicit-extension test covers {sorted(ends)}, expected {sorted(SHORTCUT)}", where=dff.where())
    # every Loader::find_file call in the generic Context
    lf_sites = []
    for b in prog.bodies.values():
        if not (b.def_.startswith("<input::context::Context<AnyLoader>>") or (b.raw.get("parent") or "").startswith("<input::context::Context<AnyLoader>>")):
            continue
        for bi, t in b.calls():
            if (mir.callee_orig(t) or "") == "input::loader::Loader::find_file":
                lf_sites.append((b, bi, t))
    ctx.floor("Loader::find_file call sites in Context", len(lf_sites), 2)
    n_url = n_cand = 0
    closure_lookup = None
    for b, bi, t in lf_sites:
        arg = sym.strip_transparent(S.operand(b, t["args"][1]))
        recv = sym.strip_transparent(S.operand(b, t["args"][0]))
        key = f"{b.def_}|Loader::find_file({sym.show(arg)[:60]})"
        if b is not dff and b.raw.get("parent") == dff.def_:
            # the lookup sits in a closure of do_find_file (`names.iter().map(..).find_map(|name| loader.find_file(&name) ..)`):
            # the closure's parameter is the item of the iterator it is handed to
            uses = [(b2, t2) for b2, t2 in dff.calls() if any(b.def_ in defs for defs in (t2.get("arg_defs") or []))]
            item_ok = False
            if len(uses) == 1 and arg[0] == "param" and arg[1] == 2 and (mir.callee_orig(uses[0][1]) or "") in FIRST_HIT_ADAPTERS:
                it = sym.strip_transparent(S.operand(dff, uses[0][1]["args"][0]))
                fl = flatten(it)
                item_ok = ("param", 3, ()) in fl and "closure" in repr(it) and "Iterator::map" in repr(it) \
                    and not any(x[0] == "call" and any(x[1].endswith(a) or (a + "<") in x[1] for a in ORDER_ADAPTERS) for x in fl)
            if item_ok:
                n_cand += 1
                closure_lookup = (b, bi, t, uses[0])
                ctx.ok("F4-lookup-provenance", "do_find_file|loop asks for names[i](base, name)", {"term": "item of " + sym.show(it)[:160], "adapter": mir.callee_orig(uses[0][1])})
            else:
                ctx.fail("F4-lookup-provenance", key, f"{b.def_} asks the loader for `{sym.show(arg)[:80]}`: not a candidate built from the table in table order", where=b.where(bi))
            continue
        if b is not dff:
            ctx.fail("F4-lookup-provenance", key, f"{b.def_} asks the loader directly, outside do_find_file: candidate order is bypassed", where=b.where(bi))
            continue
        if arg == ("param", 2, ()):
            n_url += 1
            ctx.ok("F4-lookup-provenance", "do_find_file|shortcut asks for the url itself", None)
        elif candidate_term(arg):
            n_cand += 1
            ctx.ok("F4-lookup-provenance", "do_find_file|loop asks for names[i](base, name)", {"term": sym.show(arg)[:200]})
        else:
            ctx.fail("F4-lookup-provenance", key, f"the loader is asked for `{sym.show(arg)[:200]}`, which is neither the URL (explicit extension) nor a candidate built from the table", where=dff.where(bi))
    if lf_sites and (n_url != 1 or n_cand != 1):
        ctx.fail("F4-lookup-provenance", "do_find_file|one shortcut + one loop lookup", f"expected one shortcut lookup and one candidate-loop lookup, found {n_url}/{n_cand}", where=dff.where())
    # first hit returned: after the loop lookup succeeded with Some, no further `next`
    loop_sites = [(bi, t) for b, bi, t in lf_sites if b is dff and candidate_term(sym.strip_transparent(S.operand(dff, t["args"][1])))]
    if closure_lookup is not None and not loop_sites:
        cb, cbi, ct, (ub, ut) = closure_lookup
        # first hit by construction of find_map / find / try_for_each-with-break: the closure must answer Some(..) when
        # the loader found the file
        some = None
        for b2 in sorted(cb.reachable_blocks(ct["target"])) if ct.get("target") is not None else []:
            tm = cb.blocks[b2]["term"]
            if tm["k"] == "switch" and (tm.get("of_ty") or "").startswith("std::option::Option") and tm.get("discr_of") and "Loader::find_file" in repr(S.place(cb, tm["discr_of"])):
                some = {n: tg for _, tg, n in tm["targets"]}.get("Some")
        none_after = False
        if some is not None:
            for b2 in cb.reachable_blocks(some):
                for st in cb.blocks[b2]["stmts"]:
                    if st["k"] == "assign" and st["p"][0] == 0 and st["rv"]["k"] == "agg" and st["rv"].get("variant") == "None":
                        none_after = True
        if some is None:
            ctx.anchor_lost("do_find_file first-hit", "no Some/None test of the loader result found in the lookup closure")
        elif none_after:
            ctx.fail("F3-first-hit", "do_find_file returns the first existing candidate", "the lookup closure can answer None after the loader found a file: the search continues to later candidates", where=cb.where(cbi))
        else:
            ctx.ok("F3-first-hit", "do_find_file returns the first existing candidate", {"by": mir.callee_orig(ut)})
        adapters = [mir.callee_orig(tm) for b2, tm in dff.calls() if (mir.callee_orig(tm) or "").startswith("std::iter::Iterator::") and (mir.callee_orig(tm) or "").rsplit("::", 1)[-1] not in ("next", "map") and tm is not ut]
        if adapters:
            ctx.fail("F4-candidate-order", "do_find_file iterates names in table order", f"iterator adapters {adapters} change the candidate order", where=dff.where())
        else:
            ctx.ok("F4-candidate-order", "do_find_file iterates names in table order", None)
    if loop_sites:
        bi, t = loop_sites[0]
        tt = cfgutil.try_targets(dff, bi)
        some = None
        if tt:
            for b2 in sorted(dff.reachable_blocks(tt[0])):
                tm = dff.blocks[b2]["term"]
                if tm["k"] == "switch" and (tm.get("of_ty") or "").startswith("std::option::Option") and tm.get("discr_of"):
                    src = S.place(dff, tm["discr_of"])
                    if "Loader::find_file" in repr(src):
                        names = {n: tg for _, tg, n in tm["targets"]}
                        some = names.get("Some")
                        break
        nexts = [b2 for b2, tm in dff.calls() if (mir.callee_orig(tm) or "") == "std::iter::Iterator::next"]
        if some is None:
            ctx.anchor_lost("do_find_file first-hit", "no Some/None test of the loader result found")
        elif any(n in dff.reachable_blocks(some) for n in nexts):
            ctx.fail("F3-first-hit", "do_find_file returns the first existing candidate", "after a candidate was found the loop can continue to later candidates", where=dff.where(bi))
        else:
            ctx.ok("F3-first-hit", "do_find_file returns the first existing candidate", None)
        adapters = [mir.callee_orig(tm) for b2, tm in dff.calls() if (mir.callee_orig(tm) or "").startswith("std::iter::Iterator::") and (mir.callee_orig(tm) or "").rsplit("::", 1)[-1] not in ("next", "map")]
        if adapters:
            ctx.fail("F4-candidate-order", "do_find_file iterates names in table order", f"iterator adapters {adapters} change the candidate order", where=dff.where())
        else:
            ctx.ok("F4-candidate-order", "do_find_file iterates names in table order", None)
    # ---------------------------------------------------------------- find_file: relative first, then unchanged
    ff = prog.one("Context<AnyLoader>>::find_file")
    dcalls = [(bi, t) for bi, t in ff.calls() if (mir.callee_name(t) or "").endswith("::do_find_file")]
    ctx.floor("do_find_file calls in find_file", len(dcalls), 1)
    rel = unchanged = 0
    S0 = sym.Sym(prog, inline_depth=0)
    for bi, t in dcalls:
        u = sym.strip_transparent(S0.operand(ff, t["args"][1]))
        nm = sym.strip_transparent(S.operand(ff, t["args"][2]))
        if sym.match(u, ("call", "input::context::relative", [("param", 3), ("param", 2)])):
            rel += 1
        elif u == ("param", 2, ()):
            unchanged += 1
        else:
            ctx.fail("F4-url-provenance", f"find_file|do_find_file({sym.show(u)[:80]})", f"do_find_file is given `{sym.show(u)[:200]}`: neither the importer-relative URL nor the URL as spelled", where=ff.where(bi))
    if rel >= 1:
        ctx.ok("F4-url-provenance", "find_file|relative to the importing file first", None)
    else:
        ctx.fail("F4-url-provenance", "find_file|relative to the importing file first", "no lookup of relative(from, url)", where=ff.where())
    if unchanged >= 1:
        ctx.ok("F4-url-provenance", "find_file|then unchanged in the load paths", None)
    else:
        ctx.fail("F4-url-provenance", "find_file|then unchanged in the load paths",
                 "the only lookup passes relative(from, url); for an importer in a subdirectory the URL as spelled is never tried in the load paths", where=ff.where())
    # other callers of do_find_file
    callers = prog.callers_of(dff.def_)
    if callers == [ff.def_]:
        ctx.ok("F8-lookup-callers", "do_find_file called only by find_file", None)
    else:
        ctx.fail("F8-lookup-callers", "do_find_file called only by find_file", f"callers: {callers}")
    # the file read is the one found, named by from.url(path); the read may sit in a helper that find_file calls
    helpers = [prog.bodies[mir.callee_name(t)] for bi, t in ff.calls() if mir.callee_name(t) in prog.bodies
               and mir.callee_name(t).startswith("<input::context::Context<AnyLoader>>::") and mir.callee_name(t) != dff.def_]
    S2 = sym.Sym(prog, force_inline={h.def_ for h in helpers})
    reads = []
    for hb in [ff] + helpers:
        env = None
        if hb is not ff:
            sites = [t for bi, t in ff.calls() if mir.callee_name(t) == hb.def_]
            env = [S2.operand(ff, a) for a in sites[0]["args"]] if len(sites) == 1 else None
        reads += [(hb, bi, t, env) for bi, t in hb.calls() if (mir.callee_name(t) or "").endswith("SourceFile>::read")]
    if len(reads) == 1:
        hb, rb, rt, env = reads[0]
        src = sym.strip_transparent(S2.operand(hb, rt["args"][1], env=env))
        fil = sym.strip_transparent(S2.operand(hb, rt["args"][0], env=env))
        if "do_find_file" in repr(src) and "do_find_file" in repr(fil):
            ctx.ok("F4-read-found-file", "find_file reads the candidate that was found", {"source": sym.show(src)[:160]})
        else:
            ctx.fail("F4-read-found-file", "find_file reads the candidate that was found", f"SourceFile::read gets `{sym.show(fil)[:120]}` named `{sym.show(src)[:160]}`: not the file and path returned by do_find_file", where=hb.where(rb))
    else:
        ctx.anchor_lost("find_file read", f"expected one SourceFile::read in find_file (or a helper it calls), found {len(reads)}")
    # ---------------------------------------------------------------- plain css fallback predicate (Import arm)
    hi = prog.one("output::transform::handle_item")
    pre, suf, css_url = url_literals(prog, hi)
    if pre == FALLBACK_PREFIXES and suf == FALLBACK_SUFFIXES and css_url == 1:
        ctx.ok("F5-plain-css-import", "fallback predicate", {"prefixes": sorted(pre), "suffixes": sorted(suf), "is_css_url": css_url})
    else:
        ctx.fail("F5-plain-css-import", "fallback predicate", f"plain-CSS @import is decided by prefixes {sorted(pre)}, suffixes {sorted(suf)}, is_css_url×{css_url}; expected {sorted(FALLBACK_PREFIXES)}, {sorted(FALLBACK_SUFFIXES)}, 1", where=hi.where())
    # ---------------------------------------------------------------- load path order (both loaders)
    from rules import C40
    C40.fsloader_rules(ctx, prog)
    cl = prog.one("<input::cargoloader::CargoLoader as input::loader::Loader>::find_file")
    its = []
    for bi, t in cl.calls():
        if (mir.callee_orig(t) or "") == "std::iter::Iterator::next":
            its.append(sym.strip_transparent(S.operand(cl, t["args"][0])))
    ok = any(i[0] == "call" and i[1].endswith("IntoIterator>::into_iter") and sym.strip_transparent(i[2][0]) == ("param", 1, (".path",)) for i in its)
    if ok:
        ctx.ok("F4-load-path-order", "CargoLoader::find_file iterates self.path forward", None)
    else:
        ctx.fail("F4-load-path-order", "CargoLoader::find_file iterates self.path forward", f"iterators: {[sym.show(i)[:80] for i in its]}", where=cl.where())
    ctx.explanation = ("Candidate tables read from the closure arrays of Context::find_file (AST, templates normalised over base/name) and compared with the statement's lists; "
                       "provenance (MIR) of every Loader::find_file argument and of do_find_file's URL; first-hit return on the CFG; literal sets of the extension shortcut and of the plain-CSS fallback; "
                       "forward iteration of the load-path vectors in FsLoader and CargoLoader, append-only push_path.")


def url_literals(prog, body, param_filter=None):
    """(prefixes, suffixes, is_css_url calls) tested on a url in `body`, looking through local bool
    predicates on strings (a shared `has_stylesheet_ext(url)` helper) and their closures."""
    pre, suf = set(), set()
    css_url = 0
    seen = set()

    S0 = sym.Sym(prog, inline_depth=0)

    def about_import(b, t, depth):
        """at the top level (handle_item) only tests of the imported name count, not string tests of other
        item arms (e.g. the `!` test of a comment's text)"""
        if depth > 0 or not b.def_.endswith("transform::handle_item"):
            return True
        return "as Import" in repr(S0.operand(b, t["args"][0]))

    def scan(b, depth):
        nonlocal css_url
        if b.def_ in seen or depth > 2:
            return
        seen.add(b.def_)
        direct = False
        for bi, t in b.calls():
            n = mir.callee_name(t) or ""
            if (n.endswith("<str>::starts_with") or n.endswith("<str>::ends_with")) and not about_import(b, t, depth):
                continue
            if n.endswith("<str>::starts_with"):
                if t["args"][1].get("v"):
                    pre.add(t["args"][1]["v"])
                    direct = True
            elif n.endswith("<str>::ends_with"):
                if t["args"][1].get("v"):
                    suf.add(t["args"][1]["v"])
                    direct = True
            elif n.endswith("::is_css_url"):
                css_url += 1
            elif n in prog.bodies and prog.bodies[n].ret == "bool" and depth < 2 and any("str" in x for x in t.get("arg_tys", [])) and not n.startswith("<"):
                scan(prog.bodies[n], depth + 1)
        if depth > 0:
            # literals of a helper predicate (also when they sit in an array that a closure walks)
            for c in list(mir.iter_consts_body(b.raw)) + [c for cl in prog.closures_of(b.def_) for c in mir.iter_consts_body(cl.raw)]:
                v = c.get("v")
                if isinstance(v, str) and 1 < len(v) < 12:
                    if v.startswith("."):
                        suf.add(v)
                    elif v.endswith("/") or v.endswith(":"):
                        pre.add(v)
            for cl in prog.closures_of(b.def_):
                scan(cl, depth)
    scan(body, 0)
    return pre, suf, css_url


FIRST_HIT_ADAPTERS = ("std::iter::Iterator::find_map", "std::iter::Iterator::find", "std::iter::Iterator::try_for_each", "std::iter::Iterator::try_fold")
ORDER_ADAPTERS = ("::rev", "::skip", "::step_by", "::take", "::skip_while", "::take_while", "::filter", "::chain", "::cycle", "::zip", "::peekable", "::last", "::nth")


def candidate_term(t):
    """A candidate name built from the rule table in table order, in either spelling:
         names.iter().map(|f| f(base, name)).next()            (payload of next over a mapped iterator)
         rule(base, name) with rule = names.into_iter().next() (call of the iterated rule)
    The iterator must walk `names` (parameter 3) forward without reordering / skipping adapters."""
    s = repr(t)
    fl = flatten(t)
    if "Iterator>::next" not in s or ("param", 3, ()) not in fl:
        return False
    if any(x[0] == "call" and any(x[1].endswith(a) or (a + "<") in x[1] for a in ORDER_ADAPTERS) for x in fl):
        return False
    mapped = t[0] == "proj" and "closure" in s
    called = t[0] == "call" and re.search(r"ops::Fn(Mut|Once)?<A>>::call(_mut|_once)?$", t[1]) is not None and "Iterator>::next" in repr(t[2][0])
    return mapped or called


def flatten(t):
    out = []

    def rec(x):
        if isinstance(x, tuple):
            if x and isinstance(x[0], str):
                out.append(x)
            for y in x:
                if isinstance(y, tuple):
                    rec(y)
    rec(t)
    return out
