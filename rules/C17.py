"""C17 (partial) — structural clauses of the control-flow directives.

Which iterations run for given runtime values is value-level and NOT decided.  Decided:

 (i)   @for keyword table: the range parser maps `through` to inclusive = true and `to` to
       inclusive = false, and SrcRange::evaluate hands exactly that flag, the evaluated bounds
       and the unit of the *from* value to ValueRange::new;
 (ii)  ValueRange::new: the step is +1 / -1 selected by comparing `to` with `from` (counts down
       when to < from); an inclusive range extends `to` by one *step* (not by a constant), an
       exclusive one leaves it;  ValueRange::next yields the current `from` and then advances
       it by `step` (value produced before the increment);
 (iii) both interpreters of sass::Item (handle_item, ScopeRef::eval_body):
       @if evaluates its condition once and runs `do_if` exactly when it `is_true()`, `do_else`
       otherwise; @while re-evaluates the condition in the loop header (every iteration) and
       tests `is_true()`; @each binds the loop names with define_multi before the body, once per
       element of `iter_items()`; @for defines the loop variable before the body for every value
       of the range;
 (iv)  @each destructuring binds every loop variable: the binding loop of Scope::define_multi is driven
       by the names (alone, or zipped with a value side padded by an unbounded repeat of null).
"""
from lib import ast as A

INTERPRETERS = (("output::transform::handle_item", None), ("variablescope::ScopeRef", "eval_body"))
BODY_RUNNERS = ("handle_body", "eval_body")


def unblock(n):
    n = A.strip(n)
    while isinstance(n, dict) and n.get("e") == "block" and len(n["stmts"]) == 1 and n["stmts"][0].get("s") == "expr":
        n = A.strip(n["stmts"][0]["x"])
    return n


def mcalls(n, name=None):
    return [x for x in A.walk(n) if x.get("e") == "mcall" and (name is None or x["m"] == name)]


def body_runs(n, var):
    """calls that run an item body `var` (handle_body(var, ..) / x.eval_body(var))"""
    out = []
    for x in A.walk(n):
        if x.get("e") == "call" and x["f"].get("e") == "path" and x["f"]["p"].rsplit("::", 1)[-1] in BODY_RUNNERS:
            if any(A.strip(a).get("e") == "path" and A.strip(a)["p"] == var for a in x["args"]):
                out.append(x)
        if x.get("e") == "mcall" and x["m"] in BODY_RUNNERS:
            if any(A.strip(a).get("e") == "path" and A.strip(a)["p"] == var for a in x["args"]):
                out.append(x)
    return out


def item_arms(tree, path, method):
    f = tree.fn(path) if method is None else tree.one_method(path, method)
    out = {}
    prefix = f["path"].rsplit("::", 1)[0].split("<")[0]
    if not prefix.endswith("::"):
        prefix = (prefix + "::") if prefix else ""
    for n in A.walk(f["body"]):
        if n.get("e") == "match":
            for arm in n["arms"]:
                p = arm["pat"]
                if p.get("p") in ("tstruct", "struct") and p["v"].startswith("Item::"):
                    # an arm that only calls a local helper is read through the helper
                    arm2 = dict(arm, body=A.delegated_body(tree, arm["body"], prefix))
                    out.setdefault(p["v"].split("::")[1], arm2)
    return f, out


def binders(p):
    return [x.get("n") if x.get("p") == "bind" else None for x in p.get("xs", [])]


def range_rules(ctx, tree):
    # ---- (i) keyword table
    sr = [f for f in tree.fn_list if f["path"].endswith("srcrange::parser::src_range")]
    if len(sr) != 1:
        ctx.anchor_lost("src_range parser", f"found {len(sr)}")
    else:
        table = {}
        # src_range and the helpers of its module it is split into
        mod = sr[0]["path"].rsplit("::", 1)[0]
        local = {f["path"].rsplit("::", 1)[1]: f for f in tree.fn_list if f["path"].rsplit("::", 1)[0] == mod}
        todo, fam = [sr[0]], []
        while todo:
            f = todo.pop()
            if any(f is g for g in fam):
                continue
            fam.append(f)
            for n in A.walk(f["body"]):
                if n.get("e") in ("call", "path"):
                    pth = n["f"]["p"] if n.get("e") == "call" and n["f"].get("e") == "path" else n.get("p") if n.get("e") == "path" else None
                    if pth and pth.rsplit("::", 1)[-1] in local:
                        todo.append(local[pth.rsplit("::", 1)[-1]])
        for n in (x for f in fam for x in A.walk(f["body"])):
            if n.get("e") == "call" and n["f"].get("e") == "path" and n["f"]["p"].rsplit("::", 1)[-1] == "value" and len(n["args"]) == 2:
                v, t = A.strip(n["args"][0]), A.strip(n["args"][1])
                if v.get("e") == "lit" and v.get("t") == "bool" and t.get("e") == "call" and t["args"]:
                    kw = A.lit_str(A.strip(t["args"][0]))
                    if kw:
                        table[kw] = bool(v["v"])
        for kw, want in (("through", True), ("to", False)):
            if table.get(kw) is want:
                ctx.ok("F5-for-keyword", f"`{kw}` -> inclusive = {str(want).lower()}", None)
            else:
                ctx.fail("F5-for-keyword", f"`{kw}` -> inclusive = {str(want).lower()}", f"the @for range parser maps `{kw}` to inclusive = {table.get(kw)}: `through` must include the end value and `to` must stop before it", where=sr[0]["path"])
        # the flag lands in the field that evaluate() passes on
        lits = [n for n in A.walk(sr[0]["body"]) if n.get("e") == "struct" and n["p"].endswith("SrcRange")]
        if lits and any(k == "inclusive" and A.show(v).strip() == "inclusive" for k, v in lits[0]["fields"]):
            ctx.ok("F4-for-flag", "parsed flag stored in SrcRange.inclusive", None)
        else:
            ctx.fail("F4-for-flag", "parsed flag stored in SrcRange.inclusive", "the parsed through/to flag is not stored in SrcRange.inclusive", where=sr[0]["path"])
    ev = tree.one_method("sass::srcrange::SrcRange", "evaluate")
    news = [n for n in A.walk(ev["body"]) if n.get("e") == "call" and n["f"].get("e") == "path" and n["f"]["p"].endswith("ValueRange::new")]
    if len(news) != 1 or len(news[0]["args"]) != 4:
        ctx.anchor_lost("SrcRange::evaluate -> ValueRange::new", f"found {len(news)} calls")
    else:
        args = [A.show(a).replace(" ", "") for a in news[0]["args"]]
        # from / to / unit are the names bound from the two eval_map calls: (from, unit) first, to second
        lets = [s for s in ev["body"]["stmts"] if s.get("s") == "let"]
        first = lets[0]["pat"] if lets else {}
        names = binders(first) if first.get("p") == "tuple" else []
        good = args[2] == "self.inclusive" and len(names) == 2 and args[0] == names[0] and args[3] == names[1] and "self.from" in A.show(lets[0]["init"]).replace(" ", "") \
            and len(lets) > 1 and lets[1]["pat"].get("n") == args[1] and "self.to" in A.show(lets[1]["init"]).replace(" ", "")
        if good:
            ctx.ok("F4-for-flag", "ValueRange::new(from, to, self.inclusive, unit of from)", None)
        else:
            ctx.fail("F4-for-flag", "ValueRange::new(from, to, self.inclusive, unit of from)", f"SrcRange::evaluate builds the range from ({', '.join(args)}): expected the evaluated `from`, the evaluated `to`, self.inclusive and the unit of the from value", where=ev["path"])
    # ---- (ii) ValueRange
    new = tree.one_method("value::range::ValueRange", "new")
    prm = [p.get("pat", {}).get("n") for p in new["sig"]["params"]]
    if len(prm) != 4 or not all(prm):
        ctx.anchor_lost("ValueRange::new signature", str(prm))
        return
    p_from, p_to, p_incl, _ = prm
    lets = {s["pat"].get("n"): unblock(s["init"]) for s in new["body"]["stmts"] if s.get("s") == "let" and s["pat"].get("p") == "bind" and s.get("init") is not None}
    # the step: a local initialised by `if to >= from { 1 } else { -1 }` (or the mirrored comparison)
    step_name, ok_step = None, False
    for name, init in lets.items():
        if init.get("e") == "if" and init.get("else") is not None:
            c = A.strip(init["cond"])
            t, e = unblock(init["then"]), unblock(init["else"])
            vals = (A.show(t).replace(" ", ""), A.show(e).replace(" ", ""))
            if c.get("e") == "bin" and {A.show(c["l"]).strip(), A.show(c["r"]).strip()} == {p_from, p_to} and set(vals) == {"1", "-1"}:
                step_name = name
                l, r, op = A.show(c["l"]).strip(), A.show(c["r"]).strip(), c["op"]
                up_when_true = (l == p_to and op in (">=", ">")) or (l == p_from and op in ("<=", "<"))
                down_when_true = (l == p_to and op in ("<", "<=")) or (l == p_from and op in (">", ">="))
                ok_step = (up_when_true and vals == ("1", "-1")) or (down_when_true and vals == ("-1", "1"))
    if step_name is None:
        ctx.anchor_lost("ValueRange::new step", "no `let step = if <to ? from> { 1 } else { -1 }`")
        return
    if ok_step:
        ctx.ok("F5-range-step", "step = +1 when to >= from, -1 when to < from", None)
    else:
        ctx.fail("F5-range-step", "step = +1 when to >= from, -1 when to < from", f"ValueRange::new selects the step as `{A.show(lets[step_name])[:80]}`: @for must count up when the end is above the start and down when it is below", where=new["path"])
    # inclusive extends `to` by one step
    ext = None
    for name, init in lets.items():
        if init.get("e") == "if" and A.show(init["cond"]).strip() in (p_incl, "!" + p_incl) and init.get("else") is not None:
            ext = init
    if ext is None:
        ctx.anchor_lost("ValueRange::new inclusive adjustment", f"no `if {p_incl} {{ .. }} else {{ .. }}` initialiser")
    else:
        neg = A.show(ext["cond"]).strip().startswith("!")
        a, b = unblock(ext["then"]), unblock(ext["else"])
        incl_e, excl_e = (b, a) if neg else (a, b)
        incl_s, excl_s = A.show(incl_e).replace(" ", ""), A.show(excl_e).replace(" ", "")
        # `to + step`, also through an overflow-aware addition (saturating_add / wrapping_add / checked forms unwrapped with `to`)
        adds = [f"({p_to}+{step_name})", f"({step_name}+{p_to})"] + [f"{x}.{m}({y})" for m in ("saturating_add", "wrapping_add") for x, y in ((p_to, step_name), (step_name, p_to))]
        good = incl_s in adds and excl_s == p_to
        if good:
            ctx.ok("F5-range-inclusive", "through: to + step; to: to", None)
        else:
            ctx.fail("F5-range-inclusive", "through: to + step; to: to", f"ValueRange::new computes the end as `{incl_s}` for `through` and `{excl_s}` for `to`: an inclusive range must end one *step* past the end value (in the direction of the step), an exclusive one at the end value", where=new["path"])
    nx = tree.one_method("value::range::ValueRange", "next", trait="Iterator")
    stmts_txt = [A.show(s.get("x") or s.get("init") or {}).replace(" ", "") for n in A.walk(nx["body"]) if n.get("e") == "block" for s in n["stmts"]]
    try:
        i_res = next(i for i, t in enumerate(stmts_txt) if "self.from" in t and "Numeric::new" in t)
        i_inc = next(i for i, t in enumerate(stmts_txt) if t.startswith("(self.from+=self.step)") or t.startswith("self.from+=self.step") or t == "(self.from+=self.step)")
        if i_res < i_inc:
            ctx.ok("F3-range-next", "next() yields self.from, then advances it by self.step", None)
        else:
            ctx.fail("F3-range-next", "next() yields self.from, then advances it by self.step", "ValueRange::next advances before it builds the value: the first value of @for is skipped", where=nx["path"])
    except StopIteration:
        ctx.anchor_lost("ValueRange::next shape", "no `Numeric::new(self.from, ..)` followed by `self.from += self.step`")


def interpreter_rules(ctx, tree):
    for path, method in INTERPRETERS:
        try:
            f, arms = item_arms(tree, path, method)
        except A.AnchorLost as e:
            ctx.anchor_lost(f"{path}{'::' + method if method else ''}", str(e))
            continue
        who = "handle_item" if method is None else "eval_body"
        # ---- @if
        arm = arms.get("IfStatement")
        if arm is None or len(binders(arm["pat"])) != 3 or not all(binders(arm["pat"])):
            ctx.anchor_lost(f"{who} IfStatement arm", "not found")
        else:
            cond, do_if, do_else = binders(arm["pat"])
            body = arm["body"]
            evals = [m for m in mcalls(body, "evaluate") if A.show(m["recv"]).strip() == cond]
            tests = [m for m in mcalls(body, "is_true") if any(x is e for e in evals for x in A.walk(m["recv"]))]
            ok = len(evals) == 1 and len(tests) == 1
            why = ""
            if not ok:
                why = f"the condition is evaluated {len(evals)} time(s) and tested with is_true() {len(tests)} time(s)"
            else:
                # either `if <test> { run(do_if) } else { run(do_else) }` or `let items = if <test> { do_if } else { do_else }; run(items)`
                sel = None
                flag = None
                for s in A.walk(body):
                    if s.get("s") == "let" and s.get("init") is not None and any(x is tests[0] for x in A.walk(s["init"])) and s["pat"].get("p") == "bind" and unblock(s["init"]) is not None and unblock(s["init"]).get("e") != "if":
                        flag = s["pat"]["n"]
                for n in A.walk(body):
                    if n.get("e") == "if" and n.get("else") is not None:
                        c = A.strip(n["cond"])
                        if any(x is tests[0] for x in A.walk(c)) or (flag and A.show(c).strip() == flag):
                            sel = n
                if sel is None:
                    ok, why = False, "no two-way selection on the truthiness of the condition"
                else:
                    neg = A.show(sel["cond"]).strip().startswith("!")
                    t_names = {x["p"] for x in A.walk(sel["then"]) if x.get("e") == "path"}
                    e_names = {x["p"] for x in A.walk(sel["else"]) if x.get("e") == "path"}
                    want_t, want_e = (do_else, do_if) if neg else (do_if, do_else)
                    if not (want_t in t_names and want_e not in t_names and want_e in e_names and want_t not in e_names):
                        ok, why = False, f"the truthy branch mentions {sorted(t_names & {do_if, do_else})} and the falsy branch {sorted(e_names & {do_if, do_else})}"
            key = f"{who}|@if runs do_if iff the condition is_true(), else do_else"
            (ctx.ok if ok else ctx.fail)("F5-if-selection", key, *([None] if ok else [f"{who}: {why}", f["path"]]))
        # ---- @while
        arm = arms.get("While")
        if arm is None or len(binders(arm["pat"])) != 2:
            ctx.anchor_lost(f"{who} While arm", "not found")
        else:
            cond, wbody = binders(arm["pat"])
            loops = [n for n in A.walk(arm["body"]) if n.get("e") in ("while", "loop")]
            ok, why = False, "no loop"
            for lp in loops:
                header = lp["cond"] if lp.get("e") == "while" else lp["body"]
                ev = [m for m in mcalls(header, "evaluate") if A.show(m["recv"]).strip() == cond]
                ts = [m for m in mcalls(header, "is_true") if any(x is e for e in ev for x in A.walk(m["recv"]))]
                runs = body_runs(lp["body"], wbody)
                if ev and ts and runs and not A.show(lp["cond"] if lp.get("e") == "while" else {}).strip().startswith("!"):
                    ok = True
                else:
                    why = f"condition evaluated in the loop header: {bool(ev)}, tested with is_true(): {bool(ts)}, body run inside the loop: {bool(runs)}"
            key = f"{who}|@while re-evaluates the condition every iteration"
            (ctx.ok if ok else ctx.fail)("F3-while-reevaluates", key, *([None] if ok else [f"{who}: {why}", f["path"]]))
        # ---- @each / @for
        for kind, definer, src in (("Each", "define_multi", "iter_items"), ("For", "define", None)):
            arm = arms.get(kind)
            if arm is None or len(binders(arm["pat"])) != 3:
                ctx.anchor_lost(f"{who} {kind} arm", "not found")
                continue
            names, values, lbody = binders(arm["pat"])
            fors = [n for n in A.walk(arm["body"]) if n.get("e") == "for"]
            ok, why = False, "no `for` loop"
            for lp in fors:
                defs = [m for m in mcalls(lp["body"], definer) if m["args"] and names in A.show(m["args"][0])]
                runs = body_runs(lp["body"], lbody)
                it_ok = True
                if src is not None:
                    it_ok = any(m["m"] == src for m in mcalls(lp["iter"])) and any(A.show(m["recv"]).strip() == values for m in mcalls(lp["iter"], "evaluate"))
                order_ok = False
                if defs and runs:
                    order = [id(x) for x in A.walk(lp["body"])]
                    order_ok = order.index(id(defs[0])) < order.index(id(runs[0]))
                if defs and runs and it_ok and order_ok:
                    ok = True
                else:
                    why = f"binds with {definer}: {bool(defs)}, runs the body: {bool(runs)}, binding precedes the body: {order_ok}, iterates {src or 'the range'}: {it_ok}"
            key = f"{who}|@{kind.lower()} binds the loop variable(s) before each run of the body"
            (ctx.ok if ok else ctx.fail)("F3-loop-binding", key, *([None] if ok else [f"{who}: {why}", f["path"]]))


def destructuring_rule(ctx, F):
    """(iv) @each destructuring binds EVERY loop variable: in Scope::define_multi the loop that defines the
    variables is driven by `names` — either it iterates names alone, or it zips names with a value
    side that is padded without bound (`chain(repeat(Null))`), so that missing positions become null.
    A loop driven by the element's items (zip of two finite sides, plus a one-off fix-up) leaves the
    later variables unbound."""
    import re
    from lib import mir, sym
    prog = F.lib
    S = sym.Sym(prog, inline_depth=0)
    b = prog.one("<variablescope::Scope>::define_multi")
    loops = []
    for bi, t in b.calls():
        if (mir.callee_orig(t) or "") != "std::iter::Iterator::next":
            continue
        it = sym.strip_transparent(S.operand(b, t["args"][0]))
        # is this the loop that defines variables? a define call uses the item
        uses = [b2 for b2, t2 in b.calls() if (mir.callee_name(t2) or "").endswith("Scope>::define") and any("Iterator>::next" in repr(S.operand(b, a)) for a in t2["args"])]
        in_loop = any(bi in b.reachable_blocks(nx) for nx in b.successors(bi))
        if uses and in_loop:
            loops.append((bi, it))
    # internal iteration: `<iterator>.try_for_each(|(name, item)| self.define(name, item))`
    for bi, t in b.calls():
        if (mir.callee_orig(t) or "") in ("std::iter::Iterator::try_for_each", "std::iter::Iterator::for_each") and len(t["args"]) == 2:
            cl = S.operand(b, t["args"][1])
            cdef = cl[1] if isinstance(cl, tuple) and cl[0] == "closure" else None
            m_ = re.search(r"\('closure', '([^']+)'", repr(cl))
            cdef = cdef or (m_.group(1) if m_ else None)
            cb = prog.bodies.get(cdef) if cdef else None
            if cb is not None and any((mir.callee_name(t2) or "").endswith("Scope>::define") for _, t2 in cb.calls()):
                loops.append((bi, sym.strip_transparent(S.operand(b, t["args"][0]))))
    if len(loops) != 1:
        ctx.anchor_lost("define_multi binding loop", f"expected one loop whose items are passed to define, found {len(loops)}")
        return
    bi, it = loops[0]
    key = "define_multi|every loop variable is bound (missing positions to null)"

    def names_side(t):
        return "('param', 2, ())" in repr(t)

    def unbounded(t):
        r = repr(t)
        return any(x in r for x in ("iter::repeat", "'repeat'", "std::iter::repeat", "repeat_with", "Iterator::cycle")) and "Null" in r
    zips = [x for x in _terms(it) if x[0] == "call" and x[1].endswith("Iterator::zip") and len(x[2]) == 2]
    ok, why = False, ""
    if zips:
        a, c = zips[0][2]
        if names_side(a) and not names_side(c):
            ok = unbounded(c)
            why = "" if ok else f"the value side `{sym.show(c)[:120]}` is finite: names beyond the element's items are never bound"
        elif names_side(c) and not names_side(a):
            ok = unbounded(a)
            why = "" if ok else f"the value side `{sym.show(a)[:120]}` is finite: names beyond the element's items are never bound"
        else:
            why = "cannot tell the names side of the zip"
    else:
        ok = names_side(it)
        why = "" if ok else f"the binding loop iterates `{sym.show(it)[:120]}`, not the loop variable names"
    if ok:
        ctx.ok("F4-each-destructuring", key, sym.show(it)[:160])
    else:
        ctx.fail("F4-each-destructuring", key, f"Scope::define_multi: {why}; `@each $a, $b, $c in ..` must bind every variable, the missing positions to null", where=b.where(bi))


def _terms(t):
    out = []

    def rec(x):
        if isinstance(x, tuple):
            if x and isinstance(x[0], str):
                out.append(x)
            for y in x:
                if isinstance(y, tuple):
                    rec(y)
    rec(t)
    return out


def run(ctx, F):
    ctx.explanation = ("C17, structural clauses only (the visited iterations themselves are value-level and not decided): through/to keyword table and flag provenance, "
                       "ValueRange step selection / inclusive adjustment / yield-then-advance, and the shape of the @if/@while/@each/@for arms of both item interpreters (AST)")
    tree = F.ast
    range_rules(ctx, tree)
    interpreter_rules(ctx, tree)
    destructuring_rule(ctx, F)
