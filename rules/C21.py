"""C21 — evaluated content is never silently dropped (F2 error flow, whole library).

Decides: no `Result` carrying a destination / evaluation error is absorbed on the
way to the compile result, in any function of the library (every call site, every
path), except at reviewed sites; and the `CssDestination::push_item` tables drop
nothing but separators.
"""
import json
import os

from lib import errflow, mir, ast as A
from lib.keys import Ordinals, fn_key

HERE = os.path.dirname(os.path.abspath(__file__))
TABLE = os.path.join(os.path.dirname(HERE), "tables", "errflow_reviewed.json")

DEST_METHODS = ("push_item", "push_property", "push_custom_property", "start_rule", "start_nsrule")


def sites_of(prog):
    out = []
    for b in sorted(prog.bodies.values(), key=lambda b: b.def_):
        for s in errflow.analyse_body(b):
            out.append(s)
    return out


TAGS = {
    "match/if-let: Err edge reaches a normal return": "err-arm-continues",
    "Result::or_else (error handed to a fallback)": "or_else",
}


def consumer_descr(c):
    kind, what = c[0], c[1]
    return f"{kind}:{TAGS.get(what, what)}"


def judge(ctx, prog, sites, reviewed, rule="F2-absorb", scope_note=""):
    ords = Ordinals()
    n_dest = 0
    for s in sites:
        v = errflow.verdict(s)
        callee = s.callee
        if "CssDestination" in callee and callee.rsplit("::", 1)[-1] in DEST_METHODS:
            n_dest += 1
        base = f"{fn_key(s.body.def_, prog)}|{callee}"
        if v in ("propagate", "panics"):
            ctx.ok(rule, ords.key(base + "|" + v), None)
            continue
        bad = [c for c in s.consumers if c[0] in ("absorb", "escape")]
        if any(c[0] == "absorb" for c in bad):
            bad = [c for c in bad if c[0] == "absorb"]
        descr = ";".join(sorted({consumer_descr(c) for c in bad}))
        key = ords.key(f"{base}|{descr}")
        if key in reviewed:
            ctx.reviewed(rule, key, reviewed[key])
            continue
        where = f"{s.body.file}:{s.line}"
        path = None
        for c in bad:
            if c[3]:
                path = [f"bb{x}" for x in c[3]]
        ctx.fail(rule, key, f"the Result<_, {s.err}> returned by {callee} in {fn_key(s.body.def_)} is {'absorbed' if v == 'absorb' else 'handed to an untracked place'} ({descr}): an error here does not reach the caller", where=where, path=path)
    return n_dest


def run(ctx, F):
    prog = F.lib
    reviewed = {r["key"]: r["reason"] for r in json.load(open(TABLE))["reviewed"]}
    sites = sites_of(prog)
    n_dest = judge(ctx, prog, sites, reviewed)
    ctx.units["bodies"] = len(prog.bodies)
    ctx.units["result_call_sites"] = len(sites)
    ctx.floor("result-producing call sites", len(sites), 2300)
    ctx.floor("CssDestination fallible method call sites", n_dest, 15)
    push_item_tables(ctx, F)
    sink_rule(ctx, F)
    arm_effects(ctx, F)
    function_interpreter_arms(ctx, F)
    writers_always_emit(ctx, F)
    ctx.explanation = ("F2 error flow over every MIR body of the rsass library: each call returning Result<_, E> (E not a nom parser error) "
                       "is followed to its consumers; `?`/return/transfer propagate, ok()/unwrap_or*/is_err/if-let-without-error/dropped-unread absorb. "
                       "Absorbing sites must be in tables/errflow_reviewed.json (exact key) or known_findings.json. Plus: push_item decision tables drop only "
                       "Item::Separator; every output-producing arm of handle_item reaches a destination sink on all success paths except under reviewed guards.")
    ctx.assumptions += ["std Result/Option adapters behave as documented (map/map_err/and_then keep the error)",
                        "errors stored into aggregates or passed to non-Result-returning functions are reported as 'escape' and must be reviewed"]


def push_item_tables(ctx, F):
    """F5: in every `push_item` implementation the only arms that return early / do nothing are `Item::Separator`."""
    tree = F.ast
    impls = [f for f in tree.fn_list if f["sig"]["name"] == "push_item" and f.get("_impl") and (f["_impl"]["trait"] or "").endswith("CssDestination")]
    ctx.floor("CssDestination::push_item implementations", len(impls), 5)
    variants = [v["name"] for v in tree.enum("css::item::Item")["variants"]] if False else None
    try:
        item_enum = tree.enum("item::Item")
    except A.AnchorLost:
        cands = [e for p, e in tree.enums.items() if p.endswith("css::item::Item")]
        if len(cands) != 1:
            raise
        item_enum = cands[0]
    variants = [v["name"] for v in item_enum["variants"]]
    for f in impls:
        self_ty = f["_impl"]["self_ty"].split("<")[0].strip()
        matches = [n for n in A.walk(f["body"]) if n.get("e") == "match"]
        top = [m for m in matches if A.show(A.strip(m["on"])) in ("item",)]
        if not top:
            # NsRuleDest rejects everything, CssData stores everything: no table to check
            body_txt = A.show(f["body"])
            ctx.ok("F5-push_item-table", f"{self_ty}|no-match", {"body": body_txt[:80]})
            continue
        m = top[0]
        for v in variants:
            arms = A.select_arms(m, v)
            if not arms:
                ctx.fail("F5-push_item-table", f"{self_ty}|{v}|no-arm", f"{self_ty}::push_item has no arm for Item::{v}")
                continue
            for arm, cert in arms:
                body = A.strip(arm["body"])
                drops = False
                if body.get("e") == "tuple" and not body["xs"]:
                    drops = True          # `=> ()`
                if body.get("e") == "ret" and "Ok" in A.show(body["x"]):
                    drops = True          # `=> return Ok(())`
                if body.get("e") == "block" and not body["stmts"]:
                    drops = True
                key = f"{self_ty}|{v}"
                if drops and v != "Separator":
                    ctx.fail("F5-push_item-table", key, f"{self_ty}::push_item discards Item::{v} without error ({A.showpat(arm['pat'])} => {A.show(body)})")
                else:
                    ctx.ok("F5-push_item-table", key, None)


def sink_rule(ctx, F):
    """F3 — loops over source items run to completion: in the statement evaluator (module
    output::*) a loop that walks a collection of items / names / values must not be left by a
    *successful* return from inside its body: the remaining elements would be skipped silently."""
    from lib import cfgutil
    prog = F.lib
    n_loops = 0
    for b in sorted(prog.bodies.values(), key=lambda b: b.def_):
        if not (b.def_.startswith("output::transform::") or b.def_.startswith("<output::cssd")):
            continue
        err = set(cfgutil.error_exit_blocks(b))
        # `return Err(x).at(pos)` / `.no_pos()`: a call that turns an Err aggregate into the function's result
        S_ = None
        for bi, t in b.calls():
            if t["dest"][0] == 0 and not t["dest"][1]:
                if S_ is None:
                    from lib import sym as _sym
                    S_ = _sym.Sym(prog, inline_depth=0)
                if any("result::Result::Err" in repr(S_.operand(b, a)) for a in t["args"]):
                    err.add(bi)
        for bi, t in b.calls():
            if (mir.callee_orig(t) or "") != "std::iter::Iterator::next" or t.get("target") is None:
                continue
            # the Some edge of the switch on next()'s result
            sw = b.blocks[t["target"]]["term"]
            if sw["k"] != "switch" or not sw.get("discr_of") or sw["discr_of"][0] != t["dest"][0]:
                continue
            names = {nm: tg for _, tg, nm in sw["targets"]}
            some = names.get("Some")
            if some is None:
                continue
            n_loops += 1
            # is this really a loop? the header must be reachable again from the body
            body = b.reachable_blocks(some, avoid=(bi,))
            is_loop = any(bi in b.successors(x) for x in body)
            if not is_loop:
                continue
            p = cfgutil.paths_to_return_avoiding(b, some, {bi} | err)
            key = f"{b.def_}|loop#{n_loops}@{iter_descr(b, t)}"
            if p:
                ctx.fail("F3-loop-completes", key, f"in {b.def_} the loop over {iter_descr(b, t)} can be left by a successful return from inside its body: the remaining elements are never evaluated and nothing is reported", where=b.where(p[-2] if len(p) > 1 else bi), path=[f"bb{x}" for x in p[:12]])
            else:
                ctx.ok("F3-loop-completes", key, None)
    ctx.floor("item loops in the statement evaluator", n_loops, 5)


FUNCTION_SKIP_REVIEWED = {"None": "the empty item", "Comment": "comments have no effect in a function body"}


def function_interpreter_arms(ctx, F):
    """The second interpreter of `Item` (ScopeRef::eval_body, function bodies): an arm that produces no
    value, no definition, no diagnostic and no error may only select the reviewed item kinds; in
    particular the catch-all must be an error, otherwise every item kind it covers is dropped silently."""
    tree = F.ast
    f = tree.one_method("variablescope::ScopeRef", "eval_body")
    ms = [n for n in A.walk(f["body"]) if n.get("e") == "match" and any("Item::" in A.showpat(a["pat"]) for a in n["arms"])]
    if not ms:
        ctx.anchor_lost("ScopeRef::eval_body item match", "no match over Item found")
        return
    m = ms[0]
    n = 0
    for arm in m["arms"]:
        body = A.strip(arm["body"])
        while body.get("e") == "block" and len(body["stmts"]) == 1 and body["stmts"][0].get("s") == "expr":
            body = A.strip(body["stmts"][0]["x"])
        silent = body.get("e") == "path" and body["p"].rsplit("::", 1)[-1] == "None"
        pats = arm["pat"]["xs"] if arm["pat"].get("p") == "or" else [arm["pat"]]
        for pt in pats:
            n += 1
            label = A.showpat(pt)
            if not silent:
                ctx.ok("F5-function-arm-effect", f"eval_body|{label.split('(')[0].split('{')[0].strip()}", None)
                continue
            kind = pt.get("v", "").rsplit("::", 1)[-1] if pt.get("p") in ("path", "tstruct", "struct") else None
            if kind in FUNCTION_SKIP_REVIEWED:
                ctx.reviewed("F5-function-arm-effect", f"eval_body|Item::{kind} has no effect", FUNCTION_SKIP_REVIEWED[kind])
            else:
                what = "the catch-all arm" if pt.get("p") in ("wild", "bind") else f"the arm `{label[:40]}`"
                ctx.fail("F5-function-arm-effect", f"eval_body|{'catch-all' if pt.get('p') in ('wild', 'bind') else label[:40]} has no effect",
                         f"{what} of ScopeRef::eval_body evaluates to `None` without any effect: every item kind it covers is silently dropped from function bodies "
                         "(the interpreter of nested control-flow bodies is the only place these are seen)", where=f["path"])
    ctx.floor("eval_body arms", n, 10)


WRITER_SILENT_REVIEWED = {
    "<css::item::Item>::write": "Item::None (and items that were merged away) write nothing by design",
    "<css::comment::Comment>::write": "in compressed style only `/*! ... */` comments are written (which comments are kept is C36's rule; that comment text never reaches compressed output otherwise is C07's)",
    "<css::mediarule::MediaArgs>::write": "an empty media query list writes nothing",
    "<css::mediarule::MediaRule>::write": "a @media rule whose body is empty is omitted (Sass semantics)",
    "<css::rule::Rule>::write": "a style rule without body, or whose selectors were all placeholders (C22), is omitted",
}
_EMIT = None


def writers_always_emit(ctx, F, rule="F3-writer-emits"):
    """Write-time drops: every `write` method of the css item types emits something on every success path,
    except the reviewed omissions.  A new early `return Ok(())` under a data predicate (e.g. "this block has no
    visible content") silently removes evaluated content — comments included — from the output."""
    import re
    from lib import sym, cfgutil
    prog = F.lib
    S = sym.Sym(prog, inline_depth=0)
    emit_rx = re.compile(r"CssBuf>::(add_str|add_one|add_char|start_block|end_block|do_indent\w*|pop_nl)$|::write(_to|_fmt|_str|_char)?$|>::fmt$")
    n = 0
    # crate-local helpers that receive the buffer and emit on every success path count as emitting (a writer
    # split into `write_prelude` + `write_body` is the same writer); computed as a fixpoint
    takes_buf = {d: bb for d, bb in prog.bodies.items() if any("CssBuf" in str(l.get("ty", "")) for l in bb.raw["locals"][1:bb.raw["argc"] + 1])}
    always = set()

    def emits_of(bb):
        return {bi for bi, t in bb.calls() if emit_rx.search(mir.callee_name(t) or "") or emit_rx.search(mir.callee_orig(t) or "") or (mir.callee_name(t) in always)}
    for _ in range(4):
        grew = False
        for d, bb in takes_buf.items():
            if d in always or re.search(r"^<css::[^>]*>::write$", d):
                continue
            if not cfgutil.paths_to_return_avoiding(bb, 0, emits_of(bb) | set(cfgutil.error_exit_blocks(bb))):
                always.add(d)
                grew = True
        if not grew:
            break
    for dname, b in sorted(prog.bodies.items()):
        if not re.search(r"^<css::[^>]*>::write$", dname):
            continue
        n += 1
        err = set(cfgutil.error_exit_blocks(b))
        emit = emits_of(b)
        p = cfgutil.paths_to_return_avoiding(b, 0, emit | err)
        key = mir.short(dname)
        if not p:
            ctx.ok(rule, key + "|emits on every success path", None)
            continue
        guards = []
        for x in p:
            t = b.blocks[x]["term"]
            if t["k"] == "switch":
                cs = [mir.short(c) for c in sym.calls_in(S.operand(b, t["discr"])) if "Deref" not in c][:2]
                if cs:
                    guards.append("/".join(cs))
        if dname in WRITER_SILENT_REVIEWED:
            ctx.reviewed(rule, key + "|may write nothing", WRITER_SILENT_REVIEWED[dname])
        else:
            ctx.fail(rule, key + "|may write nothing", f"{key} can return Ok without writing anything (deciding tests: {guards[:3] or 'none'}): content that was evaluated and handed to the writer — loud comments included — can vanish from the output", where=b.where(), path=[f"bb{x}" for x in p[:10]])
    ctx.floor("css item writers", n, 10)


def iter_descr(b, t):
    from lib import sym
    S = sym.Sym(b.prog, inline_depth=0)
    term = sym.strip_transparent(S.operand(b, t["args"][0]))
    s = sym.show(term)
    return s[:60]


# ---------------------------------------------------------------------------------------------
SINK_RX = None
SKIP_REVIEWED = {
    "Property": {("<Value>::is_null", "<Value>::evaluate"): "a declaration whose value is null is omitted (Sass semantics)"},
    "Comment": {("<Format>::is_compressed", "<Scope>::get_format"): "loud comments are dropped in compressed style (which ones: C36)",
                ("<str>::starts_with", "<CssString>::take_value"): "in compressed style a comment whose text does not start with `!` is dropped (the style test itself is C36's rule)"},
    "Content": {("<Scope>::get_content",): "@content without a passed block renders nothing"},
    "Import": {("<Iter<'a, T> as Iterator>::next", "<&'a [T] as IntoIterator>::into_iter"): "no more names in the @import list"},
    "Each": {("<IntoIter<T, A> as Iterator>::next", "<Vec<T, A> as IntoIterator>::into_iter"): "no more elements"},
    "For": {("<ValueRange as Iterator>::next", "<I as IntoIterator>::into_iter"): "range exhausted"},
    "While": {("<Value>::is_true", "<Value>::evaluate"): "condition is falsy"},
    "None": {},
}


def arm_effects(ctx, F):
    """Every arm of handle_item produces an effect (output, definition, diagnostic or error) on every
    success path, except under the reviewed skip conditions: a new value-dependent guard that lets an
    item pass without effect is a silent drop."""
    import re
    from lib import sym, cfgutil
    prog = F.lib
    S = sym.Sym(prog, inline_depth=0)
    b = prog.one("output::transform::handle_item")
    dom = b.dominators()
    top = None
    for bi, blk in enumerate(b.blocks):
        t = blk["term"]
        if t["k"] == "switch" and (t.get("of_ty") or "").endswith("sass::item::Item") and len(t["targets"]) > 10:
            top = t
            break
    if top is None:
        ctx.anchor_lost("handle_item item switch", "not found")
        return
    sink_rx = re.compile(r"CssDestination::(push_\w+|start_\w+)$|transform::(handle_body|handle_parsed|handle_css|push_items)$|Scope>::(define\w*|do_use|set_variable)$|VariableDeclaration>::evaluate$|io::_eprint$|io::stdio::_eprint$")
    err = set(cfgutil.error_exit_blocks(b))
    for bi, t in b.calls():
        if t["dest"][0] == 0 and not t["dest"][1]:
            # `return Err(x).at(pos)` and similar: a call that turns an Err aggregate into the result
            if any("result::Result::Err" in repr(S.operand(b, a)) for a in t["args"]):
                err.add(bi)
    sinks = {bi for bi, t in b.calls() if sink_rx.search(mir.callee_name(t) or "") or sink_rx.search(mir.callee_orig(t) or "")}
    rets = set(b.return_blocks())
    pm = b.pred_map()
    K = set(rets)
    work = list(rets)
    while work:
        x = work.pop()
        for p in pm[x]:
            if p in K or p in sinks or p in err:
                continue
            K.add(p)
            work.append(p)

    def essence(x):
        t = b.blocks[x]["term"]
        term = S.operand(b, t["discr"])
        cs = [c for c in sym.calls_in(term) if not c.endswith("Try>::branch") and "Deref" not in c and "clone" not in c]
        if cs:
            return tuple(mir.short(c) for c in cs[:2])
        return ("discr:" + str(t.get("of_ty"))[:60],)
    n = 0
    for val, tg, name in top["targets"]:
        if not name:
            continue
        n += 1
        region = {x for x, ds in dom.items() if tg in ds}
        if tg not in K:
            ctx.ok("F3-arm-effect", f"Item::{name}: every success path has an effect", None)
            continue
        guards = set()
        for x in region & K:
            t = b.blocks[x]["term"]
            if t["k"] == "switch" and not any(nm in ("Continue", "Break") for _, _, nm in t["targets"]):
                succ = set(b.successors(x))
                if any(s2 not in K for s2 in succ):
                    guards.add(essence(x))
        allowed = SKIP_REVIEWED.get(name)
        if allowed is None:
            ctx.fail("F3-arm-effect", f"Item::{name}|skip", f"the {name} arm of handle_item has a success path without any effect (no output, definition, diagnostic or error); deciding conditions: {sorted(guards)}", where=b.where(tg))
            continue
        for g in sorted(guards):
            key = f"Item::{name}|skip when {' / '.join(g)}"
            if g in allowed:
                ctx.reviewed("F3-arm-effect", key, allowed[g])
            else:
                ctx.fail("F3-arm-effect", key, f"the {name} arm of handle_item lets an item pass without any effect under a condition that is not in the reviewed set ({' / '.join(g)}): evaluated content can be dropped silently", where=b.where(tg))
        if not guards:
            ctx.ok("F3-arm-effect", f"Item::{name}: no effect by design", None)
    ctx.floor("handle_item arms", n, 25)
