"""C25 (partial) — the selector reader's and writer's tables agree, and one reader / one writer is shared.

That printing and re-parsing gives the *same* selector list for every accepted selector relates runtime
trees and is NOT decided.  Decided are the table-agreement clauses, each a necessary condition of the
round trip (AST):

 (i)   combinators: the parser's table `value(RelKind::X, tag(s))` and the writer's table
       `RelKind::symbol()` are inverse: every kind with a symbol is read from exactly that symbol, every
       symbol the parser reads is what the writer prints for that kind, the descendant combinator is
       the one without a symbol on both sides;
 (ii)  compound parts: the prefix the parser demands for id / placeholder / class / parent reference
       (`#`, `%`, `.`, `&`) is the prefix the writer emits for the same field;
 (iii) one reader, one writer: the selectors of a style rule (`sass::Selectors` evaluation) and
       `selector.parse` (`CssSelectorSet::parse_value`) both reach the same parser function
       `selector_set`; the two printers of a selector (`write_to` for output, `into_string_vec` for the
       Sass value) both print compounds with `CompoundSelector::write_to` and combinators with
       `RelKind::symbol`.
"""
from lib import ast as A


def lit_of(x):
    x = A.strip(x)
    if x.get("e") == "lit":
        if x.get("t") == "byte":
            return chr(x["v"])
        if x.get("t") in ("char", "str"):
            return x["v"]
    return None


def run(ctx, F):
    ctx.explanation = ("C25, table-agreement clauses only (the round trip over all selectors is not decided): the combinator table of the selector parser is the inverse of RelKind::symbol, "
                       "the prefixes the compound parser reads are the ones the compound writer emits per field, and rule selectors / selector.parse share one parser, the two printers one compound writer (AST)")
    tree = F.ast

    def one(suffix):
        fs = [f for f in tree.fn_list if f["path"].endswith(suffix)]
        if len(fs) != 1:
            ctx.anchor_lost(suffix, f"found {len(fs)}")
            return None
        return fs[0]

    # ---------------------------------------------------------------- (i) combinators
    sym_f = one("selectors::selector::<RelKind>::symbol")
    kinds = [v["name"] for v in (tree.enums.get("css::selectors::selector::RelKind") or {}).get("variants", [])]
    if not kinds:
        ctx.anchor_lost("enum RelKind", "not found")
    writer = {}
    if sym_f:
        for n in A.walk(sym_f["body"]):
            if n.get("e") == "match":
                for arm in n["arms"]:
                    pats = arm["pat"]["xs"] if arm["pat"].get("p") == "or" else [arm["pat"]]
                    body = A.strip(arm["body"])
                    val = None
                    if body.get("e") == "path" and body["p"].endswith("None"):
                        val = ""
                    elif body.get("e") == "call" and A.show(body["f"]).strip().endswith("Some") and lit_of(body["args"][0]) is not None:
                        val = lit_of(body["args"][0])
                    for p in pats:
                        if p.get("p") == "path":
                            writer[p["v"].rsplit("::", 1)[-1]] = val
    reader = {}
    mod = "css::selectors::selector::parser::"
    for f in tree.fn_list:
        if not f["path"].startswith(mod):
            continue
        for n in A.walk(f["body"]):
            if n.get("e") == "call" and A.strip(n["f"]).get("e") == "path" and A.strip(n["f"])["p"].rsplit("::", 1)[-1] == "value" and len(n["args"]) == 2:
                k = A.strip(n["args"][0])
                t = A.strip(n["args"][1])
                if k.get("e") == "path" and "RelKind" in k["p"]:
                    kind = k["p"].rsplit("::", 1)[-1]
                    if t.get("e") == "call" and A.show(t["f"]).strip().endswith("tag") and lit_of(t["args"][0]) is not None:
                        reader.setdefault(kind, set()).add(lit_of(t["args"][0]))
                    elif t.get("e") == "path" and t["p"].rsplit("::", 1)[-1] in ("spacelike", "spacelike2", "opt_spacelike"):
                        reader.setdefault(kind, set()).add("")
    ctx.floor("combinator kinds", len(kinds), 4)
    for k in kinds:
        key = f"combinator {k}: read from the symbol it is written as"
        w = writer.get(k)
        r = reader.get(k, set())
        if w is None:
            ctx.fail("F5-combinator-tables", key, f"RelKind::symbol has no arm for {k} that the checker can read", where=sym_f["path"] if sym_f else None)
        elif r == {w}:
            ctx.ok("F5-combinator-tables", key, f"`{w or ' '}`")
        else:
            ctx.fail("F5-combinator-tables", key, f"the writer prints {k} as `{w or ' '}` but the parser reads it from {sorted(r) or 'nothing'}: a printed selector parses back as a different combinator", where=mod + "explicit_rel_kind")
    # ---------------------------------------------------------------- (ii) compound prefixes
    cp = one("selectors::compound::parser::compound_selector")
    cw = one("selectors::compound::<CompoundSelector>::write_to")
    FIELDS = ("id", "placeholders", "classes", "backref")
    rd, wr = {}, {}
    if cp:
        for n in A.walk(cp["body"]):
            if n.get("e") == "match":
                for arm in n["arms"]:
                    p = arm["pat"]
                    if p.get("p") == "tstruct" and p["v"].endswith("Some") and p["xs"] and p["xs"][0].get("p") == "lit":
                        first = lit_of(p["xs"][0]["x"])
                        tags = {lit_of(m["args"][0]) for m in A.walk(arm["body"]) if m.get("e") == "call" and A.show(m["f"]).strip().endswith("tag") and m["args"]}
                        flds = {m["f"] for m in A.walk(arm["body"]) if m.get("e") == "field" and A.show(m["x"]).strip() == "result" and m["f"] in FIELDS}
                        for fl in flds:
                            rd[fl] = (first, tags)
        # `&`: opt(value((), tag("&"))) bound to a name that is stored in result.backref
        for blk in A.walk(cp["body"]):
            if blk.get("e") != "block":
                continue
            for i, st in enumerate(blk["stmts"]):
                if st.get("s") == "let" and st.get("init") is not None:
                    tags = {lit_of(m["args"][0]) for m in A.walk(st["init"]) if m.get("e") == "call" and A.show(m["f"]).strip().endswith("tag") and m["args"]}
                    names = {x.get("n") for x in A.walk_pat(st["pat"])} if hasattr(A, "walk_pat") else set()
                    txt = A.showpat(st["pat"])
                    for st2 in blk["stmts"][i + 1:i + 3]:
                        s2 = A.show(st2.get("x") or {}).replace(" ", "")
                        if s2.startswith("result.backref=") and len(tags) == 1 and s2.split("=", 1)[1].strip(";") in txt:
                            rd["backref"] = (next(iter(tags)), tags)
    if cw:
        def visit(n, field):
            n = A.strip(n)
            if not isinstance(n, dict):
                return
            e = n.get("e")
            here = field
            hdr = None
            if e == "for":
                hdr = A.show(n.get("iter") or n.get("x") or {})
            elif e == "if":
                hdr = A.show(n["cond"])
            if hdr:
                for fl in FIELDS:
                    if f"self.{fl}" in hdr.replace(" ", ""):
                        here = fl
            if e == "mcall" and n["m"] in ("add_char", "add_str") and n["args"] and here and lit_of(n["args"][0]) is not None and here not in wr:
                wr[here] = lit_of(n["args"][0])
            for k, v in n.items():
                if isinstance(v, dict):
                    visit(v, here)
                elif isinstance(v, list):
                    for y in v:
                        if isinstance(y, dict):
                            visit(y, here)
        visit(cw["body"], None)
    for fl in FIELDS:
        key = f"compound part `{fl}`: prefix read = prefix written"
        if fl not in rd or fl not in wr:
            ctx.anchor_lost(key, f"parser side: {rd.get(fl)}, writer side: {wr.get(fl)}")
            continue
        first, tags = rd[fl]
        if tags == {wr[fl]} and first == wr[fl]:
            ctx.ok("F5-compound-prefixes", key, f"`{wr[fl]}`")
        else:
            ctx.fail("F5-compound-prefixes", key, f"the parser reads `{fl}` after {sorted(tags)} (dispatch on `{first}`), the writer emits `{wr[fl]}` before it: a printed compound selector does not parse back into the same field", where=cp["path"])
    # ---------------------------------------------------------------- (iii) one reader, one writer
    def calls(f, name):
        return any((m.get("e") == "call" and A.strip(m["f"]).get("e") == "path" and A.strip(m["f"])["p"].rsplit("::", 1)[-1] == name) or
                   (m.get("e") == "mcall" and m["m"] == name) for m in A.walk(f["body"]))
    pv = one("selectors::cssselectorset::<CssSelectorSet>::parse_value")
    ev = [f for f in tree.fn_list if f["path"].startswith("sass::selectors::") and calls(f, "selector_set")]
    targets = [f for f in tree.fn_list if f["path"].endswith("::selector_set") and f["path"].startswith("css::selectors::")]
    key = "rule selectors and selector.parse use the one selector_set parser"
    if pv and ev and len(targets) == 1 and calls(pv, "selector_set"):
        ctx.ok("F9-one-selector-reader", key, {"rule side": [f["path"] for f in ev][:2], "parser": targets[0]["path"]})
    else:
        ctx.fail("F9-one-selector-reader", key, f"selector.parse (parse_value) calls selector_set: {bool(pv and calls(pv, 'selector_set'))}; evaluation of rule selectors calls it: {bool(ev)}; parser functions named selector_set in css::selectors: {len(targets)}", where=pv["path"] if pv else None)
    wt = one("selectors::selector::<Selector>::write_to")
    sv = one("selectors::selector::<Selector>::into_string_vec")
    if wt and sv:
        for f in (wt, sv):
            key = f"{f['path'].rsplit('::', 1)[-1]} prints compounds with CompoundSelector::write_to and combinators with RelKind::symbol"
            uses_compound = any(m.get("e") == "mcall" and m["m"] == "write_to" and "compound" in A.show(m["recv"]) for m in A.walk(f["body"]))
            uses_symbol = calls(f, "symbol")
            if uses_compound and uses_symbol:
                ctx.ok("F9-one-selector-writer", key, None)
            else:
                ctx.fail("F9-one-selector-writer", key, f"{f['path']}: compound.write_to used: {uses_compound}, RelKind::symbol used: {uses_symbol}; the output form and the Sass-value form of a selector would be printed by different code", where=f["path"])
