"""C12 — equality is symmetric and consistent with ordering (structure of `==`).

 (i)   css::Value::eq: the set of variant pairs that can compare equal is symmetric, every
       variant has a diagonal arm, diagonal arms compare field i with field i, mirrored
       off-diagonal arms have mirrored bodies;
 (ii)  no type overrides PartialEq::ne (so `!=` is the negation of `==`);
 (iii) every hand-written `eq` is swap-symmetric: the body with self/other exchanged equals the
       original modulo commutativity of == && || + * and |a-b| = |b-a|; bodies that delegate to
       an ordering are reviewed;
 (iv)  Number::partial_cmp consults `==` first (trichotomy follows from symmetry of ==).
"""
import json
import os
import re

from lib import ast as A

HERE = os.path.dirname(os.path.abspath(__file__))
TABLE = os.path.join(os.path.dirname(HERE), "tables", "eq_reviewed.json")
COMMUTATIVE = {"==", "&&", "||", "+", "*", "!=", "&", "|", "^"}
SYMMETRIC_FNS = ("ptr_eq", "is_same", "eq", "min", "max")


def canon(n, swap=False):
    """Canonical string of an expression; with swap, `self` and `other` are exchanged."""
    n = A.strip(n)
    if not isinstance(n, dict):
        return str(n)
    e = n.get("e")
    if e == "path":
        p = n["p"]
        if swap and p in ("self", "other"):
            p = "other" if p == "self" else "self"
        return p
    if e == "lit":
        return repr(n.get("v"))
    if e == "field":
        return canon(n["x"], swap) + "." + n["f"]
    if e == "bin":
        op = n["op"]
        if op in ("&&", "||"):
            parts = []

            def flat(x):
                x = A.strip(x)
                while x.get("e") == "block" and len(x["stmts"]) == 1 and x["stmts"][0].get("s") == "expr":
                    x = A.strip(x["stmts"][0]["x"])
                if x.get("e") == "bin" and x["op"] == op:
                    flat(x["l"])
                    flat(x["r"])
                else:
                    parts.append(canon(x, swap))
            flat(n)
            return "(" + f" {op} ".join(sorted(parts)) + ")"
        l, r = canon(n["l"], swap), canon(n["r"], swap)
        if op in COMMUTATIVE:
            l, r = sorted((l, r))
        return f"({l} {op} {r})"
    if e == "unary":
        return n["op"] + canon(n["x"], swap)
    if e == "mcall":
        recv = A.strip(n["recv"])
        if n["m"] == "abs" and recv.get("e") == "bin" and recv["op"] == "-":
            a, b = sorted((canon(recv["l"], swap), canon(recv["r"], swap)))
            return f"|{a} - {b}|"
        args = [canon(a, swap) for a in n["args"]]
        if n["m"] in ("eq", "min", "max") and len(args) == 1:
            a, b = sorted((canon(recv, swap), args[0]))
            return f"{a}.{n['m']}({b})"
        return f"{canon(recv, swap)}.{n['m']}({', '.join(args)})"
    if e == "call":
        f = canon(n["f"], swap)
        args = [canon(a, swap) for a in n["args"]]
        if f.rsplit("::", 1)[-1] in SYMMETRIC_FNS and len(args) == 2:
            args = sorted(args)
        return f"{f}({', '.join(args)})"
    if e == "block":
        if len(n["stmts"]) == 1 and n["stmts"][0].get("s") == "expr":
            return canon(n["stmts"][0]["x"], swap)
        return "{" + "; ".join(canon(s.get("x") or s.get("init"), swap) for s in n["stmts"]) + "}"
    if e == "if":
        return f"if {canon(n['cond'], swap)} {{{canon(n['then'], swap)}}} else {{{canon(n['else'], swap) if n.get('else') else ''}}}"
    if e == "closure":
        return "|..| " + canon(n["body"], swap)
    if e == "tuple":
        return "(" + ", ".join(canon(x, swap) for x in n["xs"]) + ")"
    if e == "match":
        return "match " + canon(n["on"], swap) + " {" + "; ".join(A.showpat(a["pat"]) + " => " + canon(a["body"], swap) for a in n["arms"]) + "}"
    return A.show(n)


def hand_written_eq(tree):
    out = []
    for f in tree.fn_list:
        im = f.get("_impl")
        if not im or f["sig"]["name"] not in ("eq", "ne"):
            continue
        tr = (im["trait"] or "").replace(" ", "")
        if not re.search(r"(^|::)PartialEq($|<)", tr):
            continue
        if any("automatically_derived" in a for a in im["attrs"]):
            continue
        out.append(f)
    return out


def run(ctx, F):
    tree = F.ast
    reviewed = {r["key"]: r["reason"] for r in json.load(open(TABLE))["reviewed"]}
    hw = hand_written_eq(tree)
    ctx.floor("hand-written PartialEq impls", len(hw), 10)
    # ---------------------------------------------------------------- (ii)
    for f in hw:
        if f["sig"]["name"] == "ne":
            ctx.fail("F8-ne-not-overridden", f["path"], f"{f['path']} overrides PartialEq::ne: `!=` is no longer guaranteed to be the negation of `==`")
    if not any(f["sig"]["name"] == "ne" for f in hw):
        ctx.ok("F8-ne-not-overridden", "no PartialEq::ne override in the crate", {"impls": len(hw)})
    # ---------------------------------------------------------------- (iii)
    for f in hw:
        if f["sig"]["name"] != "eq":
            continue
        ty = re.sub(r"<.*", "", f["_impl"]["self_ty"])
        mod = f["_impl"]["mod"]
        key = f"{mod}{ty}::eq"
        tr = (f["_impl"]["trait"] or "")
        if "<" in tr and "Self" not in tr:
            # PartialEq<Other>: not Sass `==` between two values of the same type
            ctx.ok("F5-swap-symmetric", key + "|cross-type", None)
            continue
        if key.endswith("css::value::Value::eq"):
            value_eq_table(ctx, tree, f)
            continue
        a, b = canon(f["body"], False), canon(f["body"], True)
        if a == b:
            ctx.ok("F5-swap-symmetric", key, {"canonical": a[:160]})
        elif key in reviewed:
            ctx.reviewed("F5-swap-symmetric", key, reviewed[key])
        else:
            # the instance is the body itself: a different asymmetric body is a different violation
            ctx.fail("F5-swap-symmetric", f"{key}|{a}", f"{ty}::eq is not symmetric in self/other: `{a[:200]}` vs swapped `{b[:200]}`; `a == b` can differ from `b == a`")
    # derived PartialEq on OrderMap (or a hand-written one) is judged here for symmetry, under C13 for order
    # ---------------------------------------------------------------- (iv)
    pc = tree.one_method("value::number::Number", "partial_cmp")
    first = None
    for n in A.walk(pc["body"]):
        if n.get("e") == "if":
            first = n
            break
    if first is not None and canon(first["cond"]) in ("(other == self)", "(self == other)") and "Equal" in A.show(first["then"]):
        ctx.ok("F5-cmp-consults-eq", "Number::partial_cmp tests == first", None)
    else:
        ctx.fail("F5-cmp-consults-eq", "Number::partial_cmp tests == first", f"Number::partial_cmp does not start with `if self == other {{ Some(Equal) }}` (found `{A.show(first['cond']) if first else None}`): `<`, `==`, `>` may overlap")
    ctx.explanation = ("Structure of ==: decision table of css::Value::eq over all variant pairs (symmetric support, complete diagonal, field-wise diagonal arms, mirrored off-diagonal arms); "
                       "inventory of PartialEq impls (no ne override); swap-symmetry of every hand-written eq body by canonicalisation modulo commutativity; Number::partial_cmp consults == first. "
                       "Floating-point symmetry of conversions (Numeric::partial_cmp) is outside this technique and is a reviewed row.")
    ctx.assumptions += ["derived PartialEq impls are symmetric when their field types are"]


def value_eq_table(ctx, tree, f):
    en = tree.enum("css::value::Value")
    variants = [v["name"] for v in en["variants"]]
    ms = [n for n in A.walk(f["body"]) if n.get("e") == "match"]
    if len(ms) != 1:
        ctx.anchor_lost("css::Value::eq match", f"found {len(ms)} matches")
        return
    m = ms[0]
    from rules.C14 import tuple_arm_matches

    def arm_for(a, b):
        for arm in m["arms"]:
            r = tuple_arm_matches(arm["pat"], [a, b])
            if r == "no":
                continue
            return arm, r
        return None, None
    support = {}
    for a in variants:
        for b in variants:
            arm, r = arm_for(a, b)
            if arm is None:
                continue
            body = A.strip(arm["body"])
            if body.get("e") == "lit" and body.get("v") is False:
                continue
            support[(a, b)] = arm
    ctx.floor("css::Value variants", len(variants), 14)
    for a in variants:
        if (a, a) in support:
            ctx.ok("F5-eq-diagonal", f"Value::{a} == Value::{a}", None)
        else:
            ctx.fail("F5-eq-diagonal", f"Value::{a} == Value::{a}", f"css::Value::eq has no arm for ({a}, {a}): a {a} value is never equal to itself")
    for (a, b), arm in sorted(support.items()):
        if (b, a) not in support:
            ctx.fail("F5-eq-symmetric-support", f"({a}, {b})", f"css::Value::eq can return true for ({a}, {b}) but not for ({b}, {a})")
            continue
        if a == b:
            # field-wise comparison: each conjunct compares the binder at position i of the left pattern with position i of the right
            ok = diagonal_fieldwise(arm)
            if ok is True:
                ctx.ok("F5-eq-arm-symmetric", f"({a}, {a})", None)
            else:
                ctx.fail("F5-eq-arm-symmetric", f"({a}, {a})", f"the ({a}, {a}) arm is not a field-by-field comparison: {ok}")
        elif a < b:
            x = mirrored(arm, support[(b, a)])
            if x is True:
                ctx.ok("F5-eq-arm-symmetric", f"({a}, {b}) / ({b}, {a})", None)
            else:
                ctx.fail("F5-eq-arm-symmetric", f"({a}, {b}) / ({b}, {a})", f"the two arms are not mirror images: {x}")


def binders(p):
    """ordered binder names of a variant pattern (position -> name)"""
    p = p["x"] if p.get("p") == "ref" else p
    if p.get("p") == "tstruct":
        return [x.get("n") if x.get("p") == "bind" else None for x in p["xs"]]
    if p.get("p") == "path":
        return []
    if p.get("p") == "or":
        return None
    return None


def diagonal_fieldwise(arm):
    pat = arm["pat"]
    if pat.get("p") == "or":
        # unit variants `(True, True) | (False, False) | ...`: body must be the literal true
        b = A.strip(arm["body"])
        return True if b.get("e") == "lit" and b.get("v") is True else "or-pattern with a non-constant body"
    if pat.get("p") != "tuple" or len(pat["xs"]) != 2:
        return "not a pair pattern"
    la, lb = binders(pat["xs"][0]), binders(pat["xs"][1])
    if la is None or lb is None:
        return "unrecognised pattern"
    if not la and not lb:
        b = A.strip(arm["body"])
        return True if b.get("e") == "lit" and b.get("v") is True else "unit variants with a non-constant body"
    pos_a = {n: i for i, n in enumerate(la) if n}
    pos_b = {n: i for i, n in enumerate(lb) if n}
    conj = []

    def flat(x):
        x = A.strip(x)
        while x.get("e") == "block" and len(x["stmts"]) == 1 and x["stmts"][0].get("s") == "expr":
            x = A.strip(x["stmts"][0]["x"])
        if x.get("e") == "bin" and x["op"] == "&&":
            flat(x["l"])
            flat(x["r"])
        else:
            conj.append(x)
    flat(arm["body"])
    for c in conj:
        if c.get("e") != "bin" or c["op"] != "==":
            return f"conjunct `{A.show(c)}` is not an equality"
        l, r = A.strip(c["l"]), A.strip(c["r"])
        if l.get("e") != "path" or r.get("e") != "path":
            return f"conjunct `{A.show(c)}` does not compare two bound fields"
        if l["p"] in pos_a and r["p"] in pos_b and pos_a[l["p"]] == pos_b[r["p"]]:
            continue
        if l["p"] in pos_b and r["p"] in pos_a and pos_b[l["p"]] == pos_a[r["p"]]:
            continue
        return f"conjunct `{A.show(c)}` compares different fields"
    return True


def mirrored(arm1, arm2):
    def norm(arm):
        pat = arm["pat"]
        names = {}
        for side, p in enumerate(pat["xs"]):
            for i, n in enumerate(binders(p) or []):
                if n:
                    names[n] = (A.showpat(p).split("(")[0], i)
        conj = []

        def flat(x):
            x = A.strip(x)
            while x.get("e") == "block" and len(x["stmts"]) == 1 and x["stmts"][0].get("s") == "expr":
                x = A.strip(x["stmts"][0]["x"])
            if x.get("e") == "bin" and x["op"] == "&&":
                flat(x["l"])
                flat(x["r"])
            else:
                conj.append(x)
        flat(arm["body"])
        out = []
        for c in conj:
            toks = re.split(r"(\W+)", canon(c))
            out.append("".join(str(names[t]) if t in names else t for t in toks))
        return sorted(out)
    a, b = norm(arm1), norm(arm2)
    return True if a == b else f"`{a}` vs `{b}`"
