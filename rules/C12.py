"""C12 — equality is symmetric and consistent with ordering (structure of `==`).

 (i)   css::Value::eq: the set of variant pairs that can compare equal is symmetric, every
       variant has a diagonal arm, diagonal arms compare field i with field i, mirrored
       off-diagonal arms have mirrored bodies;
 (ii)  no type overrides PartialEq::ne (so `!=` is the negation of `==`);
 (iii) every hand-written `eq` is swap-symmetric: the body with self/other exchanged equals the
       original modulo commutativity of == && || + * and |a-b| = |b-a|; bodies that delegate to
       an ordering are reviewed;
 (iv)  Number::partial_cmp consults `==` first (trichotomy follows from symmetry of ==).
"""
import json
import os
import re

from lib import ast as A

HERE = os.path.dirname(os.path.abspath(__file__))
TABLE = os.path.join(os.path.dirname(HERE), "tables", "eq_reviewed.json")
COMMUTATIVE = {"==", "&&", "||", "+", "*", "!=", "&", "|", "^"}
SYMMETRIC_FNS = ("ptr_eq", "is_same", "eq", "min", "max")


def canon(n, swap=False):
    """Canonical string of an expression; with swap, `self` and `other` are exchanged."""
    n = A.strip(n)
    if not isinstance(n, dict):
        return str(n)
    e = n.get("e")
    if e == "path":
        p = n["p"]
        if swap and p in ("self", "other"):
            p = "other" if p == "self" else "self"
        return p
    if e == "lit":
        return repr(n.get("v"))
    if e == "field":
        return canon(n["x"], swap) + "." + n["f"]
    if e == "bin":
        op = n["op"]
        if op in ("&&", "||"):
            parts = []

            def flat(x):
                x = A.strip(x)
                while x.get("e") == "block" and len(x["stmts"]) == 1 and x["stmts"][0].get("s") == "expr":
                    x = A.strip(x["stmts"][0]["x"])
                if x.get("e") == "bin" and x["op"] == op:
                    flat(x["l"])
                    flat(x["r"])
                else:
                    parts.append(canon(x, swap))
            flat(n)
            return "(" + f" {op} ".join(sorted(parts)) + ")"
        l, r = canon(n["l"], swap), canon(n["r"], swap)
        if op in COMMUTATIVE:
            l, r = sorted((l, r))
        return f"({l} {op} {r})"
    if e == "unary":
        return n["op"] + canon(n["x"], swap)
    if e == "mcall":
        recv = A.strip(n["recv"])
        if n["m"] == "abs" and recv.get("e") == "bin" and recv["op"] == "-":
            a, b = sorted((canon(recv["l"], swap), canon(recv["r"], swap)))
            return f"|{a} - {b}|"
        args = [canon(a, swap) for a in n["args"]]
        if n["m"] in ("eq", "min", "max") and len(args) == 1:
            a, b = sorted((canon(recv, swap), args[0]))
            return f"{a}.{n['m']}({b})"
        return f"{canon(recv, swap)}.{n['m']}({', '.join(args)})"
    if e == "call":
        f = canon(n["f"], swap)
        args = [canon(a, swap) for a in n["args"]]
        if f.rsplit("::", 1)[-1] in SYMMETRIC_FNS and len(args) == 2:
            args = sorted(args)
        return f"{f}({', '.join(args)})"
    if e == "block":
        if len(n["stmts"]) == 1 and n["stmts"][0].get("s") == "expr":
            return canon(n["stmts"][0]["x"], swap)
        return "{" + "; ".join(canon(s.get("x") or s.get("init"), swap) for s in n["stmts"]) + "}"
    if e == "if":
        return f"if {canon(n['cond'], swap)} {{{canon(n['then'], swap)}}} else {{{canon(n['else'], swap) if n.get('else') else ''}}}"
    if e == "closure":
        return "|..| " + canon(n["body"], swap)
    if e == "tuple":
        return "(" + ", ".join(canon(x, swap) for x in n["xs"]) + ")"
    if e == "match":
        return "match " + canon(n["on"], swap) + " {" + "; ".join(A.showpat(a["pat"]) + " => " + canon(a["body"], swap) for a in n["arms"]) + "}"
    return A.show(n)


# ------------------------------------------------------------------ antisymmetry of delegated orderings

def rename(n, m):
    """deep copy of n with path names renamed by m"""
    if isinstance(n, list):
        return [rename(x, m) for x in n]
    if not isinstance(n, dict):
        return n
    if n.get("e") == "path" and n["p"] in m:
        return dict(n, p=m[n["p"]], full=m[n["p"]])
    return {k: rename(v, m) for k, v in n.items()}


def unblock(n):
    n = A.strip(n)
    while n.get("e") == "block" and len(n["stmts"]) == 1 and n["stmts"][0].get("s") == "expr":
        n = A.strip(n["stmts"][0]["x"])
    return n


CMP_METHODS = ("cmp", "partial_cmp", "total_cmp")
ORD_CONST = {"Equal": "Equal", "Less": "Greater", "Greater": "Less"}


class Antisym:
    """Syntactic proof that an ordering body O satisfies O(b, a) == reverse(O(a, b)).
    sigma exchanges the two operands.  Problems are (kind, text) pairs; an empty list is a proof."""

    def __init__(self, tree, module):
        self.tree = tree
        self.module = module
        self.problems = []
        self.depth = 0

    def sym_expr(self, n, sigma):
        return canon(n) == canon(rename(n, sigma))

    def swapped(self, x, y, sigma):
        return canon(rename(x, sigma)) == canon(y) and canon(rename(y, sigma)) == canon(x)

    def check(self, n, sigma):
        n = unblock(n)
        e = n.get("e")
        if e == "path":
            last = n["p"].rsplit("::", 1)[-1]
            if last in ORD_CONST or last == "None":
                return
            self.problems.append(("unrecognised", A.show(n)[:60]))
            return
        if e == "call" and n["f"].get("e") == "path":
            fn = n["f"]["p"]
            last = fn.rsplit("::", 1)[-1]
            if last == "Some" and len(n["args"]) == 1:
                return self.check(n["args"][0], sigma)
            if len(n["args"]) == 2:
                a, b = n["args"]
                if not self.swapped(a, b, sigma):
                    self.problems.append(("asymmetric-compare", A.show(n)[:80]))
                    return
                # a free comparison helper: its own body must be antisymmetric in its two parameters
                g = [f for f in self.tree.fn_list if f["path"] == self.module + last and len(f["sig"]["params"]) == 2]
                if len(g) == 1 and self.depth < 3:
                    ps = [p.get("pat", {}).get("n") for p in g[0]["sig"]["params"]]
                    if all(ps):
                        self.depth += 1
                        self.check(g[0]["body"], {ps[0]: ps[1], ps[1]: ps[0]})
                        self.depth -= 1
                        return
                self.problems.append(("unrecognised", f"comparison helper {fn}"))
                return
        if e == "mcall":
            m = n["m"]
            if m in CMP_METHODS and len(n["args"]) == 1:
                if not self.swapped(n["recv"], n["args"][0], sigma):
                    self.problems.append(("asymmetric-compare", A.show(n)[:80]))
                return
            if m in ("unwrap", "reverse") and not n["args"]:
                return self.check(n["recv"], sigma)
            if m == "filter" and len(n["args"]) == 1:
                # `.filter(|o| o.is_ne())` / is_eq: keeps or drops an ordering by a predicate that is invariant under
                # reversal; the kept ordering is the receiver's
                cl = unblock(n["args"][0])
                body = unblock(cl["body"]) if cl.get("e") == "closure" else None
                if body is not None and body.get("e") == "mcall" and body["m"] in ("is_ne", "is_eq") and not body["args"]:
                    return self.check(n["recv"], sigma)
                self.problems.append(("unrecognised", "filter with " + A.show(n["args"][0])[:50]))
                return
            if m in ("and_then", "map") and len(n["args"]) == 1 and unblock(n["args"][0]).get("e") == "closure":
                # `X.and_then(|v| <cmp using v>)`: symmetric only if X is; otherwise the one-sided binding is the problem
                if self.sym_expr(n["recv"], sigma):
                    return self.check(unblock(n["args"][0])["body"], sigma)
                self.problems.append(("asymmetric-binding", A.show(n["recv"])[:80]))
                return
            if m in ("then", "then_with", "or", "or_else", "unwrap_or", "unwrap_or_else") and len(n["args"]) == 1:
                # `X.unwrap_or_else(|| Y)`: X where it decides, else Y — antisymmetric when both are
                self.check(n["recv"], sigma)
                a = unblock(n["args"][0])
                if a.get("e") == "closure":
                    a = a["body"]
                return self.check(a, sigma)
        if e == "if":
            c = A.strip(n["cond"])
            if c.get("e") == "let":
                if self.sym_expr(c["x"], sigma):
                    self.check(n["then"], sigma)
                else:
                    self.problems.append(("asymmetric-binding", A.show(c["x"])[:80]))
            else:
                if not self.sym_expr(c, sigma):
                    self.problems.append(("asymmetric-condition", A.show(c)[:80]))
                self.check(n["then"], sigma)
            if n.get("else") is not None:
                self.check(n["else"], sigma)
            else:
                self.problems.append(("unrecognised", "if without else"))
            return
        if e == "match":
            on = A.strip(n["on"])
            if on.get("e") == "tuple" and len(on["xs"]) == 2:
                if not self.swapped(on["xs"][0], on["xs"][1], sigma):
                    self.problems.append(("asymmetric-scrutinee", A.show(on)[:80]))
                    return
                return self.arms(n["arms"], sigma)
            # lexicographic idiom: match <antisymmetric comparison> { Equal => <next>, o => o / None => None }
            before = len(self.problems)
            self.check(on, sigma)
            if len(self.problems) != before:
                return
            for arm in n["arms"]:
                pt = A.showpat(arm["pat"])
                b = unblock(arm["body"])
                if arm["pat"].get("p") == "bind" and not arm["pat"].get("sub"):
                    if not (b.get("e") == "path" and b["p"] == arm["pat"]["n"]):
                        self.problems.append(("unrecognised", f"arm `{pt}` does not pass the ordering through"))
                elif pt.endswith("Equal") or pt.endswith("Equal)") or pt == "None":
                    if arm.get("guard") is not None and not self.sym_expr(arm["guard"], sigma):
                        self.problems.append(("asymmetric-guard", f"{pt} if {A.show(arm['guard'])[:60]}"))
                    self.check(b, sigma)
                else:
                    self.problems.append(("unrecognised", f"arm `{pt}` of a match on an ordering"))
            return
        self.problems.append(("unrecognised", A.show(n)[:80]))

    def arms(self, arms, sigma):
        """match (x, y) with (x, y) swap-symmetric: the arm set must be closed under mirroring"""
        def side_names(p, tag):
            out = {}
            i = 0
            for b in _binders_in(p):
                out[b] = f"${tag}{i}"
                i += 1
            return out

        def render(arm, flip):
            pat = arm["pat"]
            pats = [pat]
            if pat.get("p") == "or":
                pats = pat["xs"]
            outs = []
            for pt in pats:
                if pt.get("p") != "tuple" or len(pt["xs"]) != 2:
                    return None
                p1, p2 = pt["xs"]
                if flip:
                    p1, p2 = p2, p1
                m = {}
                m.update(side_names(p1, "L"))
                m.update(side_names(p2, "R"))
                if flip:
                    # the mirrored arm is the arm for the exchanged operands: names of the whole operands
                    # (self / other) used in its body are exchanged too
                    for k_, v_ in sigma.items():
                        m.setdefault(k_, v_)
                ps = _pat_str(p1, m) + " , " + _pat_str(p2, m)
                g = canon(rename(arm["guard"], m)) if arm.get("guard") is not None else ""
                body = rename(arm["body"], m)
                outs.append((ps, g, body))
            return outs

        direct, mirror = [], []
        for arm in arms:
            d, f = render(arm, False), render(arm, True)
            if d is None:
                self.problems.append(("unrecognised", f"arm pattern {A.showpat(arm['pat'])[:50]}"))
                return
            direct.extend((ps, g, body, arm) for ps, g, body in d)
            mirror.extend((ps, g, body, arm) for ps, g, body in f)
        sig = {"$L%d" % i: "$R%d" % i for i in range(8)}
        sig.update({v: k for k, v in list(sig.items())})
        for ps, g, body, arm in mirror:
            # the mirrored arm must exist among the direct arms: same patterns, same guard, reversed body
            cands = [(dg, db) for dps, dg, db, _ in direct if dps == ps]
            label = A.showpat(arm["pat"])[:50] + (f" if {A.show(arm['guard'])[:40]}" if arm.get("guard") is not None else "")
            if not cands:
                self.problems.append(("unmirrored-arm", label))
                continue
            if not any(dg == g for dg, _ in cands):
                self.problems.append(("asymmetric-guard", label))
                continue
            ok = False
            for dg, db in cands:
                if dg != g:
                    continue
                # db(x, y) must be reverse(body(y, x)); body was rendered with flipped sides, so its L/R names
                # already denote (x, y): require db == reverse(body), i.e. comparisons with exchanged operands
                if self.reverse_equal(db, body):
                    ok = True
            if not ok:
                self.problems.append(("unmirrored-arm-body", label))

    def reverse_equal(self, a, b):
        """a == reverse(b) for two expressions over the same names"""
        a, b = unblock(a), unblock(b)
        if a.get("e") == "path" and b.get("e") == "path":
            la, lb = a["p"].rsplit("::", 1)[-1], b["p"].rsplit("::", 1)[-1]
            if la in ORD_CONST:
                return ORD_CONST[la] == lb
            return la == lb == "None"
        if a.get("e") != b.get("e"):
            return False
        if a.get("e") == "mcall" and a["m"] == b["m"] and len(a["args"]) == len(b["args"]):
            if a["m"] in CMP_METHODS and len(a["args"]) == 1:
                return canon(a["recv"]) == canon(b["args"][0]) and canon(a["args"][0]) == canon(b["recv"])
            if a["m"] in ("unwrap",):
                return self.reverse_equal(a["recv"], b["recv"])
            if a["m"] in ("then", "then_with", "or", "or_else", "unwrap_or", "unwrap_or_else") and len(a["args"]) == 1:
                x, y = unblock(a["args"][0]), unblock(b["args"][0])
                if x.get("e") == "closure" and y.get("e") == "closure":
                    x, y = x["body"], y["body"]
                return self.reverse_equal(a["recv"], b["recv"]) and self.reverse_equal(x, y)
        if a.get("e") == "call" and a["f"].get("e") == "path" and b["f"].get("e") == "path" and a["f"]["p"] == b["f"]["p"]:
            if a["f"]["p"].rsplit("::", 1)[-1] == "Some" and len(a["args"]) == 1:
                return self.reverse_equal(a["args"][0], b["args"][0])
            if len(a["args"]) == 2 and len(b["args"]) == 2:
                return canon(a["args"][0]) == canon(b["args"][1]) and canon(a["args"][1]) == canon(b["args"][0])
        return False


def _binders_in(p):
    out = []

    def rec(x):
        if not isinstance(x, dict):
            return
        if x.get("p") == "bind":
            out.append(x["n"])
            if x.get("sub"):
                rec(x["sub"])
        for y in x.get("xs", []) or []:
            rec(y)
        for _, y in x.get("fields", []) or []:
            rec(y)
        if x.get("p") == "ref":
            rec(x["x"])
    rec(p)
    return out


def _pat_str(p, m):
    s = A.showpat(p)
    return "".join(m.get(t, t) for t in re.split(r"(\W+)", s))


def delegated_ordering(tree, f):
    """If eq's body only asks an ordering of the same type for equality, return that ordering fn."""
    b = unblock(f["body"])
    txt = canon(b)
    if not re.search(r"\b(self|other)\.(cmp|partial_cmp)\((self|other)\)", txt):
        return None
    ty = re.sub(r"<.*", "", f["_impl"]["self_ty"])
    mod = f["_impl"]["mod"]
    which = "cmp" if ".cmp(" in txt else "partial_cmp"
    for _ in range(2):
        c = [g for g in tree.fn_list if g.get("_impl") and g["sig"]["name"] == which and g["_impl"]["mod"] == mod
             and re.sub(r"<.*", "", g["_impl"]["self_ty"]) == ty and not any("automatically_derived" in a for a in g["_impl"]["attrs"])]
        if len(c) != 1:
            return None
        gb = unblock(c[0]["body"])
        if canon(gb) in ("Some(self.cmp(other))", "Some(other.cmp(self).reverse())"):
            which = "cmp"
            continue
        return c[0]
    return None


def hand_written_eq(tree):
    out = []
    for f in tree.fn_list:
        im = f.get("_impl")
        if not im or f["sig"]["name"] not in ("eq", "ne"):
            continue
        tr = (im["trait"] or "").replace(" ", "")
        if not re.search(r"(^|::)PartialEq($|<)", tr):
            continue
        if any("automatically_derived" in a for a in im["attrs"]):
            continue
        out.append(f)
    return out


def run(ctx, F):
    tree = F.ast
    reviewed = {r["key"]: r["reason"] for r in json.load(open(TABLE))["reviewed"]}
    hw = hand_written_eq(tree)
    ctx.floor("hand-written PartialEq impls", len(hw), 10)
    # ---------------------------------------------------------------- (ii)
    for f in hw:
        if f["sig"]["name"] == "ne":
            ctx.fail("F8-ne-not-overridden", f["path"], f"{f['path']} overrides PartialEq::ne: `!=` is no longer guaranteed to be the negation of `==`")
    if not any(f["sig"]["name"] == "ne" for f in hw):
        ctx.ok("F8-ne-not-overridden", "no PartialEq::ne override in the crate", {"impls": len(hw)})
    # ---------------------------------------------------------------- (iii)
    n_ordering = 0
    for f in hw:
        if f["sig"]["name"] != "eq":
            continue
        ty = re.sub(r"<.*", "", f["_impl"]["self_ty"])
        mod = f["_impl"]["mod"]
        key = f"{mod}{ty}::eq"
        tr = (f["_impl"]["trait"] or "")
        if "<" in tr and "Self" not in tr:
            # PartialEq<Other>: not Sass `==` between two values of the same type
            ctx.ok("F5-swap-symmetric", key + "|cross-type", None)
            continue
        if key.endswith("css::value::Value::eq"):
            value_eq_table(ctx, tree, f)
            continue
        a, b = canon(f["body"], False), canon(f["body"], True)
        ordf = delegated_ordering(tree, f) if a != b else None
        if a == b:
            ctx.ok("F5-swap-symmetric", key, {"canonical": a[:160]})
        elif ordf is not None:
            # eq asks an ordering for Equal: symmetric iff the ordering is antisymmetric
            an = Antisym(tree, mod)
            an.check(ordf["body"], {"self": "other", "other": "self"})
            okey = f"{mod}{ty}::{ordf['sig']['name']}"
            n_ordering += 1
            if not an.problems:
                ctx.ok("F5-ordering-antisymmetric", okey, "every comparison exchanges its operands under self<->other; match arms closed under mirroring; conditions symmetric")
            for kind, text in an.problems:
                pk = f"{okey}|{kind}:{text}"
                if pk in reviewed:
                    ctx.reviewed("F5-ordering-antisymmetric", pk, reviewed[pk])
                else:
                    ctx.fail("F5-ordering-antisymmetric", pk, f"{ty}::eq asks {ordf['sig']['name']} for equality, and that ordering is not antisymmetric in self/other ({kind}: `{text}`): `a == b` can differ from `b == a`", where=ordf["path"])
        elif key in reviewed:
            ctx.reviewed("F5-swap-symmetric", key, reviewed[key])
        else:
            # the instance is the body itself: a different asymmetric body is a different violation
            ctx.fail("F5-swap-symmetric", f"{key}|{a}", f"{ty}::eq is not symmetric in self/other: `{a[:200]}` vs swapped `{b[:200]}`; `a == b` can differ from `b == a`")
    ctx.floor("hand-written eq bodies that delegate to an ordering", n_ordering, 3)
    # derived PartialEq on OrderMap (or a hand-written one) is judged here for symmetry, under C13 for order
    # ---------------------------------------------------------------- (iv)
    pc = tree.one_method("value::number::Number", "partial_cmp")
    first = None
    for n in A.walk(pc["body"]):
        if n.get("e") == "if":
            first = n
            break
    if first is not None and canon(first["cond"]) in ("(other == self)", "(self == other)") and "Equal" in A.show(first["then"]):
        ctx.ok("F5-cmp-consults-eq", "Number::partial_cmp tests == first", None)
    else:
        ctx.fail("F5-cmp-consults-eq", "Number::partial_cmp tests == first", f"Number::partial_cmp does not start with `if self == other {{ Some(Equal) }}` (found `{A.show(first['cond']) if first else None}`): `<`, `==`, `>` may overlap")
    ctx.explanation = ("Structure of ==: decision table of css::Value::eq over all variant pairs (symmetric support, complete diagonal, field-wise diagonal arms, mirrored off-diagonal arms); "
                       "inventory of PartialEq impls (no ne override); swap-symmetry of every hand-written eq body by canonicalisation modulo commutativity; Number::partial_cmp consults == first. "
                       "Floating-point symmetry of conversions (Numeric::partial_cmp) is outside this technique and is a reviewed row.")
    ctx.assumptions += ["derived PartialEq impls are symmetric when their field types are"]


def value_eq_table(ctx, tree, f):
    en = tree.enum("css::value::Value")
    variants = [v["name"] for v in en["variants"]]
    ms = [n for n in A.walk(f["body"]) if n.get("e") == "match"]
    if len(ms) != 1:
        ctx.anchor_lost("css::Value::eq match", f"found {len(ms)} matches")
        return
    m = ms[0]
    from rules.C14 import tuple_arm_matches

    def arm_for(a, b):
        for arm in m["arms"]:
            r = tuple_arm_matches(arm["pat"], [a, b])
            if r == "no":
                continue
            return arm, r
        return None, None
    support = {}
    for a in variants:
        for b in variants:
            arm, r = arm_for(a, b)
            if arm is None:
                continue
            body = A.strip(arm["body"])
            if body.get("e") == "lit" and body.get("v") is False:
                continue
            support[(a, b)] = arm
    ctx.floor("css::Value variants", len(variants), 14)
    for a in variants:
        if (a, a) in support:
            ctx.ok("F5-eq-diagonal", f"Value::{a} == Value::{a}", None)
        else:
            ctx.fail("F5-eq-diagonal", f"Value::{a} == Value::{a}", f"css::Value::eq has no arm for ({a}, {a}): a {a} value is never equal to itself")
    for (a, b), arm in sorted(support.items()):
        if (b, a) not in support:
            ctx.fail("F5-eq-symmetric-support", f"({a}, {b})", f"css::Value::eq can return true for ({a}, {b}) but not for ({b}, {a})")
            continue
        if a == b:
            # field-wise comparison: each conjunct compares the binder at position i of the left pattern with position i of the right
            ok = diagonal_fieldwise(arm)
            if ok is True:
                ctx.ok("F5-eq-arm-symmetric", f"({a}, {a})", None)
            else:
                ctx.fail("F5-eq-arm-symmetric", f"({a}, {a})", f"the ({a}, {a}) arm is not a field-by-field comparison: {ok}")
        elif a < b:
            x = mirrored(arm, support[(b, a)])
            if x is True:
                ctx.ok("F5-eq-arm-symmetric", f"({a}, {b}) / ({b}, {a})", None)
            else:
                ctx.fail("F5-eq-arm-symmetric", f"({a}, {b}) / ({b}, {a})", f"the two arms are not mirror images: {x}")


def binders(p):
    """ordered binder names of a variant pattern (position -> name)"""
    p = p["x"] if p.get("p") == "ref" else p
    if p.get("p") == "tstruct":
        return [x.get("n") if x.get("p") == "bind" else None for x in p["xs"]]
    if p.get("p") == "path":
        return []
    if p.get("p") == "or":
        return None
    return None


def diagonal_fieldwise(arm):
    pat = arm["pat"]
    if pat.get("p") == "or":
        # unit variants `(True, True) | (False, False) | ...`: body must be the literal true
        b = A.strip(arm["body"])
        return True if b.get("e") == "lit" and b.get("v") is True else "or-pattern with a non-constant body"
    if pat.get("p") != "tuple" or len(pat["xs"]) != 2:
        return "not a pair pattern"
    la, lb = binders(pat["xs"][0]), binders(pat["xs"][1])
    if la is None or lb is None:
        return "unrecognised pattern"
    if not la and not lb:
        b = A.strip(arm["body"])
        return True if b.get("e") == "lit" and b.get("v") is True else "unit variants with a non-constant body"
    pos_a = {n: i for i, n in enumerate(la) if n}
    pos_b = {n: i for i, n in enumerate(lb) if n}
    conj = []

    def flat(x):
        x = A.strip(x)
        while x.get("e") == "block" and len(x["stmts"]) == 1 and x["stmts"][0].get("s") == "expr":
            x = A.strip(x["stmts"][0]["x"])
        if x.get("e") == "bin" and x["op"] == "&&":
            flat(x["l"])
            flat(x["r"])
        else:
            conj.append(x)
    flat(arm["body"])
    for c in conj:
        if c.get("e") != "bin" or c["op"] != "==":
            return f"conjunct `{A.show(c)}` is not an equality"
        l, r = A.strip(c["l"]), A.strip(c["r"])
        if l.get("e") != "path" or r.get("e") != "path":
            return f"conjunct `{A.show(c)}` does not compare two bound fields"
        if l["p"] in pos_a and r["p"] in pos_b and pos_a[l["p"]] == pos_b[r["p"]]:
            continue
        if l["p"] in pos_b and r["p"] in pos_a and pos_b[l["p"]] == pos_a[r["p"]]:
            continue
        return f"conjunct `{A.show(c)}` compares different fields"
    return True


def mirrored(arm1, arm2):
    def norm(arm):
        pat = arm["pat"]
        names = {}
        for side, p in enumerate(pat["xs"]):
            for i, n in enumerate(binders(p) or []):
                if n:
                    names[n] = (A.showpat(p).split("(")[0], i)
        conj = []

        def flat(x):
            x = A.strip(x)
            while x.get("e") == "block" and len(x["stmts"]) == 1 and x["stmts"][0].get("s") == "expr":
                x = A.strip(x["stmts"][0]["x"])
            if x.get("e") == "bin" and x["op"] == "&&":
                flat(x["l"])
                flat(x["r"])
            else:
                conj.append(x)
        flat(arm["body"])
        out = []
        for c in conj:
            toks = re.split(r"(\W+)", canon(c))
            out.append("".join(str(names[t]) if t in names else t for t in toks))
        return sorted(out)
    a, b = norm(arm1), norm(arm2)
    return True if a == b else f"`{a}` vs `{b}`"
