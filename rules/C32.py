"""C32 (partial) — the single-channel adjustment functions move the right channel and keep it in range.

The algebraic laws (mix(c, c, w) = c, invert / complement / adjust-hue cancelling out, adjust / scale /
change with identity arguments, "undo each other when nothing was clamped") relate floating-point
results and are NOT decided.  Decided, over the closures the registry binds to the global functions
lighten, darken, saturate, desaturate, fade-in (opacify), fade-out (transparentize) and grayscale:

 (i)   "move their channel by exactly the amount": the new value of the moved channel is
       `<accessor of that channel>(color) + amount` (lighten, saturate, fade-in) resp. `- amount`
       (darken, desaturate, fade-out), where `amount` is the function's `$amount` argument; every other
       channel handed to the constructor is the accessor of the same channel of the same colour;
 (ii)  "clamped to range": an interval analysis of the function (lib/interval, context-sensitive through
       the constructor / setter it calls, channel reads assumed in range — C31's invariant) proves every
       channel value it stores inside the channel's range;
 (iii) grayscale: saturation is the constant 0, hue, lightness and alpha are the accessors of the
       argument colour.
"""
import re

from lib import interval, mir, sym
from rules.C31 import STRUCTS, field_range, rng

# function -> (struct, moved field, accessor method, sign)
MOVES = {
    "lighten": ("Hsla", "lum", "lum", "Add"),
    "darken": ("Hsla", "lum", "lum", "Sub"),
    "saturate": ("Hsla", "sat", "sat", "Add"),
    "desaturate": ("Hsla", "sat", "sat", "Sub"),
    "fade-in": ("Color", "alpha", "get_alpha", "Add"),
    "fade-out": ("Color", "alpha", "get_alpha", "Sub"),
}
HSLA_ARGS = ["hue", "sat", "lum", "alpha"]


def closure_family(prog, root):
    return [b for d, b in prog.bodies.items() if d == root or d.startswith(root + "::")]


def sink_sites(prog, S, root, sink_rx):
    """Calls matching `sink_rx` in the implementation `root` or in a crate-local helper of the colour
    functions it calls (one level, single call site): yields (body, block, term, T) where T(op) is the
    symbolic term of an operand with the helper's parameters replaced by the caller's arguments."""
    out = []
    for b in closure_family(prog, root):
        for bi, t in b.calls():
            cn = mir.callee_name(t) or ""
            if sink_rx.search(cn):
                out.append((b, bi, t, (lambda op, b=b: sym.strip_transparent(S.operand(b, op)))))
            elif cn.startswith("sass::functions::color") and cn in prog.bodies:
                hb = prog.bodies[cn]
                env = [S.operand(b, a) for a in t["args"]]
                for bi2, t2 in hb.calls():
                    if sink_rx.search(mir.callee_name(t2) or ""):
                        out.append((hb, bi2, t2, (lambda op, hb=hb, env=env: sym.strip_transparent(S.operand(hb, op, env=env)))))
    return out


def run(ctx, F):
    ctx.explanation = ("C32, structural clauses only (the algebraic laws over floating-point colours are not decided): provenance of the moved channel and of the untouched channels in "
                       "lighten/darken/saturate/desaturate/fade-in/fade-out/grayscale, and an interval abstract interpretation proving every channel value these functions store inside its range")
    prog = F.lib
    from rules.C34 import registry
    S = sym.Sym(prog, inline_depth=0)
    reg = registry(prog, S)
    impl = {}
    for (kind, mod, name), impls in reg.items():
        if mod == "color" and kind == "global":
            im = [i for i in impls if i]
            if len(im) == 1:
                impl[name] = im[0]
    ctx.floor("C32 registered global colour functions", len(impl), 9)
    # ---------------------------------------------------------------- (i) provenance of the move
    for name, (struct, fld, acc, sign) in sorted(MOVES.items()):
        if name not in impl:
            ctx.anchor_lost(f"global {name}", "no registered implementation")
            continue
        key = f"{name}|{fld} := {acc}(color) {'+' if sign == 'Add' else '-'} $amount"
        found = []
        for b, bi, t, T in sink_sites(prog, S, impl[name], re.compile(r"hsla::Hsla>::new$" if struct == "Hsla" else r"colors::Color>::set_alpha$")):
            if struct == "Hsla":
                found.append((b, bi, t, t["args"][HSLA_ARGS.index(fld)], [(HSLA_ARGS[i], a) for i, a in enumerate(t["args"][:4]) if HSLA_ARGS[i] != fld], T))
            else:
                found.append((b, bi, t, t["args"][1], [], T))
        if len(found) != 1:
            ctx.anchor_lost(key, f"{len(found)} constructor / setter calls found in the implementation of {name}")
            continue
        b, bi, t, moved, others, T = found[0]
        term = T(moved)
        # saturate clamps its sum: look through clamp(x, 0, 1)
        inner = term
        if inner[0] == "call" and inner[1].endswith("f64>::clamp") and inner[2]:
            inner = sym.strip_transparent(inner[2][0])
        ok = False
        why = f"the moved channel is `{sym.show(term)[:140]}`"
        if inner[0] == "binop" and inner[1] == sign:
            l, r = repr(inner[2]), repr(inner[3])
            ok = (f">::{acc}'" in l) and ("'amount'" in r) and ("get_map" in r or "ResolvedArgs>::get" in r) and "'amount'" not in l
        if ok:
            ctx.ok("F4-channel-move", key, None)
        else:
            ctx.fail("F4-channel-move", key, f"{name}: {why}; expected `{acc}(color) {'+' if sign == 'Add' else '-'} $amount`", where=b.where(bi))
        for ofld, a in others:
            k2 = f"{name}|{ofld} unchanged"
            ot = repr(T(a))
            if re.search(r">::%s'" % re.escape({"lum": "lum", "sat": "sat", "hue": "hue", "alpha": "alpha"}[ofld]), ot) and "'amount'" not in ot:
                ctx.ok("F4-channel-kept", k2, None)
            else:
                ctx.fail("F4-channel-kept", k2, f"{name} hands `{sym.show(T(a))[:120]}` to the constructor as {ofld}: expected the {ofld} of the argument colour unchanged", where=b.where(bi))
    # ---------------------------------------------------------------- (iii) grayscale
    if "grayscale" not in impl:
        ctx.anchor_lost("global grayscale", "no registered implementation")
    else:
        news = sink_sites(prog, S, impl["grayscale"], re.compile(r"hsla::Hsla>::new$"))
        if len(news) != 1:
            ctx.anchor_lost("grayscale constructor", f"{len(news)} Hsla::new calls")
        else:
            b, bi, t, T = news[0]
            for i, fld in enumerate(HSLA_ARGS):
                term = T(t["args"][i])
                k2 = f"grayscale|{fld} " + ("= 0" if fld == "sat" else "unchanged")
                if fld == "sat":
                    good = term[0] == "const" and float(term[1]) == 0.0
                else:
                    good = re.search(r">::%s'" % fld, repr(term)) is not None
                (ctx.ok if good else ctx.fail)("F4-grayscale", k2, *([None] if good else [f"grayscale builds its result with {fld} = `{sym.show(term)[:100]}`", b.where(bi)]))
    # ---------------------------------------------------------------- (ii) stores stay in range
    for name in sorted(list(MOVES) + ["grayscale"]):
        if name not in impl:
            continue
        root = prog.bodies[impl[name]]
        A = interval.Analysis(prog, field_range=field_range, max_depth=4)
        stores = []

        def hook(body, bi, si, st, ev, stores=stores, A=A):
            # colour-space conversions (to_hsla & co.) are numerical and not part of this claim
            if any(re.search(r"convert::From<&value::colors|colors::Color>::to_(hsla|rgba|hwba)$", d) for d in A.stack):
                return
            rv = st["rv"]
            if rv["k"] == "agg" and rv.get("adt") in STRUCTS:
                names = list(STRUCTS[rv["adt"]])
                for i, op in enumerate(rv["ops"][:len(names)]):
                    stores.append((rv["adt"], names[i], ev(op), body, bi))
            proj = st["p"][1]
            if proj and proj[-1].startswith(".") and rv["k"] == "use":
                base_ty = re.sub(r"^&(mut )?", "", body.raw["locals"][st["p"][0]]["ty"]).strip()
                if base_ty in STRUCTS and proj[-1][1:] in STRUCTS[base_ty]:
                    stores.append((base_ty, proj[-1][1:], ev(rv["ops"][0]), body, bi))
        A.store_hook = hook
        A.run(root)
        # Clone impls copy in-range values: not a store of a new value
        stores = [s for s in stores if "Clone" not in s[3].def_]
        key0 = f"{name}|stores"
        if not stores:
            ctx.anchor_lost(key0, "no channel store was reached when interpreting the function (constructor not interpreted?)")
            continue
        seen = set()
        for sp, fld, iv, body, bi in stores:
            r = STRUCTS[sp][fld]
            key = f"{name}|{sp.rsplit('::', 1)[-1]}.{fld} in {rng(r)} (via {mir.short(body.def_)})"
            if key in seen:
                continue
            seen.add(key)
            if iv.within(float(r[0]), float(r[1]), hi_open=r[2]):
                ctx.ok("F4-clamped-move", key, f"value in {iv.show()}")
            else:
                ctx.fail("F4-clamped-move", key, f"called from {name}, the value stored in `{fld}` is only known to lie in {iv.show()}; the channel's range is {rng(r)} (the move is not clamped)", where=body.where(bi))
