"""C09 — rsass's own CSS output reads back as the same stylesheet (two necessary clauses).

 (a) unit names: for every Unit variant the text written by `<Unit as Display>::fmt` is mapped
     back to the same variant by the unit parser (reader/writer tables agree);
 (b) alternative shadowing in the plain-CSS reader: in every `alt((..))` of the parser modules no
     alternative is unreachable because an earlier alternative that cannot fail accepts its first
     byte — in particular the escape alternatives of the quoted-string readers, which must be
     reachable for the writer's `\\"` / `\\<hex>` forms to read back.
 (c) delimiter-terminated readers (`terminated(many0(alt(parts)), tag(END))`: comments, quoted
     strings): a part that can start with END's first byte consumes exactly that one byte under
     the look-ahead `peek(not(tag(<rest of END>)))`; a greedy run over that byte (is_a, many1,
     take_while) or an unguarded tag would swallow the byte that belongs to the terminator, and the
     reader then rejects text the writer emits (`/* x **/`).
Round-trip equality over all stylesheets is a runtime relation and is not claimed.
"""
from lib import ast as A, grammar
from lib.brackets import template_text


def run(ctx, F):
    tree = F.ast
    # ---------------------------------------------------------------- (a) unit tables
    unit = tree.enum("value::unit::Unit")
    variants = [v["name"] for v in unit["variants"]]
    w = tree.one_method("value::unit::Unit", "fmt", trait="Display")
    wm = [n for n in A.walk(w["body"]) if n.get("e") == "match"]
    reader = [f for f in tree.fn_list if f["path"] == "parser::unit::unit"]
    if len(wm) != 1 or len(reader) != 1:
        ctx.anchor_lost("unit reader/writer", f"writer matches {len(wm)}, reader fns {len(reader)}")
    else:
        rm = [n for n in A.walk(reader[0]["body"]) if n.get("e") == "match"]
        direct = {}
        for n in A.walk(reader[0]["body"]):
            if n.get("e") == "call" and n["f"].get("e") == "path" and n["f"]["p"].rsplit("::", 1)[-1] == "value" and len(n["args"]) == 2:
                v = A.strip(n["args"][0])
                t = A.strip(n["args"][1])
                if v.get("e") == "path" and v["p"].startswith("Unit::") and t.get("e") == "call":
                    lit = A.lit_str(A.strip(t["args"][0])) if t["args"] else None
                    if lit is not None:
                        direct[lit] = v["p"].split("::")[1]
        table = {}
        if rm:
            for arm in rm[0]["arms"]:
                pats = arm["pat"]["xs"] if arm["pat"].get("p") == "or" else [arm["pat"]]
                body = A.strip(arm["body"])
                if body.get("e") == "path" and body["p"].startswith("Unit::"):
                    for p in pats:
                        if p.get("p") == "lit":
                            table[p["x"]["v"]] = body["p"].split("::")[1]
        n_ok = 0
        for v in variants:
            if v == "Unknown":
                continue
            arms = A.select_arms(wm[0], v)
            text = None
            if arms:
                fm = [n for n in A.walk(arms[0][0]["body"]) if n.get("e") == "fmt"]
                if fm:
                    text = template_text(fm[0]["template"])
                elif "Ok" in A.show(arms[0][0]["body"]):
                    text = ""
            key = f"Unit::{v}"
            if text is None:
                ctx.fail("F5-unit-roundtrip", key, f"cannot read the text written for Unit::{v}")
                continue
            back = direct.get(text) if text in direct else table.get(text)
            if back == v:
                n_ok += 1
                ctx.ok("F5-unit-roundtrip", key, {"text": text} if n_ok <= 3 else None)
            else:
                ctx.fail("F5-unit-roundtrip", key, f"Unit::{v} is written as {text!r}, which the unit parser reads as {('Unit::' + back) if back else 'an unknown unit'}")
        ctx.floor("unit variants with reader/writer agreement", n_ok, 29)
    # ---------------------------------------------------------------- (b) alternative shadowing
    G = grammar.Grammar(tree)
    n_alt = 0
    for f in tree.fn_list:
        if not f["path"].startswith("parser::"):
            continue
        mod = f["path"].rsplit("::", 1)[0]
        k = 0
        for node in A.walk(f["body"]):
            if node.get("e") == "call" and node["f"].get("e") == "path" and node["f"]["p"].rsplit("::", 1)[-1] == "alt" and node["args"]:
                n_alt += 1
                sh = G.shadowed(node, mod)
                key0 = f"{f['path']}|alt#{k}"
                k += 1
                if not sh:
                    ctx.ok("F7-alt-shadowing", key0, None)
                for i, a, fi in sh:
                    firsts = "".join(sorted(chr(c) for c in fi.first if 32 <= c < 127))
                    ctx.fail("F7-alt-shadowing", f"{key0}|alternative {i}: {A.show(a)[:50]}",
                             f"in {f['path']} alternative {i} (`{A.show(a)[:60]}`, starting with {firsts!r}) can never be chosen: an earlier alternative accepts that byte and cannot fail on it; input using this form is misread")
    ctx.floor("alt combinators examined", n_alt, 90)
    terminated_readers(ctx, tree)
    first_position_rule(ctx, tree)
    ctx.explanation = ("Sibling tables: literal written per Unit variant (Display) vs the unit parser's literal->variant table; FIRST byte sets of nom combinators (tag, char, one_of, is_a, is_not, value, map*, opt, many*, "
                       "preceded/pair/terminated/delimited, alt, local parser functions) and shadowing of alternatives in all alt(..) of the parser modules.")


REPEATERS = ("many0", "fold_many0", "many1", "fold_many1", "many0_count", "many1_count")
WRAPPERS = ("map", "map_res", "recognize", "opt", "verify", "map_opt", "value", "into", "cut", "context")


def _cname(n):
    n = A.strip(n)
    return n["f"]["p"].rsplit("::", 1)[-1] if isinstance(n, dict) and n.get("e") == "call" and n["f"].get("e") == "path" else None


def _unwrap(n):
    n = A.strip(n)
    while _cname(n) in WRAPPERS and n["args"]:
        n = A.strip(n["args"][1] if _cname(n) in ("value", "context") and len(n["args"]) > 1 else n["args"][0])
    return n


def terminated_readers(ctx, tree):
    G = grammar.Grammar(tree)
    n_readers = 0
    for f in tree.fn_list:
        if not f["path"].startswith("parser::"):
            continue
        mod = f["path"].rsplit("::", 1)[0]
        for n in A.walk(f["body"]):
            nm = _cname(n) if n.get("e") == "call" else None
            if nm not in ("terminated", "delimited") or len(n["args"]) < 2:
                continue
            term = A.strip(n["args"][-1])
            if _cname(term) not in ("tag", "char") or not term.get("args"):
                continue
            T = grammar.lit_bytes(term["args"][0])
            if not T:
                continue
            body = _unwrap(n["args"][-2] if nm == "delimited" else n["args"][0])
            if _cname(body) not in REPEATERS or not body["args"]:
                continue
            inner = A.strip(body["args"][0])
            tup = A.strip(inner["args"][0]) if _cname(inner) == "alt" and inner["args"] else None
            parts = tup["xs"] if tup is not None and tup.get("e") == "tuple" else [inner]
            n_readers += 1
            rest = T[1:]
            for p in parts:
                fs = G.first(p, mod)
                if not fs.known or T[0] not in fs.first:
                    continue
                key = f"{f['path']}|END={T.decode('latin-1')!r}|{A.show(p)[:50]}"
                core = _unwrap(p)
                ok = False
                if _cname(core) == "terminated" and len(core["args"]) == 2:
                    head, guard = _unwrap(core["args"][0]), A.strip(core["args"][1])
                    head_ok = _cname(head) in ("tag", "char") and grammar.lit_bytes(head["args"][0]) == T[:1]
                    g = guard
                    guard_ok = False
                    if _cname(g) == "peek" and g["args"]:
                        g2 = A.strip(g["args"][0])
                        if _cname(g2) == "not" and g2["args"]:
                            g3 = A.strip(g2["args"][0])
                            if _cname(g3) in ("tag", "char") and g3.get("args") and rest and grammar.lit_bytes(g3["args"][0]) == rest[:len(grammar.lit_bytes(g3["args"][0]) or b"")]:
                                guard_ok = True
                    ok = head_ok and guard_ok
                if ok:
                    ctx.ok("F7-terminator-safe", key, f"one {T[:1].decode('latin-1')!r} under peek(not({rest.decode('latin-1')!r}))")
                else:
                    ctx.fail("F7-terminator-safe", key, f"{f['path']}: inside the repetition that ends at {T.decode('latin-1')!r}, the part `{A.show(p)[:80]}` can consume {T[:1].decode('latin-1')!r} "
                             f"other than as a single byte guarded by peek(not(tag({rest.decode('latin-1')!r}))): it can swallow the byte that belongs to the terminator, so text ending in "
                             f"`{(T[:1] + T).decode('latin-1')}` is rejected")
    ctx.floor("delimiter-terminated readers", n_readers, 6)


def alt_members(tree, node, module, depth=0):
    """names of the parsers an alt(..) (or a local helper that is one) chooses between"""
    node = A.strip(node)
    if not isinstance(node, dict) or depth > 3:
        return None
    if node.get("e") == "mcall" and node["m"] == "parse":
        return alt_members(tree, node["recv"], module, depth)
    if node.get("e") == "call" and node["f"].get("e") == "path":
        name = node["f"]["p"].rsplit("::", 1)[-1]
        if name == "alt" and node["args"]:
            t = A.strip(node["args"][0])
            xs = t["xs"] if t.get("e") == "tuple" else node["args"]
            out = []
            for x in xs:
                x = A.strip(x)
                while x.get("e") == "call" and x["f"].get("e") == "path" and x["f"]["p"].rsplit("::", 1)[-1] in ("map", "map_res", "value", "recognize", "into") and x["args"]:
                    x = A.strip(x["args"][0] if x["f"]["p"].rsplit("::", 1)[-1] != "value" else x["args"][1])
                out.append(x["p"].rsplit("::", 1)[-1] if x.get("e") == "path" else A.show(x)[:30])
            return out
        if len(node["args"]) == 1 and A.show(node["args"][0]).strip() == "input":
            return alt_members(tree, node["f"], module, depth)
    if node.get("e") == "path":
        cands = [f for f in tree.fn_list if f["path"] == f"{module}::{node['p'].rsplit('::', 1)[-1]}"]
        if len(cands) == 1 and len(cands[0]["body"]["stmts"]) == 1:
            return alt_members(tree, cands[0]["body"]["stmts"][0].get("x"), module, depth + 1)
    return None


def first_position_rule(ctx, tree):
    """Identifier readers: the first character of a name is escaped differently (a leading digit or
    hyphen keeps its escape), so a reader that repeats `normalized_escaped_char` for the rest of a
    name must start with `normalized_first_escaped_char`, never with the non-first normaliser."""
    n = 0
    for f in tree.fn_list:
        if not (f["path"].startswith("parser::strings::") or f["path"].startswith("parser::css::strings::")):
            continue
        module = f["path"].rsplit("::", 1)[0]
        folds = [x for x in A.walk(f["body"]) if x.get("e") == "call" and x["f"].get("e") == "path" and x["f"]["p"].rsplit("::", 1)[-1] in ("fold_many0", "many0") and x["args"]]
        for fold in folds:
            rest = alt_members(tree, fold["args"][0], module)
            if not rest or "normalized_escaped_char" not in rest:
                continue
            first = None
            for st in f["body"]["stmts"]:
                if st.get("s") == "let" and st.get("init") is not None:
                    init = A.strip(st["init"])
                    if init.get("e") == "try":
                        first = alt_members(tree, init["x"], module)
                        if first:
                            break
            n += 1
            key = f"{f['path']}|first part of a name"
            if first is None:
                ctx.fail("F9-first-position", key, f"cannot find the parser of the first part of the name in {f['path']}")
            elif "normalized_first_escaped_char" in first and "normalized_escaped_char" not in first:
                ctx.ok("F9-first-position", key, {"first": first, "rest": rest})
            else:
                ctx.fail("F9-first-position", key, f"{f['path']} reads the first part of a name with {first} and the rest with {rest}: the first position must use normalized_first_escaped_char (an escaped leading digit or hyphen otherwise loses its escape and the name changes)")
    ctx.floor("name readers with a first/rest split", n, 2)
