"""C09 — rsass's own CSS output reads back as the same stylesheet (two necessary clauses).

 (a) unit names: for every Unit variant the text written by `<Unit as Display>::fmt` is mapped
     back to the same variant by the unit parser (reader/writer tables agree);
 (b) alternative shadowing in the plain-CSS reader: in every `alt((..))` of the parser modules no
     alternative is unreachable because an earlier alternative that cannot fail accepts its first
     byte — in particular the escape alternatives of the quoted-string readers, which must be
     reachable for the writer's `\\"` / `\\<hex>` forms to read back.
Round-trip equality over all stylesheets is a runtime relation and is not claimed.
"""
from lib import ast as A, grammar
from lib.brackets import template_text


def run(ctx, F):
    tree = F.ast
    # ---------------------------------------------------------------- (a) unit tables
    unit = tree.enum("value::unit::Unit")
    variants = [v["name"] for v in unit["variants"]]
    w = tree.one_method("value::unit::Unit", "fmt", trait="Display")
    wm = [n for n in A.walk(w["body"]) if n.get("e") == "match"]
    reader = [f for f in tree.fn_list if f["path"] == "parser::unit::unit"]
    if len(wm) != 1 or len(reader) != 1:
        ctx.anchor_lost("unit reader/writer", f"writer matches {len(wm)}, reader fns {len(reader)}")
    else:
        rm = [n for n in A.walk(reader[0]["body"]) if n.get("e") == "match"]
        direct = {}
        for n in A.walk(reader[0]["body"]):
            if n.get("e") == "call" and n["f"].get("e") == "path" and n["f"]["p"].rsplit("::", 1)[-1] == "value" and len(n["args"]) == 2:
                v = A.strip(n["args"][0])
                t = A.strip(n["args"][1])
                if v.get("e") == "path" and v["p"].startswith("Unit::") and t.get("e") == "call":
                    lit = A.lit_str(A.strip(t["args"][0])) if t["args"] else None
                    if lit is not None:
                        direct[lit] = v["p"].split("::")[1]
        table = {}
        if rm:
            for arm in rm[0]["arms"]:
                pats = arm["pat"]["xs"] if arm["pat"].get("p") == "or" else [arm["pat"]]
                body = A.strip(arm["body"])
                if body.get("e") == "path" and body["p"].startswith("Unit::"):
                    for p in pats:
                        if p.get("p") == "lit":
                            table[p["x"]["v"]] = body["p"].split("::")[1]
        n_ok = 0
        for v in variants:
            if v == "Unknown":
                continue
            arms = A.select_arms(wm[0], v)
            text = None
            if arms:
                fm = [n for n in A.walk(arms[0][0]["body"]) if n.get("e") == "fmt"]
                if fm:
                    text = template_text(fm[0]["template"])
                elif "Ok" in A.show(arms[0][0]["body"]):
                    text = ""
            key = f"Unit::{v}"
            if text is None:
                ctx.fail("F5-unit-roundtrip", key, f"cannot read the text written for Unit::{v}")
                continue
            back = direct.get(text) if text in direct else table.get(text)
            if back == v:
                n_ok += 1
                ctx.ok("F5-unit-roundtrip", key, {"text": text} if n_ok <= 3 else None)
            else:
                ctx.fail("F5-unit-roundtrip", key, f"Unit::{v} is written as {text!r}, which the unit parser reads as {('Unit::' + back) if back else 'an unknown unit'}")
        ctx.floor("unit variants with reader/writer agreement", n_ok, 29)
    # ---------------------------------------------------------------- (b) alternative shadowing
    G = grammar.Grammar(tree)
    n_alt = 0
    for f in tree.fn_list:
        if not f["path"].startswith("parser::"):
            continue
        mod = f["path"].rsplit("::", 1)[0]
        k = 0
        for node in A.walk(f["body"]):
            if node.get("e") == "call" and node["f"].get("e") == "path" and node["f"]["p"].rsplit("::", 1)[-1] == "alt" and node["args"]:
                n_alt += 1
                sh = G.shadowed(node, mod)
                key0 = f"{f['path']}|alt#{k}"
                k += 1
                if not sh:
                    ctx.ok("F7-alt-shadowing", key0, None)
                for i, a, fi in sh:
                    firsts = "".join(sorted(chr(c) for c in fi.first if 32 <= c < 127))
                    ctx.fail("F7-alt-shadowing", f"{key0}|alternative {i}: {A.show(a)[:50]}",
                             f"in {f['path']} alternative {i} (`{A.show(a)[:60]}`, starting with {firsts!r}) can never be chosen: an earlier alternative accepts that byte and cannot fail on it; input using this form is misread")
    ctx.floor("alt combinators examined", n_alt, 90)
    ctx.explanation = ("Sibling tables: literal written per Unit variant (Display) vs the unit parser's literal->variant table; FIRST byte sets of nom combinators (tag, char, one_of, is_a, is_not, value, map*, opt, many*, "
                       "preceded/pair/terminated/delimited, alt, local parser functions) and shadowing of alternatives in all alt(..) of the parser modules.")
