"""C40 — the command-line tool mirrors the library.

Rules over rsass-cli (MIR + AST) and the FsLoader part of the library:
 * main maps Ok -> ExitCode::SUCCESS and Err -> `Error: ` on stderr + ExitCode::FAILURE;
 * in Args::run every Result (for_path, transform, write_all) is propagated; stdout receives
   only the bytes returned by transform; nothing else prints to stdout;
 * Format.style / Format.precision derive from --style / --precision (identity table
   StyleArg -> Style) and reach with_format on the context that transforms the file;
 * the context comes from for_path(input) (file directory first) and --load-path is
   pushed on it, unconditionally appended by FsLoader::push_path, before transform;
   FsLoader::find_file walks the paths in Vec order and returns the first hit;
 * input files are processed in argument order.
"""
from lib import errflow, mir, sym, cfgutil, ast as A
from lib.keys import Ordinals

THOROUGH_CONFIGS = ["cli-unimplemented-args"]


def run(ctx, F):
    cli = F.cli
    lib = F.lib
    tree = F.ast_cli
    cfg = ctx.config
    # ------------------------------------------------------------- main: exit codes and stderr template
    main = tree.fn("main")
    matches = [n for n in A.walk(main["body"]) if n.get("e") == "match"]
    if len(matches) != 1:
        ctx.anchor_lost("cli main match", f"expected one match in main, found {len(matches)}")
    else:
        m = matches[0]
        on = A.show(m["on"])
        if "run" not in on:
            ctx.fail("F5-exit-code", "main|scrutinee", f"main does not match on the result of Args::run (found `{on}`)")
        for variant, want in (("Ok", "SUCCESS"), ("Err", "FAILURE")):
            arms = A.select_arms(m, variant)
            if len(arms) != 1:
                ctx.fail("F5-exit-code", f"main|{variant}", f"main has {len(arms)} arms for {variant}")
                continue
            body = arms[0][0]["body"]
            last = final_expr(body)
            if last is not None and last.get("e") == "path" and last["p"].endswith("ExitCode::" + want):
                ctx.ok("F5-exit-code", f"main|{variant}->{want}", {"arm": A.showpat(arms[0][0]["pat"]), "value": last["p"]})
            else:
                ctx.fail("F5-exit-code", f"main|{variant}->{want}", f"the {variant} arm of main does not evaluate to ExitCode::{want} (found `{A.show(last)}`)")
            fmts = [n for n in A.walk(body) if n.get("e") == "fmt"]
            eprints = [n for n in A.calls(body) if (A.callee_path(n) or "").endswith("_eprint")]
            prints = [n for n in A.calls(body) if (A.callee_path(n) or "").endswith("_print")]
            if variant == "Err":
                good = [f for f in fmts if (f["template"] or "").startswith("Error: ") and f["args"]]
                if good and eprints and not prints:
                    ctx.ok("F5-error-message", "main|Err prints `Error: {err}` to stderr", {"template": good[0]["template"]})
                else:
                    ctx.fail("F5-error-message", "main|Err prints `Error: {err}` to stderr", f"the Err arm does not print a message starting with `Error: ` and containing the error to stderr (templates: {[f['template'] for f in fmts]}, eprint calls: {len(eprints)}, print calls: {len(prints)})")
            elif fmts or eprints or prints:
                ctx.fail("F5-error-message", "main|Ok prints nothing", "the Ok arm of main prints something")
    # ------------------------------------------------------------- the driver: Args::run and the helpers of the binary crate it calls
    run_b = cli.one("Args>::run")
    D, envs = driver_set(cli, run_b)
    S = sym.Sym(cli, force_inline={b.def_ for b in D if b is not run_b})
    for b in D:
        if b is run_b:
            envs[b.def_] = None
    # parameter environments of the helpers, in terms of Args::run's own parameters
    for b in D[1:]:
        sites = [(c, bi, t) for c in D for bi, t in c.calls() if mir.callee_name(t) == b.def_]
        if len(sites) == 1 and sites[0][0].def_ in envs:
            c, bi, t = sites[0]
            envs[b.def_] = [S.operand(c, a_, env=envs[c.def_]) for a_ in t["args"]]
        else:
            envs[b.def_] = None
    ctx.units["driver"] = [b.def_ for b in D]
    ords = Ordinals()
    want_calls = {"for_path": 0, "transform": 0, "write_all": 0}
    for b in D:
        for s_ in errflow.analyse_body(b):
            v = errflow.verdict(s_)
            last = s_.callee.rsplit("::", 1)[-1]
            if last in want_calls:
                want_calls[last] += 1
            if last == "compile_scss_path":
                want_calls["for_path"] += 1
                want_calls["transform"] += 1
            key = ords.key(f"cli|{last}|{v}")
            if v == "propagate":
                ctx.ok("F2-cli-errors", key, {"callee": s_.callee, "err": s_.err, "in": b.def_})
            else:
                ctx.fail("F2-cli-errors", key, f"{mir.short(b.def_)} does not propagate the Result of {s_.callee}: a failing file would not make the tool exit non-zero", where=f"{b.file}:{s_.line}")
    for k, n in want_calls.items():
        if n < 1:
            ctx.fail("anchor-lost", f"cli|{k}", f"Args::run (with its helpers {[mir.short(b.def_) for b in D[1:]]}) no longer calls {k} with a Result")
    # ------------------------------------------------------------- stdout: only the transform result
    stdout_calls, print_calls = [], []
    for b in cli.bodies.values():
        for bi, t in b.calls():
            n = mir.callee_name(t) or ""
            if n == "std::io::stdout" or n.endswith("io::stdio::stdout"):
                stdout_calls.append((b, bi))
            if n.endswith("io::_print") or n.endswith("io::stdio::_print"):
                if "clap" not in b.def_:
                    print_calls.append((b, bi))
    if len(stdout_calls) == 1 and stdout_calls[0][0] in D and not print_calls:
        ctx.ok("F8-stdout", "only the driver touches stdout", None)
    else:
        ctx.fail("F8-stdout", "only the driver touches stdout", f"stdout is used at {[(b.def_, b.where(bi)) for b, bi in stdout_calls]}, println! at {[(b.def_, b.where(bi)) for b, bi in print_calls]}")
    writes = [(b, bi, t) for b in D for bi, t in b.calls() if (mir.callee_name(t) or "").endswith("Write>::write_all") or (mir.callee_orig(t) or "").endswith("io::Write::write_all") or (mir.callee_orig(t) or "").endswith("io::Write::write")]
    compiles = [(b, bi, t) for b in D for bi, t in b.calls() if (mir.callee_name(t) or "").endswith("::transform") or (mir.callee_name(t) or "").endswith("rsass::compile_scss_path") or (mir.callee_name(t) or "") == "rsass::compile_scss_path"]
    if len(writes) != 1 or not compiles:
        ctx.anchor_lost("cli write_all/transform", f"expected one write_all and at least one transform in the driver, found {len(writes)}/{len(compiles)}")
        return
    wbody, wb, wt = writes[0]
    data = sym.strip_transparent(S.operand(wbody, wt["args"][1], env=envs.get(wbody.def_)))
    sink = sym.strip_transparent(S.operand(wbody, wt["args"][0], env=envs.get(wbody.def_)))
    alts = producers(data)
    bad = [x for x in alts if not (x[0] == "call" and (x[1].endswith("::transform") or x[1].endswith("compile_scss_path")))]
    if not bad and "stdout" in repr(sink):
        ctx.ok("F4-stdout-data", "write_all(stdout, transform(..)?)", {"data": sym.show(data)[:200]})
    else:
        ctx.fail("F4-stdout-data", "write_all(stdout, transform(..)?)", f"stdout receives `{sym.show(bad[0] if bad else data)[:200]}` (sink `{sym.show(sink)[:80]}`), not exactly the bytes returned by Context::transform", where=wbody.where(wb))
    # ------------------------------------------------------------- format and context provenance, for every compile call of the driver
    co = Ordinals()
    for cbody, tb, tt in compiles:
        env = envs.get(cbody.def_)
        tag = co.key("transform" if (mir.callee_name(tt) or "").endswith("::transform") else "compile_scss_path")
        if tag.startswith("compile_scss_path"):
            fmt = sym.strip_transparent(S.operand(cbody, tt["args"][1], env=env))
            check_format(ctx, fmt, tag, cbody.where(tb))
            continue
        tr_recv = S.operand(cbody, tt["args"][0], env=env)
        wf = first_call(tr_recv, "::with_format")
        if wf is None:
            ctx.fail("F4-format", f"{tag}|receiver = with_format(context, format)", f"the context that transforms the file is `{sym.show(sym.strip_transparent(tr_recv))[:200]}`: no with_format, so --style and --precision do not reach the library on this path", where=cbody.where(tb))
            continue
        check_format(ctx, sym.strip_transparent(wf[2][1]), tag, cbody.where(tb))
        c = sym.strip_transparent(wf[2][0])
        if is_try_of(c, "::for_path", proj=".0"):
            ctx.ok("F4-context", f"{tag}|context = for_path(input)?.0", None)
        else:
            ctx.fail("F4-context", f"{tag}|context = for_path(input)?.0", f"the transforming context is `{sym.show(c)[:200]}`", where=cbody.where(tb))
        src = sym.strip_transparent(S.operand(cbody, tt["args"][1], env=env))
        if is_try_of(src, "::for_path", proj=".1"):
            ctx.ok("F4-context", f"{tag}|source = for_path(input)?.1", None)
        else:
            ctx.fail("F4-context", f"{tag}|source = for_path(input)?.1", f"the transformed source is `{sym.show(src)[:200]}`", where=cbody.where(tb))
    # StyleArg -> Style identity table
    conv = [f for f in tree.fn_list if f.get("_impl") and f["sig"]["name"] == "from" and "StyleArg" in (f["_impl"]["trait"] or "") and f["_impl"]["self_ty"].endswith("Style")]
    if len(conv) != 1:
        ctx.anchor_lost("From<StyleArg> for Style", f"found {len(conv)}")
    else:
        ms = [n for n in A.walk(conv[0]["body"]) if n.get("e") == "match"]
        sa = tree.enum("StyleArg")
        for v in [x["name"] for x in sa["variants"]]:
            arms = A.select_arms(ms[0], v) if ms else []
            val = A.show(A.strip(arms[0][0]["body"])) if arms else "?"
            if len(arms) == 1 and val.endswith("Style::" + v):
                ctx.ok("F5-style-table", f"StyleArg::{v} -> Style::{v}", None)
            else:
                ctx.fail("F5-style-table", f"StyleArg::{v} -> Style::{v}", f"--style {v.lower()} selects `{val}`")
    # ------------------------------------------------------------- load path: pushed before transform whenever given
    pushes = [(b, bi, t) for b in D for bi, t in b.calls() if (mir.callee_name(t) or "").endswith("::push_path")]
    if len(pushes) != 1:
        ctx.fail("F3-load-path", "cli|push_path", f"expected one push_path call in the driver, found {len(pushes)}")
    else:
        pbody, pb, pt = pushes[0]
        env = envs.get(pbody.def_)
        arg = sym.strip_transparent(S.operand(pbody, pt["args"][1], env=env))
        recv = sym.strip_transparent(S.operand(pbody, pt["args"][0], env=env))
        good_arg = is_load_path(arg)
        good_recv = is_try_of(recv, "::for_path", proj=".0")
        if good_arg and good_recv:
            ctx.ok("F4-load-path", "push_path(context, self.load_path)", {"arg": sym.show(arg)})
        else:
            ctx.fail("F4-load-path", "push_path(context, self.load_path)", f"push_path receives `{sym.show(arg)[:120]}` on `{sym.show(recv)[:120]}`", where=pbody.where(pb))
        # the Some edge of the switch on the load path must lead to push_path before transform / before leaving the helper
        some_edge = None
        for bi, blk in enumerate(pbody.blocks):
            t = blk["term"]
            if t["k"] == "switch" and t.get("discr_of"):
                term = sym.strip_transparent(S.place(pbody, t["discr_of"], env=env))
                if is_load_path(term, whole=True):
                    names = {n: tg for _, tg, n in t["targets"]}
                    some_edge = names.get("Some")
        tbs = [tb for cbody, tb, tt in compiles if cbody is pbody]
        if some_edge is None:
            ctx.fail("F3-load-path", "cli|switch on load_path", "no branch on the --load-path option found where push_path is called")
        else:
            reach = pbody.reachable_blocks(some_edge, avoid={pb})
            after = pbody.reachable_blocks(pb)
            if any(tb in reach for tb in tbs) or (not tbs and any(r in reach for r in pbody.return_blocks())):
                ctx.fail("F3-load-path", "cli|push_path before transform", "with --load-path given, transform can be reached without push_path", where=pbody.where(pb))
            elif tbs and not any(tb in after for tb in tbs):
                ctx.fail("F3-load-path", "cli|push_path before transform", "transform is not reached after push_path", where=pbody.where(pb))
            else:
                ctx.ok("F3-load-path", "cli|push_path before transform", {"some_edge": some_edge, "push_path": pb, "transform": tbs})
        # a compile call that can run when a load path was given must be the one that received it
        for cbody, tb, tt in compiles:
            if cbody is not pbody or (some_edge is not None and tb not in pbody.reachable_blocks(pb)):
                none_only = False
                if cbody is pbody and some_edge is not None:
                    none_only = tb not in pbody.reachable_blocks(some_edge)
                if not none_only:
                    ctx.fail("F3-load-path", "cli|every compile call sees the load path", f"{mir.short(mir.callee_name(tt))} in {mir.short(cbody.def_)} can run for an invocation with --load-path without the path having been pushed", where=cbody.where(tb))
    # argument order
    order_ok = False
    bad_iter = []
    for b in D:
        env = envs.get(b.def_)
        for bi, t in b.calls():
            if (mir.callee_orig(t) or "") == "std::iter::Iterator::next":
                its = sym.strip_transparent(S.operand(b, t["args"][0], env=env))
                if its[0] == "call" and its[1].endswith("IntoIterator>::into_iter") and sym.strip_transparent(its[2][0]) == ("param", 1, (".input",)):
                    order_ok = True
        bad_iter += [mir.callee_name(t) for bi, t in b.calls() if any(x in (mir.callee_orig(t) or "") for x in ("Iterator::rev", "::sort", "Iterator::skip", "Iterator::take", "Iterator::step_by", "::dedup", "::retain"))]
    if order_ok and not bad_iter:
        ctx.ok("F4-input-order", "for name in &self.input (forward slice iterator)", None)
    else:
        ctx.fail("F4-input-order", "for name in &self.input (forward slice iterator)", f"input files are not walked by a plain forward iterator over self.input (extra adapters: {bad_iter})")
    # ------------------------------------------------------------- library side: FsLoader
    if cfg == "default":
        fsloader_rules(ctx, lib)
    ctx.explanation = ("CLI dataflow by symbolic provenance (F4) on the MIR of rsass-cli: option fields -> Format -> with_format -> transform -> write_all(stdout); "
                       "error flow (F2) of every Result in Args::run; exit-code/`Error:` table from the AST of main; stdout inventory over the whole binary crate; "
                       "FsLoader::push_path appends unconditionally, for_path seeds the path list with the file's directory, find_file walks it forward and returns the first file.")


def driver_set(cli, run_b):
    """Args::run and the free functions / inherent methods of the binary crate it (transitively) calls;
    trait impls (conversions, clap derives) are not part of the driver"""
    D = [run_b]
    seen = {run_b.def_}
    i = 0
    while i < len(D):
        for bi, t in D[i].calls():
            d = mir.callee_name(t)
            if d and d in cli.bodies and d not in seen and not cli.bodies[d].raw.get("trait") and "clap" not in d and "{closure" not in d:
                seen.add(d)
                D.append(cli.bodies[d])
        i += 1
    return D, {}


def producers(t):
    """The calls that produce the success value denoted by t, looking through `?` (Try::branch .. Continue.0),
    `Ok(v)`, phi alternatives and the error-propagation alternatives of an inlined helper's return value."""
    t = sym.strip_transparent(t)
    if t[0] == "proj" and list(t[2])[:2] == ["as Continue", ".0"] and len(t[2]) == 2:
        inner = t[1]
        if inner[0] == "call" and inner[1].endswith("Try>::branch"):
            out = []
            for alt in sym.alternatives(sym.strip_transparent(inner[2][0])):
                alt = sym.strip_transparent(alt)
                if alt[0] == "call" and alt[1].endswith("::from_residual"):
                    continue          # the helper's own error exits
                if alt[0] == "agg" and str(alt[1]).endswith("Result::Ok") and alt[2]:
                    out.extend(producers(alt[2][0]))
                elif alt[0] == "call" and alt[1].endswith("Try>::from_output") and alt[2]:
                    out.extend(producers(alt[2][0]))
                else:
                    out.append(alt)
            return out
    if t[0] == "phi":
        out = []
        for alt in sym.alternatives(t):
            out.extend(producers(alt))
        return out
    return [t]


def is_load_path(t, whole=False):
    """the term is self.load_path (whole option) or its payload"""
    t = sym.strip_transparent(t)
    if t[0] == "param" and t[1] == 1 and t[2][:1] == (".load_path",):
        return True
    if t[0] == "proj":
        b = sym.strip_transparent(t[1])
        return b[0] == "param" and b[1] == 1 and b[2][:1] == (".load_path",)
    return False


def check_format(ctx, fmt, tag, where):
    ok_style = ok_prec = False
    if fmt[0] == "agg" and str(fmt[1]).endswith("Format::Format") and len(fmt[2]) == 2:
        st, pr = (sym.strip_transparent(x) for x in fmt[2])
        if st == ("param", 1, (".style",)):
            ok_style = True   # conversions stripped: into(self.style)
        if pr == ("param", 1, (".precision",)):
            ok_prec = True
    (ctx.ok if ok_style else ctx.fail)("F4-format", f"{tag}|Format.style <- --style", *([{"term": sym.show(fmt)}] if ok_style else [f"Format.style is `{sym.show(fmt)[:160]}`, not derived from the --style argument", where]))
    (ctx.ok if ok_prec else ctx.fail)("F4-format", f"{tag}|Format.precision <- --precision", *([None] if ok_prec else [f"Format.precision is `{sym.show(fmt)[:160]}`, not the --precision argument", where]))


def final_expr(body):
    b = A.strip(body)
    if b.get("e") == "block":
        if not b["stmts"]:
            return None
        last = b["stmts"][-1]
        if last.get("s") == "expr" and not last.get("semi"):
            return A.strip(last["x"])
        return None
    return b


def first_call(t, suffix):
    found = []

    def rec(x):
        if found or not isinstance(x, tuple) or not x:
            return
        if x[0] == "call" and x[1].endswith(suffix):
            found.append(x)
            return
        for y in x[1:]:
            if isinstance(y, tuple):
                if y and isinstance(y[0], str):
                    rec(y)
                else:
                    for z in y:
                        rec(z)
    rec(t)
    return found[0] if found else None


def is_try_of(t, callee_suffix, proj=None):
    """t == (Try::branch(callee(..)) as Continue).0 [.proj]"""
    if t[0] != "proj":
        return False
    projs = [p for p in t[2]]
    want = ["as Continue", ".0"] + ([proj] if proj else [])
    if projs != want:
        return False
    inner = t[1]
    if inner[0] != "call" or not inner[1].endswith("Try>::branch"):
        return False
    c = sym.strip_transparent(inner[2][0])
    return c[0] == "call" and c[1].endswith(callee_suffix)


def fsloader_rules(ctx, lib):
    S = sym.Sym(lib)
    # push_path: every path to return passes Vec::push(self.path, from(path))
    for name, recv_field in (("<input::fsloader::FsLoader>::push_path", ".path"),):
        b = lib.one(name)
        pushes = [(bi, t) for bi, t in b.calls() if (mir.callee_name(t) or "").endswith("Vec<T, A>>::push")]
        good = []
        for bi, t in pushes:
            recv = sym.strip_transparent(S.operand(b, t["args"][0]))
            val = sym.strip_transparent(S.operand(b, t["args"][1]))
            if recv == ("param", 1, (recv_field,)) and val == ("param", 2, ()):
                good.append(bi)
        p = cfgutil.paths_to_return_avoiding(b, 0, set(good), through_error_exits=True) if good else [0]
        if good and not p:
            ctx.ok("F3-push_path-appends", "FsLoader::push_path", {"push_blocks": good})
        else:
            ctx.fail("F3-push_path-appends", "FsLoader::push_path", "FsLoader::push_path can return without appending the given path to the search list (a --load-path could be dropped)", where=b.where(), path=[f"bb{x}" for x in (p or [])])
        others = [mir.callee_name(t) for bi, t in b.calls() if any(x in (mir.callee_name(t) or "") for x in ("::insert", "::retain", "::clear", "::truncate", "::remove", "::sort", "::dedup", "::swap"))]
        if others:
            ctx.fail("F3-push_path-appends", "FsLoader::push_path|other-mutation", f"push_path also calls {others}")
    cp = lib.one("Context<input::fsloader::FsLoader>>::push_path")
    fwd = [(bi, t) for bi, t in cp.calls() if (mir.callee_name(t) or "").endswith("FsLoader>::push_path")]
    if len(fwd) == 1 and not cfgutil.paths_to_return_avoiding(cp, 0, {fwd[0][0]}, through_error_exits=True):
        recv = sym.strip_transparent(S.operand(cp, fwd[0][1]["args"][0]))
        val = sym.strip_transparent(S.operand(cp, fwd[0][1]["args"][1]))
        if recv == ("param", 1, (".loader",)) and val == ("param", 2, ()):
            ctx.ok("F3-push_path-appends", "FsContext::push_path forwards", None)
        else:
            ctx.fail("F3-push_path-appends", "FsContext::push_path forwards", f"FsContext::push_path passes `{sym.show(val)}` to `{sym.show(recv)}`", where=cp.where())
    else:
        ctx.fail("F3-push_path-appends", "FsContext::push_path forwards", "FsContext::push_path does not forward to FsLoader::push_path on every path", where=cp.where())
    # find_file: forward iteration over self.path, first hit returned
    ff = lib.one("<input::fsloader::FsLoader as input::loader::Loader>::find_file")
    iters = []
    for bi, t in ff.calls():
        if (mir.callee_orig(t) or "") == "std::iter::Iterator::next":
            it = sym.strip_transparent(S.operand(ff, t["args"][0]))
            iters.append(it)
    fwd_ok = any(i[0] == "call" and i[1].endswith("IntoIterator>::into_iter") and sym.strip_transparent(i[2][0]) == ("param", 1, (".path",)) for i in iters)
    adapters = [mir.callee_orig(t) for bi, t in ff.calls() if (mir.callee_orig(t) or "").startswith("std::iter::Iterator::") and not (mir.callee_orig(t) or "").endswith("::next")]
    if fwd_ok and not adapters:
        ctx.ok("F4-load-path-order", "FsLoader::find_file iterates self.path forward", None)
    else:
        ctx.fail("F4-load-path-order", "FsLoader::find_file iterates self.path forward", f"load paths are not walked by a plain forward iterator (iterators: {[sym.show(i)[:80] for i in iters]}, adapters: {adapters})", where=ff.where())
    opens = [(bi, t) for bi, t in ff.calls() if (mir.callee_name(t) or "").endswith("fs::File>::open") or (mir.callee_name(t) or "").endswith("File>::open")]
    if len(opens) != 1:
        ctx.anchor_lost("FsLoader::find_file open", f"expected one File::open, found {len(opens)}")
    else:
        ob, ot = opens[0]
        # from the open call, every path reaches return without passing the loop's `next` again
        nxt = [bi for bi, t in ff.calls() if (mir.callee_orig(t) or "") == "std::iter::Iterator::next"]
        reach = ff.reachable_blocks(ot["target"], avoid=())
        if any(n in reach for n in nxt):
            ctx.fail("F3-first-hit", "FsLoader::find_file returns the first existing file", "after opening a found file the search loop can continue", where=ff.where(ob))
        else:
            opened = sym.strip_transparent(S.operand(ff, ot["args"][0]))
            ctx.ok("F3-first-hit", "FsLoader::find_file returns the first existing file", {"opens": sym.show(opened)[:120]})
    # for_path seeds the list with the parent directory of the input
    fp = lib.one("<input::fsloader::FsLoader>::for_path")
    seeded = False
    for b in [fp] + lib.closures_of(fp.def_):
        for bi, t in b.calls():
            if (mir.callee_name(t) or "").endswith("Path>::to_path_buf") or (mir.callee_name(t) or "").endswith("PathBuf>::new"):
                seeded = True
    parents = [1 for bi, t in fp.calls() if (mir.callee_name(t) or "").endswith("Path>::parent")]
    if parents and seeded:
        ctx.ok("F4-load-path-order", "FsLoader::for_path starts the list with the input's directory", None)
    else:
        ctx.fail("F4-load-path-order", "FsLoader::for_path starts the list with the input's directory", "for_path no longer derives the first search path from path.parent()", where=fp.where())
