"""C05 — compilation is deterministic and isolated.

Sufficient structural conditions (no channel exists by which a history or a schedule
could reach the output):
 1. state inventory: every static of the workspace is immutable after initialisation or in
    the reviewed table (tables/statics_reviewed.json) with the reason it cannot influence output;
 2. built-in scopes are never written: values originating from get_global_module /
    Scope::get_module reach a Scope mutator only in Scope::set_variable, behind the
    `@scope_name@` marker test (ModifiedBuiltin);
 3. nondeterminism sources (random, time, process id, hash-map order, environment, thread id,
    pointer formatting/ordering) are called only from the reviewed places;
 4. schedules: the shared types are Send + Sync (compile-only witness), the library forbids
    unsafe code and the other workspace crates contain no `unsafe` token.
"""
import json
import os
import re
from collections import defaultdict

from lib import mir, sym, errflow

HERE = os.path.dirname(os.path.abspath(__file__))
TABLE = os.path.join(os.path.dirname(HERE), "tables", "statics_reviewed.json")

NONDET = [
    (r"^fastrand::", "random"),
    (r"^std::time::|^<std::time::", "time"),
    (r"^std::process::id$", "process-id"),
    (r"std::collections::(HashMap|HashSet)|std::collections::hash_map|std::collections::hash_set|RandomState", "hash-order"),
    (r"^std::env::", "environment"),
    (r"^std::thread::(current|sleep|spawn)|ThreadId", "thread"),
    (r"as std::fmt::Pointer>::fmt", "pointer-format"),
    (r"^<\*const T>::(addr|expose_provenance)|^std::ptr::(addr_of|from_exposed)|<\*const T as std::cmp::(Ord|PartialOrd)>", "pointer-order"),
]
NONDET = [(re.compile(p), k) for p, k in NONDET]

from lib.keys import fn_key, Ordinals

MUTATING_GUARD = "<std::sync::MutexGuard<'_, T> as std::ops::DerefMut>::deref_mut"


def strip_ord(name):
    return re.sub(r"#[\d.]+$", "", name)


def run(ctx, F):
    prog = F.lib
    table = json.load(open(TABLE))
    # ---------------------------------------------------------------- 1. statics
    rev = {(r["owner"], r["ty"]): r["reason"] for r in table["statics"]}
    n = 0
    for P, crate in ((prog, "rsass"), (F.cli, "rsass-cli"), (F.macros, "rsass-macros")):
        ords = Ordinals()
        for name, st in sorted(P.statics.items()):
            n += 1
            # keyed by the owning item and the type, not by the static's own name or a closure ordinal
            owner = stable_def(strip_ord(name).rsplit("::", 1)[0], P)
            key = ords.key(f"{crate}|{owner}|{st['ty']}")
            if st["mut"]:
                ctx.fail("F8-static-inventory", key, f"`static mut` {name}: process-wide mutable state", where=f"{st['file']}:{st['line']}")
            elif st["freeze"]:
                ctx.ok("F8-static-inventory", key, {"immutable": True} if n < 4 else None)
            elif (owner, st["ty"]) in rev:
                ctx.reviewed("F8-static-inventory", key, rev[(owner, st["ty"])])
            elif (owner, "*") in rev:
                # reviewed by owner whatever its representation (its single user is checked by C06)
                ctx.reviewed("F8-static-inventory", f"{crate}|{owner}|*", rev[(owner, "*")])
            else:
                ctx.fail("F8-static-inventory", key, f"static {name}: {st['ty']} has interior mutability and is not in the reviewed table: a channel between compilations", where=f"{st['file']}:{st['line']}")
    ctx.floor("statics inventoried", n, 21)
    # thread_local!/lazy statics created through macros show up as statics as well; also look for
    # `thread_local` keyword uses in the expanded AST
    tl = [p for p in F.ast.statics if "__KEY" in p or "thread_local" in p.lower()]
    if tl:
        ctx.fail("F8-static-inventory", "thread_local", f"thread-local state: {tl}")
    # ---------------------------------------------------------------- 2. built-in scopes are not written
    builtin_scopes(ctx, prog)
    # ---------------------------------------------------------------- 3. nondeterminism sources
    allowed = {(r["fn"], r["kind"]): r["reason"] for r in table["nondeterminism"]}
    roots = [b.def_ for b in prog.bodies.values() if b.raw.get("pub") or b.raw.get("trait")]
    seen = defaultdict(int)
    for d in sorted(prog.bodies):
        b = prog.bodies[d]
        for bi, t in b.calls():
            for nm in {mir.callee_name(t) or "", mir.callee_orig(t) or ""} | set(t["callee"].get("gargs", []) if not t["callee"].get("indirect") else []):
                for rx, kind in NONDET:
                    if rx.search(nm):
                        seen[(stable_def(d, prog), kind)] += 1
                        break
        # types of locals: a HashMap local is a hash-order source even without a flagged callee
        for l in b.locals:
            if re.search(r"std::collections::(HashMap|HashSet)<", l["ty"]):
                seen[(strip_closure_static(d), "hash-order")] += 1
    for (fn, kind), cnt in sorted(seen.items()):
        key = f"{fn}|{kind}"
        if (fn, kind) in allowed:
            ctx.reviewed("F8-nondeterminism", key, allowed[(fn, kind)])
        else:
            b = None
            ctx.fail("F8-nondeterminism", key, f"{fn} uses a nondeterminism source ({kind}, {cnt} site(s)) outside the reviewed places (math.random, string.unique-id, loaders): output could depend on it", where=b.where() if b else None)
    ctx.floor("nondeterminism-source users", len(seen), 3)
    # ---------------------------------------------------------------- 4. schedules
    w = F.witness
    if w["ok"] and w["negative_control_fails"]:
        ctx.ok("F10-send-sync", "ScopeRef, Scope, Format, Context<FsLoader>, SourceFile, css::Value, Function, Error: Send + Sync", {"negative_control": "Rc<Scope> rejected (E0277)"})
    elif not w["ok"]:
        ctx.fail("F10-send-sync", "witness crate", "the Send + Sync witnesses no longer type-check: a shared type lost thread safety\n" + w["stderr"][-800:])
    else:
        ctx.fail("F10-send-sync", "negative control", "the negative control compiled: the witness mechanism is ineffective")
    attrs = F.ast.raw.get("attrs", [])
    if any(a.replace(" ", "") == "forbid(unsafe_code)" for a in attrs):
        ctx.ok("F8-no-unsafe", "rsass: #![forbid(unsafe_code)]", None)
    else:
        ctx.fail("F8-no-unsafe", "rsass: #![forbid(unsafe_code)]", f"the library crate root no longer forbids unsafe code (crate attributes: {attrs[:6]})")
    for crate in ("rsass-cli", "rsass-macros"):
        nuns = F.unsafe[crate]["unsafe_tokens"]
        if nuns == 0:
            ctx.ok("F8-no-unsafe", f"{crate}: no `unsafe` token", {"files": len(F.unsafe[crate]["files"])})
        else:
            ctx.fail("F8-no-unsafe", f"{crate}: no `unsafe` token", f"{crate} contains {nuns} `unsafe` token(s): {[f for f in F.unsafe[crate]['files'] if f[1]]}")
    ctx.explanation = ("Inventory of all statics (MIR: mutability, Freeze) against a reviewed table; taint of built-in module scopes (get_global_module / Scope::get_module) to Scope mutators with "
                       "per-function 'mutates parameter k' summaries, the single allowed sink guarded by the @scope_name@ marker test; inventory of nondeterminism-source callees per function; "
                       "compile-only Send+Sync witnesses with a failing negative control; forbid(unsafe_code) / unsafe-token scan.")
    ctx.assumptions += ["a new process-wide cache or nondeterminism source is reported as unreviewed even if it is benign (fail-closed inventory)",
                        "safe Rust excludes data races on the inventoried shared state"]


def strip_closure_static(d):
    return d


def stable_def(d, P):
    """line-, ordinal- and static-name-free name of a def: built-in closures by their Sass name, other closures
    without ordinal, path segments that name a static replaced by <static>"""
    parts = d.split("::")
    for i in range(len(parts), 0, -1):
        pre = "::".join(parts[:i])
        if pre in P.statics or any(k == pre or k.startswith(pre + "#") for k in P.statics):
            return stable_def("::".join(parts[:i - 1]), P) + "::<static>" + ("::" + "::".join(re.sub(r"\{closure#\d+\}", "{closure}", x) for x in parts[i:]) if parts[i:] else "")
    return fn_key(d, P)


# ------------------------------------------------------------------------------------------------

def foreign_scope_writes(ctx, prog, S):
    """Inside the variablescope module a scope's tables (variables / mixins / functions / modules) are written
    only through a guard of `self`: a write through a guard taken on ANOTHER scope object bypasses every
    built-in protection (the marker test lives in the methods), and that other object may be one of the
    process-wide built-in module scopes."""
    n = 0
    for d, b in sorted(prog.bodies.items()):
        if "variablescope::" not in d:
            continue
        for bi, t in b.calls():
            name = mir.callee_name(t) or ""
            orig = mir.callee_orig(t) or ""
            if not (name == MUTATING_GUARD or (orig.endswith("DerefMut::deref_mut") and "MutexGuard" in (t["callee"].get("self_ty") or "") + name)):
                continue
            n += 1
            term = S.operand(b, t["args"][0])
            locks = [x for x in _subterms(term) if x[0] == "call" and x[1].endswith("Mutex<T>>::lock") and x[2]]
            key = f"{fn_key(d, prog)}|guard-write"
            if not locks:
                ctx.ok("F3-foreign-scope-write", key, "guard origin not a Mutex::lock in this body")
                continue
            recv = sym.strip_transparent(locks[0][2][0])
            root_self = _self_or_ancestor(recv)
            if root_self:
                ctx.ok("F3-foreign-scope-write", key, sym.show(recv)[:60])
            else:
                ctx.fail("F3-foreign-scope-write", f"{key}|{sym.show(recv)[:50]}", f"{mir.short(d)} writes through a guard taken on `{sym.show(recv)[:80]}`, a scope other than self: "
                         "the write bypasses the built-in module protection and can reach a process-wide built-in scope (a channel between compilations)", where=b.where(bi))
    ctx.floor("guarded writes in the variablescope module", n, 8)


def _self_or_ancestor(t):
    """the term denotes self or an ancestor of self reached only through `.parent` links (phi of such):
    `let mut g = self; while let Some(p) = &g.parent { g = p }` — the parent chain of a dynamic scope
    never contains a built-in module scope (they are created without parent and never become one)"""
    t = sym.strip_transparent(t)
    if t[0] == "param":
        return t[1] == 1 and all(p in (".parent", "as Some", ".0") or p in (".variables", ".mixins", ".functions", ".modules", ".forward") for p in t[2][:-1]) or (t[1] == 1)
    if t[0] == "proj":
        if all(p in (".parent", "as Some", ".0", ".variables", ".mixins", ".functions", ".modules") for p in t[2]):
            return _self_or_ancestor(t[1])
        return False
    if t[0] == "phi":
        alts = [x for x in t[1] if not (isinstance(x, tuple) and x and x[0] == "unknown")]
        return bool(alts) and all(_self_or_ancestor(x) for x in alts)
    if t[0] == "unknown" and "cycle" in str(t[1]):
        return True
    return False


def _subterms(t):
    out = []

    def rec(x):
        if isinstance(x, tuple):
            if x and isinstance(x[0], str):
                out.append(x)
            for y in x:
                if isinstance(y, tuple):
                    rec(y)
    rec(t)
    return out


def scope_mutators(prog):
    """Scope / ScopeRef methods that write through a MutexGuard of a field of self."""
    out = {}
    for d, b in prog.bodies.items():
        st = b.raw.get("self_ty") or ""
        if not st.startswith("variablescope::Scope"):
            continue
        if any(mir.callee_name(t) == MUTATING_GUARD or (mir.callee_name(t) or "").endswith("ArcSwapAny<T, S>>::store") or (mir.callee_name(t) or "").endswith("ArcSwapAny<T, S>>::swap") or (mir.callee_orig(t) or "").endswith("DerefMut::deref_mut") and "MutexGuard" in (t["callee"].get("self_ty") or "") for bi, t in b.calls()):
            out[d] = {1}
    return out


def builtin_scopes(ctx, prog):
    S = sym.Sym(prog, inline_depth=0)
    base = scope_mutators(prog)
    ctx.floor("Scope mutator methods", len(base), 8)
    foreign_scope_writes(ctx, prog, S)
    # ---- summaries: which parameters of f reach the receiver of a mutator?
    mutates = {d: set(v) for d, v in base.items()}
    changed = True
    rounds = 0
    while changed and rounds < 12:
        changed = False
        rounds += 1
        for d, b in prog.bodies.items():
            if d in base:
                continue
            cur = mutates.get(d, set())
            for bi, t in b.calls():
                callee = mir.callee_name(t)
                targets = [callee] if callee in mutates else []
                for pos in (p for tg in targets for p in mutates[tg]):
                    if pos - 1 >= len(t["args"]):
                        continue
                    a = t["args"][pos - 1]
                    if a["k"] not in ("copy", "move"):
                        continue
                    for pi in params_reaching(b, a["p"][0]):
                        if pi not in cur:
                            cur = cur | {pi}
                            changed = True
            if cur:
                mutates[d] = cur
    # ---- sources and sinks
    sources = ("sass::functions::get_global_module", "<variablescope::Scope>::get_module")
    n_src = 0
    sinks = []
    for d, b in sorted(prog.bodies.items()):
        srcs = [bi for bi, t in b.calls() if mir.callee_name(t) in sources]
        if not srcs:
            continue
        n_src += len(srcs)
        tainted = errflow.derived_from(b, {b.blocks[bi]["term"]["dest"][0] for bi in srcs})
        for bi, t in b.calls():
            callee = mir.callee_name(t)
            if callee not in mutates:
                continue
            for pos in mutates[callee]:
                if pos - 1 < len(t["args"]):
                    a = t["args"][pos - 1]
                    if a["k"] in ("copy", "move") and a["p"][0] in tainted:
                        sinks.append((b, bi, callee, pos))
    ctx.floor("built-in module sources (get_global_module / get_module calls)", n_src, 6)
    # construction sites of ScopeRef::Builtin
    ctors = []
    for d, b in prog.bodies.items():
        for bi, si, s in b.stmts():
            if s["k"] == "assign" and s["rv"]["k"] == "agg" and s["rv"].get("adt", "").endswith("variablescope::ScopeRef") and s["rv"].get("variant") == "Builtin":
                ctors.append(d)
        for c in mir.iter_consts_body(b.raw):
            if "fn" in c and c["fn"]["def"].endswith("ScopeRef::Builtin"):
                ctors.append(d)
    allowed_ctor = {"sass::functions::get_global_module"}
    for d in sorted(set(ctors)):
        if d in allowed_ctor or d.startswith("<variablescope::ScopeRef as ") or d.startswith("<variablescope::ScopeRef>::"):
            ctx.ok("F8-builtin-origin", f"ScopeRef::Builtin constructed in {d}", None)
        else:
            ctx.fail("F8-builtin-origin", f"ScopeRef::Builtin constructed in {d}", f"{d} creates a ScopeRef::Builtin: a new way to hand out the shared built-in scopes", where=prog.bodies[d].where())
    ctx.floor("ScopeRef::Builtin construction sites", len(set(ctors)), 1)
    for b, bi, callee, pos in sinks:
        key = f"{b.def_}|{callee}|arg{pos}"
        if b.def_ == "<variablescope::Scope>::set_variable" and callee == "<variablescope::Scope>::set_variable":
            g = marker_guard(b, bi, S)
            if g:
                ctx.ok("F3-builtin-write-guard", key, {"guard": g})
            else:
                ctx.fail("F3-builtin-write-guard", key, "the namespaced assignment `ns.$var: v` writes into the target module without being dominated by the `@scope_name@` marker test (ScopeError::ModifiedBuiltin): a built-in module in the process-wide MODULES table could be modified, changing later and concurrent compilations", where=b.where(bi))
        else:
            ctx.fail("F3-builtin-write-guard", key, f"a scope obtained from get_global_module/get_module flows into the mutated position {pos} of {callee} in {b.def_}: a shared built-in scope could be written", where=b.where(bi))
    if not any(b.def_ == "<variablescope::Scope>::set_variable" for b, _, _, _ in sinks):
        ctx.anchor_lost("set_variable module write", "the namespaced-assignment write in Scope::set_variable was not found")


def params_reaching(body, local):
    """Parameters from which `local` is derived (flow-insensitive, backward)."""
    seen, out, work = set(), set(), [local]
    while work:
        l = work.pop()
        if l in seen:
            continue
        seen.add(l)
        if 1 <= l <= body.argc:
            out.add(l)
        for d in body.defs().get(l, []):
            if d[0] == "stmt":
                rv = d[3]["rv"]
                if rv["k"] in ("ref", "rawptr"):
                    work.append(rv["p"][0])
                if rv["k"] in ("use", "cast", "ref"):
                    for o in rv.get("ops", []) or []:
                        if o["k"] in ("copy", "move"):
                            work.append(o["p"][0])
            else:
                t = d[2]
                nm = mir.callee_orig(t) or ""
                # look through identity-like calls only (deref, clone, as_ref, borrow)
                if nm.rsplit("::", 1)[-1] in ("deref", "deref_mut", "clone", "as_ref", "borrow", "as_mut", "into", "from"):
                    for o in t["args"][:1]:
                        if o["k"] in ("copy", "move"):
                            work.append(o["p"][0])
    return out


def marker_guard(b, sink_bb, S):
    dom = b.dominators().get(sink_bb, set())
    for d in sorted(dom):
        t = b.blocks[d]["term"]
        if t["k"] != "switch" or t["discr"]["k"] not in ("copy", "move"):
            continue
        cond = S.operand(b, t["discr"])
        r = repr(cond)
        if "get_local_or_none" in r and "@scope_name@" in r and "is_some" in r:
            false_t = [tg for v, tg, _ in t["targets"] if v == "0"]
            if false_t and (false_t[0] in dom or false_t[0] == sink_bb):
                return "dominated by the false edge of module.get_local_or_none(\"@scope_name@\").is_some()"
    return None
