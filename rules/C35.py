"""C35 (partial) — two clauses of "meaning-preserving rewrites do not change the output" that are
visible in the shape of the code.  Comparing two compilations of different sources is not a static
question and is NOT decided; decided:

 (i)   `-` / `_` in names: every identifier passes through sass::Name, whose constructors
       normalise (`replace('-', "_")`) — every struct literal of Name is one of: normalising
       constructor, the no-`-` branch of a `contains('-')` test, clone, the literal-only
       `from_static`, or the local part split off an already normalised key; every string literal
       handed to `Name::from_static` (the `name!` macro) contains no `-` (the constructor only
       asserts this in debug builds); the symbol tables of Scope (variables, mixins, functions)
       and the formal/actual argument name maps are keyed by Name, never by String;
 (ii)  inserting @debug / @warn: in both interpreters of sass::Item the Debug and Warn arms
       evaluate their value and print to stderr, and do nothing else — no definition, no output
       item, no scope change;
 (iii) moving a fragment into a partial loaded with @import (two necessary conditions): after the items
       of an imported .scss file were evaluated in their sub-scope, the Import arm hands that scope back
       with `do_use(.., UseAs::Star, Expose::All)` on every success path — unconditionally; and
       Scope::expose_star copies every function, variable and mixin of the other scope: its loops have
       no filter, `continue` or name test.
"""
import re

from lib import ast as A, mir

NAME_LITERAL_REVIEWED = {
    "sass::name::<Name>::from_static": "literal-only constructor: the keys are checked one by one by this rule (no `-` in any literal passed)",
    "sass::name::<Name>::split_module": "local part of `module.local` cut out of an already normalised key",
}
EFFECT_CALLS = re.compile(r"^(define\w*|set_variable|do_use|push_\w+|start_\w+|handle_body|handle_parsed|handle_css|eval_body|store_local_values|restore_local_values|expose\w*|forward)$")


def run(ctx, F):
    ctx.explanation = ("C35, two structural clauses only (comparing compilations of two sources is not decided): identifier normalisation (every Name construction "
                       "normalises `-` to `_`; every from_static literal is `-`-free; symbol tables keyed by Name) and neutrality of @debug/@warn in both Item interpreters")
    tree, prog = F.ast, F.lib
    # ---------------------------------------------------------------- (i) Name constructions
    n_lit = 0
    for f in tree.fn_list:
        if not f["path"].startswith("sass::name::"):
            continue
        for x in A.walk(f["body"]):
            if not (x.get("e") == "struct" and x["p"].rsplit("::", 1)[-1] in ("Name", "Self")):
                continue
            n_lit += 1
            key_e = dict((k, v) for k, v in x["fields"]).get("key")
            txt = A.show(key_e).replace(" ", "") if key_e is not None else ""
            k = f"{f['path']}|Name{{key: {txt[:40]}}}"
            normalises = bool(re.search(r"\.replace\((\"-\"|'-'),\"_\"\)", txt))
            clone = "Clone::clone(&self.key)" in txt or txt == "self.key.clone()"
            guarded = False
            if not normalises and not clone:
                # the else branch of `if key.contains('-') { .. }`
                for n in A.walk(f["body"]):
                    if n.get("e") == "if" and n.get("else") is not None and re.search(r"\.contains\((\"-\"|'-')\)", A.show(n["cond"]).replace(" ", "")) \
                            and any(y is x for y in A.walk(n["else"])) and not A.show(n["cond"]).strip().startswith("!"):
                        guarded = True
            if normalises or clone or guarded:
                ctx.ok("F5-name-normalised", k, "replace('-', '_')" if normalises else ("clone" if clone else "no `-` on this branch"))
            elif f["path"] in NAME_LITERAL_REVIEWED:
                ctx.reviewed("F5-name-normalised", k, NAME_LITERAL_REVIEWED[f["path"]])
            else:
                ctx.fail("F5-name-normalised", k, f"{f['path']} builds a Name from `{txt[:60]}` without normalising `-` to `_`: `foo-bar` and `foo_bar` become different names", where=f["path"])
    ctx.floor("Name struct literals", n_lit, 5)
    # from_static literals
    n_fs, bad = 0, []
    for dn, b in prog.bodies.items():
        for bi, t in b.calls():
            if (mir.callee_name(t) or "").endswith("sass::name::Name>::from_static"):
                n_fs += 1
                a = t["args"][0]
                if a["k"] == "const" and isinstance(a.get("v"), str):
                    if "-" in a["v"]:
                        bad.append((dn, a["v"], b.where(bi)))
                else:
                    bad.append((dn, "<not a literal>", b.where(bi)))
    ctx.floor("Name::from_static call sites", n_fs, 400)
    if bad:
        for dn, v, w in bad[:5]:
            ctx.fail("F5-name-literals", f"{mir.short(dn)}|{v}", f"Name::from_static is given `{v}`: the constructor does not normalise (it only asserts in debug builds), so this name is never found under its `_` spelling", where=w)
    else:
        ctx.ok("F5-name-literals", "every from_static literal is free of `-`", {"sites": n_fs})
    # symbol tables keyed by Name
    st = tree.structs.get("variablescope::Scope")
    if not st:
        ctx.anchor_lost("struct variablescope::Scope", "not found")
    else:
        fields = {f_[0]: (f_[1] or "").replace(" ", "") for f_ in st["fields"]}
        for fld in ("variables", "mixins", "functions"):
            ty = fields.get(fld, "")
            if re.search(r"Map<Name,", ty):
                ctx.ok("F5-tables-keyed-by-name", f"Scope.{fld}", ty[:60])
            else:
                ctx.fail("F5-tables-keyed-by-name", f"Scope.{fld}", f"Scope.{fld} has type `{ty[:80]}`: the symbol table is not keyed by the normalising Name type")
    for path, fld in (("sass::formal_args::FormalArgs", None), ("sass::call_args::CallArgs", "named"), ("css::call_args::CallArgs", "named")):
        s2 = tree.structs.get(path)
        if not s2:
            ctx.anchor_lost(f"struct {path}", "not found")
            continue
        tys = " ".join((f_[1] or "") for f_ in s2["fields"] if fld is None or f_[0] == fld).replace(" ", "")
        if "Name" in tys and not re.search(r"Map<String,|\(String,", tys):
            ctx.ok("F5-tables-keyed-by-name", path, tys[:70])
        else:
            ctx.fail("F5-tables-keyed-by-name", path, f"argument names of {path} are held as `{tys[:80]}`, not as Name")
    import_copy_back(ctx, F)
    # ---------------------------------------------------------------- (ii) @debug / @warn are neutral
    for path, method in (("output::transform::handle_item", None), ("variablescope::ScopeRef", "eval_body")):
        f = tree.fn(path) if method is None else tree.one_method(path, method)
        who = "handle_item" if method is None else "eval_body"
        prefix = "output::transform::" if method is None else "variablescope::"
        arms = {}
        for n in A.walk(f["body"]):
            if n.get("e") == "match":
                for arm in n["arms"]:
                    p = arm["pat"]
                    if p.get("p") in ("tstruct", "struct") and p["v"] in ("Item::Debug", "Item::Warn"):
                        arms.setdefault(p["v"], arm)
        for kind in ("Item::Debug", "Item::Warn"):
            arm = arms.get(kind)
            key = f"{who}|{kind} only evaluates and prints to stderr"
            if arm is None:
                ctx.anchor_lost(f"{who} {kind} arm", "not found")
                continue
            body = A.delegated_body(tree, arm["body"], prefix)
            calls = [m["m"] for m in A.walk(body) if m.get("e") == "mcall"] + [c["f"]["p"].rsplit("::", 1)[-1] for c in A.walk(body) if c.get("e") == "call" and c["f"].get("e") == "path"]
            effects = sorted({c for c in calls if EFFECT_CALLS.match(c)})
            prints = any("eprint" in c or c == "_eprint" for c in calls)
            assigns = [x for x in A.walk(body) if x.get("e") == "assign"]
            if prints and not effects and not assigns:
                ctx.ok("F5-diagnostics-neutral", key, None)
            else:
                ctx.fail("F5-diagnostics-neutral", key, f"the {kind} arm of {who} " + ("does not print to stderr; " if not prints else "") + (f"also calls {effects}; " if effects else "") + ("assigns state; " if assigns else "") + "inserting @debug/@warn would change the compilation", where=f["path"])


def import_copy_back(ctx, F):
    from lib import sym, cfgutil
    prog, tree = F.lib, F.ast
    S = sym.Sym(prog, inline_depth=0)
    hi = prog.one("output::transform::handle_item")
    dom = hi.dominators()
    # the handle_body calls that evaluate the imported items: their scope argument is a ScopeRef::sub local that is
    # later passed to do_use
    uses = [(bi, t) for bi, t in hi.calls() if (mir.callee_name(t) or "").endswith("Scope>::do_use")]
    star = []
    for bi, t in uses:
        args = [sym.show(sym.strip_transparent(S.operand(hi, a))) for a in t["args"]]
        # `&UseAs::Star` / `&Expose::All` are promoted constants in MIR; the call is recognised by its module
        # argument (the sub-scope the imported items ran in) and the empty namespace
        if len(args) >= 3 and "ScopeRef>::sub" in args[1] and args[2] in ("''", '""'):
            star.append((bi, t, args[1]))
    if len(star) != 1:
        ctx.anchor_lost("handle_item @import copy-back", f"expected one do_use(<sub scope>, .., UseAs::Star, Expose::All), found {len(star)}")
    else:
        ub, ut, mod = star[0]
        region = None
        for bi, blk in enumerate(hi.blocks):
            t = blk["term"]
            if t["k"] == "switch" and (t.get("of_ty") or "").endswith("item::Item") and len(t["targets"]) >= 8:
                for _, tg, name in t["targets"]:
                    if name == "Import":
                        region = {b for b, ds in dom.items() if tg in ds}
                break
        region = region or set()
        bodies = [bi for bi, t in hi.calls() if bi in region and (mir.callee_name(t) or "").endswith("transform::handle_body") and len(t["args"]) >= 3
                  and sym.show(sym.strip_transparent(S.operand(hi, t["args"][2]))) == mod]
        ctx.floor("evaluations of imported items in the Import arm", len(bodies), 1)
        bad = None
        for hb in bodies:
            tt = cfgutil.try_targets(hi, hb)
            start = tt[0] if tt else hi.blocks[hb]["term"].get("target")
            # from the success edge of the evaluation, no path may reach the end of this import (unlock_loading) without do_use
            unlocks = [bi for bi, t in hi.calls() if (mir.callee_name(t) or "").endswith("unlock_loading") and bi in hi.reachable_blocks(start)]
            reach = hi.reachable_blocks(start, avoid={ub})
            if any(u in reach for u in unlocks) or (not unlocks and cfgutil.paths_to_return_avoiding(hi, start, {ub})):
                bad = hb
        key = "handle_item|@import hands the partial's scope back unconditionally"
        if bad is None:
            ctx.ok("F3-import-copy-back", key, {"do_use": ub, "evaluations": bodies})
        else:
            ctx.fail("F3-import-copy-back", key, "after the items of an imported .scss file were evaluated, a success path reaches the end of the import without `do_use(.., UseAs::Star, Expose::All)`: what the partial assigned or defined is then lost for the importing file", where=hi.where(bad))
    es = tree.one_method("variablescope::Scope", "expose_star")
    loops = [n for n in A.walk(es["body"]) if n.get("e") == "for"]
    ctx.floor("copy loops of Scope::expose_star", len(loops), 3)
    filt = []
    for lp in loops:
        for x in A.walk(lp["body"]):
            if x.get("e") in ("if", "match", "continue") or (x.get("e") == "mcall" and x["m"] in ("filter", "skip_while", "take_while", "filter_map", "starts_with", "contains")):
                filt.append(A.show(x)[:50])
        for x in A.walk(lp["iter"]):
            if x.get("e") == "mcall" and x["m"] in ("filter", "skip_while", "take_while", "filter_map", "skip", "take"):
                filt.append(A.show(x)[:50])
    key = "Scope::expose_star copies every member"
    if filt:
        ctx.fail("F5-expose-star-total", key, f"a copy loop of Scope::expose_star selects among the members ({filt[:2]}): some functions, variables or mixins of an @import-ed partial (or of a module used `as *`) are not visible afterwards", where=es["path"])
    else:
        ctx.ok("F5-expose-star-total", key, {"loops": len(loops)})
