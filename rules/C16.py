"""C16 — variable assignment follows Sass scoping (structural clauses).

 (i)   `!default` assigns only when the variable is undefined or null: the early return of
       Scope::set_variable is guarded by exactly `Some(Null) | None` of the current value;
       `!global` is routed to define_global, which ascends `parent` to the root;
 (ii)  an assignment without flags must be able to reach an enclosing scope wherever a
       sub-scope is opened for control flow (@if/@each/@for/@while);
 (iii) @each/@for loop variables are confined: defined in a fresh sub-scope, or in the
       enclosing scope between store_local_values / restore_local_values;
 (iv)  the two interpreters of sass::Item (handle_item, ScopeRef::eval_body) agree on the
       scope discipline of every control-flow item;
 (v)   variables are never forgotten: entries leave a scope's `variables` table only in
       restore_local_values (which puts back what store_local_values saved for the loop
       variables); no other function of the variablescope module removes, retains-by-filter,
       clears or replaces the table — an assignment that reached a scope stays there.
"""
import re
from lib import ast as A, mir, cfgutil

CONTROL = ("IfStatement", "Each", "For", "While")


def arm_variant(arm):
    p = arm["pat"]
    if p.get("p") in ("tstruct", "struct", "path"):
        return p["v"].rsplit("::", 1)[-1]
    if p.get("p") == "or":
        return "|".join(x["v"].rsplit("::", 1)[-1] for x in p["xs"] if "v" in x)
    return None


def discipline(arm, interp, tree=None):
    """How does this arm treat scopes?  Returns dict."""
    body = arm["body"]
    if tree is not None:
        body = A.delegated_body(tree, body, "output::transform::" if interp == "handle_item" else "variablescope::")
    subs = {}      # variable name -> 'sub' when bound to ScopeRef::sub(..)
    for n in A.walk(body):
        if n.get("s") == "let" and n.get("init") is not None and n["pat"].get("p") == "bind":
            init = A.strip(n["init"])
            if init.get("e") == "call" and init["f"].get("e") == "path" and init["f"]["p"].rsplit("::", 1)[-1] in ("sub", "sub_selectors"):
                subs[n["pat"]["n"]] = "sub"
            elif init.get("e") == "mcall" and init["m"] == "clone":
                subs[n["pat"]["n"]] = "alias:" + A.show(init["recv"])
    store = any(n.get("e") == "mcall" and n["m"] == "store_local_values" for n in A.walk(body))
    restore = any(n.get("e") == "mcall" and n["m"] == "restore_local_values" for n in A.walk(body))
    # where is the body evaluated?
    body_scopes = []
    for n in A.walk(body):
        if interp == "handle_item" and n.get("e") == "call" and n["f"].get("e") == "path" and n["f"]["p"].rsplit("::", 1)[-1] == "handle_body" and len(n["args"]) >= 3:
            body_scopes.append(scope_name(n["args"][2]))
        if interp == "eval_body" and n.get("e") == "mcall" and n["m"] == "eval_body":
            body_scopes.append(scope_name(n["recv"]))
    def kind(name):
        # a `let scope = ScopeRef::sub(scope.clone())` inside the loop shadows the outer scope
        if subs.get(name) == "sub":
            return "sub-scope"
        return "same-scope"
    body_kinds = sorted({kind(s) for s in body_scopes})
    # loop variable definitions
    defs = []
    for n in A.walk(body):
        if n.get("e") == "mcall" and n["m"] in ("define", "define_multi"):
            defs.append(kind(scope_name(n["recv"])))
    return {"body": body_kinds, "loop_var": sorted(set(defs)), "store_restore": store and restore, "store_only": store != restore}


def scope_name(x):
    x = A.strip(x)
    while x.get("e") == "mcall" and x["m"] == "clone":
        x = A.strip(x["recv"])
    return A.show(x)


REMOVAL_API = re.compile(r"BTreeMap<K, V, A>>::(remove|remove_entry|retain|clear|pop_first|pop_last|split_off|extract_if|first_entry|last_entry)$|std::mem::(take|replace|swap)$")
REMOVAL_ALLOWED = {"<variablescope::Scope>::restore_local_values": "puts back the values that store_local_values saved for the loop variables (or removes a loop variable that did not exist before the loop)"}


def variables_never_forgotten(ctx, prog):
    from lib import sym
    S = sym.Sym(prog, inline_depth=0)
    n = 0
    for d, b in sorted(prog.bodies.items()):
        if "variablescope::" not in d:
            continue
        for bi, t in b.calls():
            name = mir.callee_name(t) or ""
            if not REMOVAL_API.search(name) or not t["args"]:
                continue
            recv = sym.show(S.operand(b, t["args"][0]))
            if ".variables" not in recv:
                continue
            n += 1
            root = d
            while root in prog.bodies and prog.bodies[root].raw.get("parent"):
                root = prog.bodies[root].raw["parent"]
            api = mir.short(name).rsplit("::", 1)[-1]
            key = f"{mir.short(root)}|variables.{api}"
            if root in REMOVAL_ALLOWED:
                ctx.reviewed("F8-variables-never-forgotten", key, REMOVAL_ALLOWED[root])
            else:
                ctx.fail("F8-variables-never-forgotten", key, f"{mir.short(root)} removes entries from a scope's variable table ({api}): an assignment that reached this scope — including a `!global` one when the scope is the root — can be forgotten afterwards", where=b.where(bi))
    ctx.floor("removals from a scope's variable table", n, 1)


def run(ctx, F):
    tree = F.ast
    prog = F.lib
    # ---------------------------------------------------------------- (i) !default / !global
    sv = tree.one_method("variablescope::Scope", "set_variable")
    guard = None
    for n in A.walk(sv["body"]):
        if n.get("e") == "if":
            c = A.strip(n["cond"])
            if c.get("e") == "bin" and c["op"] == "&&" and A.show(c["l"]).strip() == "default":
                guard = (n, c["r"])
    if guard is None:
        ctx.anchor_lost("set_variable !default guard", "no `if default && ..` in Scope::set_variable")
    else:
        n, cond = guard
        ok, why = default_guard_ok(cond)
        # the guarded path performs no write: either it returns Ok(()) at once, or the branch is empty and every
        # write of the function sits in the else part of this `if`
        def writes(x):
            return [m for m in A.walk(x) if m.get("e") == "mcall" and m["m"] in ("insert", "define_global", "define", "set_variable", "store", "extend", "entry")]
        then_writes = writes(n["then"])
        returns = bool(n["then"]["stmts"]) and "return Ok(())" in A.show(n["then"]["stmts"][-1].get("x"))
        if returns:
            ret_ok = not then_writes
        else:
            # statements that follow the guard in its block must not write (they would run on the guarded path too)
            after = []
            for blk in A.walk(sv["body"]):
                if blk.get("e") == "block":
                    for i, st in enumerate(blk["stmts"]):
                        if st.get("s") == "expr" and A.strip(st["x"]) is n:
                            after = blk["stmts"][i + 1:]
            ret_ok = not then_writes and n.get("else") is not None and not any(writes(st) for st in after) and not any(
                st.get("s") == "expr" and A.strip(st["x"]).get("e") == "ret" for st in n["then"]["stmts"])
        if ok and ret_ok:
            ctx.ok("F5-default-guard", "!default skips the assignment iff the current value is neither undefined nor null", None)
        else:
            ctx.fail("F5-default-guard", "!default skips the assignment iff the current value is neither undefined nor null",
                     f"the !default guard of Scope::set_variable is `{A.show(cond)[:160]}`: {why or 'it does not return early'}; `!default` must assign exactly when the variable is undefined or null")
    # global routing
    routes = [x for x in A.walk(sv["body"]) if x.get("e") == "if" and A.show(x["cond"]).strip() == "global"]
    if routes and "define_global" in A.show(routes[0]["then"]) + "".join(A.show(s.get("x")) for s in routes[0]["then"]["stmts"]):
        ctx.ok("F5-global-routing", "!global -> define_global", None)
    else:
        ctx.fail("F5-global-routing", "!global -> define_global", "Scope::set_variable no longer routes `!global` to define_global")
    # define_global writes only into a scope that has no parent, and moves along `.parent` otherwise (as a
    # recursion or as a loop): decided on the MIR, whatever the spelling
    dgb = prog.one("<variablescope::Scope>::define_global")
    from lib import sym as _sym
    _S = _sym.Sym(prog, inline_depth=0)
    dom = dgb.dominators()
    parent_sw = []
    for bi, blk in enumerate(dgb.blocks):
        t = blk["term"]
        if t["k"] == "switch" and t.get("discr_of") and (t.get("of_ty") or "").startswith("std::option::Option") and ".parent" in _sym.show(_sym.strip_transparent(_S.place(dgb, t["discr_of"]))):
            names = {n: tg for _, tg, n in t["targets"]}
            none_edge = names.get("None", t["otherwise"] if "Some" in names else None)
            some_edge = names.get("Some", t["otherwise"] if "None" in names else None)
            parent_sw.append((bi, none_edge, some_edge))
    writes = [bi for bi, t in dgb.calls() if (mir.callee_name(t) or "").endswith("BTreeMap<K, V, A>>::insert")]
    ok_w = bool(writes) and all(any(ne is not None and (ne in dom.get(w, ()) or ne == w) for _, ne, _ in parent_sw) for w in writes)
    moves = False
    for sw, ne, se in parent_sw:
        if se is None:
            continue
        reach = dgb.reachable_blocks(se)
        if sw in reach or any((mir.callee_name(t) or "").endswith("Scope>::define_global") for bi, t in dgb.calls() if bi in reach):
            moves = True
    if ok_w and moves:
        ctx.ok("F5-global-routing", "define_global ascends parent to the root", {"parent_switches": len(parent_sw), "writes": writes})
    else:
        ctx.fail("F5-global-routing", "define_global ascends parent to the root", f"define_global writes a variable table outside the `parent is None` edge ({not ok_w}) or never moves to the parent ({not moves}): `!global` must write the root scope", where=dgb.where())
    # does a flag-less assignment ever look at ancestors?
    sv_txt = " ".join(A.show(x) for x in A.walk(sv["body"]))
    ascends = "self.parent" in sv_txt or "get_parent" in sv_txt
    # ---------------------------------------------------------------- interpreters
    hi = tree.fn("output::transform::handle_item")
    eb = tree.one_method("variablescope::ScopeRef", "eval_body")
    tables = {}
    for name, f in (("handle_item", hi), ("eval_body", eb)):
        ms = [n for n in A.walk(f["body"]) if n.get("e") == "match" and any((arm_variant(a) or "").split("|")[0] in CONTROL for a in n["arms"])]
        if not ms:
            ctx.anchor_lost(f"{name} item match", "no match over sass::Item found")
            continue
        t = {}
        for arm in ms[0]["arms"]:
            v = arm_variant(arm)
            if v in CONTROL:
                t[v] = discipline(arm, name, tree)
        tables[name] = t
        ctx.floor(f"{name}: control-flow arms", len(t), 4)
    ctx.units["disciplines"] = tables
    for name, t in tables.items():
        for v, d in sorted(t.items()):
            # (ii)
            key = f"{name}|@{v.lower().replace('statement', '')}"
            if "sub-scope" in d["body"] and not ascends:
                ctx.fail("F8-control-flow-scope", key, f"{name}: the body of {v} runs in a fresh sub-scope and Scope::set_variable never looks at enclosing scopes: `$x: ...` inside the block cannot update an outer `$x` (it creates a local that is dropped)")
            else:
                ctx.ok("F8-control-flow-scope", key, {"body": d["body"]})
            # (iii)
            if v in ("Each", "For"):
                confined = d["loop_var"] == ["sub-scope"] or (d["loop_var"] == ["same-scope"] and d["store_restore"])
                if confined:
                    ctx.ok("F8-loop-var-confined", key, {"loop_var": d["loop_var"], "store_restore": d["store_restore"]})
                else:
                    ctx.fail("F8-loop-var-confined", key, f"{name}: the loop variable of {v} is defined in {d['loop_var']} without store/restore: it stays defined after the loop")
    # (iv)
    if len(tables) == 2:
        for v in CONTROL:
            a, b = tables["handle_item"].get(v), tables["eval_body"].get(v)
            if a is None or b is None:
                continue
            da = (tuple(a["body"]), tuple(a["loop_var"]), a["store_restore"])
            db = (tuple(b["body"]), tuple(b["loop_var"]), b["store_restore"])
            key = f"@{v.lower().replace('statement', '')}"
            if da == db:
                ctx.ok("F9-sibling-interpreters", key, {"discipline": a})
            else:
                ctx.fail("F9-sibling-interpreters", key, f"handle_item and eval_body disagree on {v}: {a} vs {b}; the same loop behaves differently inside and outside functions")
    # (iii) pairing of store/restore on the MIR of handle_item
    hb = prog.one("output::transform::handle_item")
    stores = [bi for bi, t in hb.calls() if (mir.callee_name(t) or "").endswith("::store_local_values")]
    restores = [bi for bi, t in hb.calls() if (mir.callee_name(t) or "").endswith("restore_local_values")]
    for s in stores:
        tgt = hb.blocks[s]["term"]["target"]
        p = cfgutil.paths_to_return_avoiding(hb, tgt, set(restores))
        if p:
            ctx.fail("F3-store-restore", "handle_item|@each", "a success path from store_local_values to the return of handle_item skips restore_local_values", path=[f"bb{x}" for x in p])
        else:
            ctx.ok("F3-store-restore", "handle_item|@each", {"store": s, "restores": restores})
    callable_scopes(ctx, prog)
    variables_never_forgotten(ctx, F.lib)
    ctx.explanation = ("Scope discipline extracted per Item arm of both interpreters (AST): where the body is evaluated (same scope / fresh sub-scope), where loop variables are defined, store/restore; "
                       "combined with whether Scope::set_variable can reach ancestors; exact shape of the !default guard; !global routing; CFG pairing of store/restore. "
                       "The full scoping relation over arbitrary nestings is a runtime relation and is not claimed.")


def default_guard_ok(cond):
    c = A.strip(cond)
    if not (c.get("e") == "unary" and c["op"] == "!"):
        return False, "it is not a negated `matches!`"
    m = A.strip(c["x"])
    if m.get("e") != "match":
        return False, "the tested predicate is not a `matches!` on the current value (a value-dependent predicate such as is_null() also holds for empty lists and strings)"
    on = A.strip(m["on"])
    if not (on.get("e") == "mcall" and on["m"] == "get_or_none" and A.show(on["recv"]).strip() == "self"):
        return False, "it does not test self.get_or_none(name)"
    if len(m["arms"]) != 2:
        return False, "unexpected arms"
    pats = sorted(A.showpat(x) for x in (m["arms"][0]["pat"]["xs"] if m["arms"][0]["pat"].get("p") == "or" else [m["arms"][0]["pat"]]))
    if pats != ["None", "Some(Value::Null)"]:
        return False, f"the overwritable states are {pats}, expected [None, Some(Value::Null)]"
    b0, b1 = A.strip(m["arms"][0]["body"]), A.strip(m["arms"][1]["body"])
    if not (b0.get("v") is True and b1.get("v") is False and m["arms"][1]["pat"].get("p") == "wild" and m["arms"][0].get("guard") is None):
        return False, "arms are not `=> true, _ => false`"
    return True, None


def callable_scopes(ctx, prog):
    """Mixin / function parameters and the variables assigned in their bodies are local: arguments are
    bound in a scope that FormalArgs::eval creates with ScopeRef::sub on *every* success path, and the
    body of a user function is evaluated in exactly that scope."""
    from lib import sym
    S = sym.Sym(prog, inline_depth=0)
    fe = prog.one("<sass::formal_args::FormalArgs>::eval")
    from rules.C18 import binder_set
    _root, binders = binder_set(prog)
    bset = {b_.def_ for b_ in binders}

    def ret_terms(body, env, depth=0):
        """terms of the scope returned on the success paths, looking through the FormalArgs helpers eval is
        split into (their parameters replaced by the caller's arguments)"""
        out = []
        for bi, si, s in body.stmts():
            if s["k"] == "assign" and s["p"][0] == 0 and not s["p"][1] and s["rv"]["k"] == "agg" and s["rv"].get("variant") == "Ok":
                out.append(sym.strip_transparent(S.operand(body, s["rv"]["ops"][0], env=env)))
        for bi, t in body.calls():
            d = t.get("dest")
            cn = mir.callee_name(t)
            if d and d[0] == 0 and not d[1] and cn in bset and cn != body.def_ and depth < 3:
                out += ret_terms(prog.bodies[cn], [S.operand(body, a, env=env) for a in t["args"]], depth + 1)
        return out
    oks = ret_terms(fe, None)
    good = oks and all(sym.match(t, ("call", "ScopeRef>::sub", [("param", 2)])) for t in oks)
    if good:
        ctx.ok("F4-callable-scope", "FormalArgs::eval always returns ScopeRef::sub(scope)", {"returns": [sym.show(t) for t in oks]})
    else:
        ctx.fail("F4-callable-scope", "FormalArgs::eval always returns ScopeRef::sub(scope)", f"FormalArgs::eval returns {[sym.show(t)[:80] for t in oks]}: on some path the arguments are bound (and the body then runs) in the caller-supplied scope itself, so assignments in a function/mixin body leak or overwrite outer variables", where=fe.where())
    for name in ("<sass::callable::Closure>::eval_value",):
        b = prog.one(name)
        bodies = [(bi, t) for bi, t in b.calls() if (mir.callee_name(t) or "").endswith("ScopeRef>::eval_body")]
        ok = bodies and all(sym.match(sym.strip_transparent(S.operand(b, t["args"][0])), ("try", ("call", "Closure>::eval_args", None), [])) for bi, t in bodies)
        if ok:
            ctx.ok("F4-callable-scope", "Closure::eval_value runs the body in the scope returned by eval_args", None)
        else:
            ctx.fail("F4-callable-scope", "Closure::eval_value runs the body in the scope returned by eval_args", f"the body of a user function is evaluated in `{[sym.show(sym.strip_transparent(S.operand(b, t['args'][0])))[:100] for bi, t in bodies]}`", where=b.where())
        args = [(bi, t) for bi, t in b.calls() if (mir.callee_name(t) or "").endswith("Closure>::eval_args")]
        ok2 = args and all(sym.strip_transparent(S.operand(b, t["args"][1]))[0] == "call" and sym.strip_transparent(S.operand(b, t["args"][1]))[1].endswith(("ScopeRef>::sub_selectors", "ScopeRef>::sub")) for bi, t in args)
        if ok2:
            ctx.ok("F4-callable-scope", "Closure::eval_value binds arguments under a fresh sub-scope of the declaring scope", None)
        else:
            ctx.fail("F4-callable-scope", "Closure::eval_value binds arguments under a fresh sub-scope of the declaring scope", f"eval_args receives `{[sym.show(sym.strip_transparent(S.operand(b, t['args'][1])))[:100] for bi, t in args]}`", where=b.where())
