"""C10 (partial) — structural clauses of number printing (AST rules over the number writer).

Correct rounding is numerical and is NOT decided here.  Decided, because their truth is in the
shape of `<Formatted<Number> as Display>::fmt` and of the CSS value writer:

 (i)   special values: the branch taken for `is_nan()` writes exactly `NaN`, the branch for
       `is_infinite()` writes `infinity` prefixed by `-` exactly when `is_sign_negative()`;
       neither branch falls into the digit code;
 (ii)  digit bound: every append to the fraction buffer happens in a `for` over `LO..HI` that
       appends one numeral per iteration, with HI = min(cap, precision), cap = 16 - (integer
       digits), plus at most LO further numerals afterwards; loops that carry / strip digits
       never grow the buffer.  Hence <= precision fractional digits and <= 16 significant ones;
 (iii) no negative zero: the `-` sign is written only under a test of the sign AND of both
       the printed integer part and the printed fraction being non-zero / non-empty;
 (iv)  plain decimal notation: every placeholder of the writer is a bare `{}` (no `e`/`E`/`?`
       or width/precision spec), and MIR shows only `Argument::new_display`;
 (v)   calc() wrapping: in the CSS value writer the `calc(` prefix of a number is guarded by a
       condition that contains `!..is_finite()`.
The leading-zero clause (dropped only in compressed style) is C08's style-read rule; C10 adds
 (vi)  the integer part is left out only under a test of the printed fraction buffer (so a number
       never prints without any digit).
"""
import re

from lib import ast as A
from lib import mir as M

FN = "value::number::<Formatted<'_, Number> as fmt::Display>::fmt"
CSSFN = "css::valueformat::<Formatted<'_, Value> as Display>::fmt"
EMIT = {"write_str", "write_char", "write_fmt", "push_str", "push"}


def is_mcall(n, m):
    n = A.strip(n)
    return n.get("e") == "mcall" and n["m"] == m and not n["args"]


def contains(n, pred):
    return any(pred(x) for x in A.walk(n))


def emissions(n):
    """emission nodes (method calls that write text) below n"""
    return [x for x in A.walk(n) if x.get("e") == "mcall" and x["m"] in EMIT and x["args"]]


def text_of(n, neg):
    """Text written by n, partially evaluated under `is_sign_negative() == neg`; None if unknown."""
    n = A.strip(n)
    e = n.get("e")
    if e == "lit":
        return n["v"] if n.get("t") in ("str", "char") else None
    if e == "try":
        return text_of(n["x"], neg)
    if e == "ret":
        return text_of(n["x"], neg) if n.get("x") else ""
    if e == "if":
        c = A.strip(n["cond"])
        pol = True
        while c.get("e") == "unary" and c["op"] == "!":
            c, pol = A.strip(c["x"]), not pol
        if is_mcall(c, "is_sign_negative") and n.get("else") is not None:
            return text_of(n["then"] if (neg == pol) else n["else"], neg)
        return None
    if e == "block":
        out = ""
        for s in n["stmts"]:
            if s.get("s") == "expr":
                t = text_of(s["x"], neg)
            elif s.get("s") == "let":
                continue
            else:
                t = None
            if t is None:
                return None
            out += t
        return out
    if e == "fmt":
        t = n["template"]
        args = [text_of(a["x"], neg) for a in n["args"]]
        if any(a is None for a in args):
            return None
        if re.search(r"\{\d+:[^}]*\}", t):
            return None
        t = t.replace("{{", "\x01").replace("}}", "\x02")
        t = re.sub(r"\{(\d+)\}", lambda m: args[int(m.group(1))], t)
        return t.replace("\x01", "{").replace("\x02", "}")
    if e == "mcall" and n["m"] in EMIT and len(n["args"]) == 1:
        return text_of(n["args"][0], neg)
    if e == "call" and A.is_path(n["f"], "Ok") and len(n["args"]) == 1:
        return ""
    return None


def diverges(block):
    st = block.get("stmts") or []
    return bool(st) and st[-1].get("s") == "expr" and A.strip(st[-1]["x"]).get("e") == "ret"


def special_values(ctx, f):
    body = f["body"]
    ifs = {"is_nan": [], "is_infinite": []}
    for n in A.walk(body):
        if n.get("e") == "if":
            for m in ifs:
                if is_mcall(n["cond"], m):
                    ifs[m].append(n)
    ctx.floor("C10 special-value tests in the number writer", sum(len(v) for v in ifs.values()), 2)
    want = {"is_nan": {True: "NaN", False: "NaN"}, "is_infinite": {True: "-infinity", False: "infinity"}}
    special = []
    for m, nodes in ifs.items():
        if len(nodes) != 1:
            ctx.anchor_lost(f"number writer `{m}()` branch", f"expected exactly one `if ..{m}()`, found {len(nodes)}")
            continue
        n = nodes[0]
        special.append(n)
        for neg in (True, False):
            got = text_of(n["then"], neg)
            key = f"{m}|{'negative' if neg else 'positive'}"
            if got == want[m][neg]:
                ctx.ok("special-value-text", key, f"writes {got!r}")
            else:
                ctx.fail("special-value-text", key, f"the `{m}()` branch writes {got!r} for a {'negative' if neg else 'positive'} sign, expected {want[m][neg]!r}",
                         where=f["path"])
    # the digit code must not run for NaN / infinities: every other emission lies in the else
    # part of both tests, unless the special branch returns.
    if len(special) == 2:
        inside = set()
        for n in special:
            inside |= {id(x) for x in emissions(n["then"])}
        stray = []
        for x in emissions(body):
            if id(x) in inside:
                continue
            ok = True
            for n in special:
                in_else = n.get("else") is not None and any(y is x for y in emissions(n["else"]))
                if not (in_else or diverges(n["then"])):
                    ok = False
            if not ok:
                stray.append(A.show(x)[:60])
        if stray:
            ctx.fail("special-value-exclusive", "digit-code", f"text is written for NaN/infinite values outside their own branch: {stray[:3]}", where=f["path"])
        else:
            ctx.ok("special-value-exclusive", "digit-code", "all other writes are in the else part of both tests")


# ------------------------------------------------------------------ (ii) digit bound

class Growth:
    def __init__(self, buf):
        self.buf = buf
        self.loops = []      # (for-node, per-iteration growth)
        self.problems = []

    def on_buf(self, n):
        r = A.strip(n)
        return r.get("e") == "path" and r["p"] == self.buf

    def g(self, n):
        """max net number of numerals appended to the buffer by n (for-loops recorded apart)"""
        if isinstance(n, list):
            return sum(self.g(x) for x in n)
        if not isinstance(n, dict):
            return 0
        e = n.get("e")
        if "s" in n:
            if n["s"] == "let":
                return self.g(n.get("init")) if n.get("init") is not None else 0
            if n["s"] == "expr":
                return self.g(n["x"])
            return 0
        if e == "block":
            return sum(self.g(s) for s in n["stmts"])
        if e == "if":
            c = self.g(A.strip(n["cond"]).get("x") if A.strip(n["cond"]).get("e") == "let" else n["cond"])
            a = self.g(n["then"])
            b = self.g(n["else"]) if n.get("else") is not None else 0
            return c + max(a, b)
        if e == "match":
            base = 0
            on = A.strip(n["on"])
            popped = on.get("e") == "mcall" and on["m"] == "pop" and self.on_buf(on["recv"])
            if not popped:
                base = self.g(n["on"])
            outs = []
            for arm in n["arms"]:
                start = 0
                if popped and A.pat_matches_variant(arm["pat"], "Some") != "no" and A.pat_matches_variant(arm["pat"], "None") == "no":
                    start = -1
                outs.append(start + self.g(arm["body"]))
            return base + (max(outs) if outs else 0)
        if e == "for":
            b = self.g(n["body"])
            if b > 0:
                self.loops.append((n, b))
            return self.g(n["iter"])
        if e in ("loop", "while"):
            b = self.g(n["body"])
            if b > 0:
                self.problems.append(f"a `{e}` loop can grow the fraction buffer by {b} per iteration without a bound")
            return 0
        if e == "closure":
            b = self.g(n["body"])
            if b > 0:
                self.problems.append("a closure appends to the fraction buffer")
            return 0
        if e == "mcall":
            inner = self.g(n["recv"]) + sum(self.g(a) for a in n["args"])
            if self.on_buf(n["recv"]):
                if n["m"] == "push":
                    return inner + 1
                if n["m"] == "write_fmt":
                    fm = [x for x in A.walk(n["args"][0]) if x.get("e") == "fmt"]
                    if len(fm) == 1 and re.fullmatch(r"\{\d+\}", fm[0]["template"] or ""):
                        return inner + 1
                    self.problems.append(f"write to the fraction buffer is not a single bare numeral: {A.show(n)[:70]}")
                    return inner + 1
                if n["m"] in ("push_str", "insert", "insert_str", "extend", "write_str", "write_char"):
                    self.problems.append(f"unbounded append to the fraction buffer: {A.show(n)[:70]}")
                    return inner + 1
            return inner
        total = 0
        for k, v in A.children(n):
            total += self.g(v)
        return total


def resolve_local(f, name):
    """init expression of the unique `let name = ..` in f"""
    c = [s for s in A.walk(f["body"]) if s.get("s") == "let" and s["pat"].get("p") == "bind" and s["pat"]["n"] == name and s.get("init") is not None]
    return A.strip(c[0]["init"]) if len(c) == 1 else None


def min_operands(n):
    n = A.strip(n)
    if n.get("e") == "mcall" and n["m"] == "min" and len(n["args"]) == 1:
        return [A.strip(n["recv"]), A.strip(n["args"][0])]
    if n.get("e") == "call" and A.is_path(n["f"], "min") and len(n["args"]) == 2:
        return [A.strip(a) for a in n["args"]]
    return None


def digit_bound(ctx, f):
    bufs = [s for s in A.walk(f["body"]) if s.get("s") == "let" and s["pat"].get("p") == "bind" and s.get("init") is not None
            and A.strip(s["init"]).get("e") == "call" and A.strip(s["init"])["f"].get("e") == "path"
            and A.strip(s["init"])["f"]["p"] in ("String::with_capacity", "String::new")]
    if len(bufs) != 1:
        ctx.anchor_lost("number writer fraction buffer", f"expected one String buffer local, found {len(bufs)}")
        return None
    buf = bufs[0]["pat"]["n"]
    G = Growth(buf)
    const = G.g(f["body"])
    for p in G.problems:
        ctx.fail("digit-bound", "append|" + p[:50], p, where=f["path"])
    if len(G.loops) != 1:
        ctx.anchor_lost("number writer digit loop", f"expected one `for` loop appending numerals to `{buf}`, found {len(G.loops)}")
        return buf
    loop, per = G.loops[0]
    it = A.strip(loop["iter"])
    if it.get("e") != "range" or it.get("lo") is None or it.get("hi") is None:
        ctx.fail("digit-bound", "loop-range", f"the digit loop does not run over a bounded range: {A.show(it)[:60]}", where=f["path"])
        return buf
    lo = A.strip(it["lo"])
    lo_v = int(lo["v"]) if lo.get("e") == "lit" and lo.get("t") == "int" else None
    extra = const + (1 if it.get("incl") else 0)
    if per != 1:
        ctx.fail("digit-bound", "per-iteration", f"the digit loop appends {per} numerals per iteration", where=f["path"])
    elif lo_v is None or extra > lo_v:
        ctx.fail("digit-bound", "count", f"the loop over {A.show(it)} appends one numeral per iteration and up to {const} more are appended outside it"
                 + (" (inclusive range)" if it.get("incl") else "") + ": more than HI numerals in total, so the precision is exceeded", where=f["path"])
    else:
        ctx.ok("digit-bound", "count", f"(HI - {lo_v}) + {extra} <= HI numerals, HI = {A.show(it['hi'])}")
    ops = min_operands(it["hi"])
    if ops is None:
        h = A.strip(it["hi"])
        if h.get("e") == "path":
            r = resolve_local(f, h["p"])
            ops = min_operands(r) if r is not None else None
    if ops is None:
        ctx.fail("digit-bound", "precision", f"the loop bound {A.show(it['hi'])[:60]} is not a minimum with the format's precision", where=f["path"])
        return buf
    shown = [A.show(o) for o in ops]
    if any(s.endswith("format.precision") or s.endswith(".precision") for s in shown):
        ctx.ok("digit-bound", "precision", f"HI = min({', '.join(shown)})")
    else:
        ctx.fail("digit-bound", "precision", f"the loop bound min({', '.join(shown)}) does not involve the format's precision", where=f["path"])
    cap_ok = False
    for o in ops:
        r = o
        if o.get("e") == "path":
            r = resolve_local(f, o["p"]) or o
        if r.get("e") == "bin" and r["op"] == "-":
            l = A.strip(r["l"])
            if l.get("e") == "lit" and l.get("t") == "int" and int(l["v"]) <= 16 and contains(r["r"], lambda x: x.get("e") == "mcall" and x["m"] == "log10"):
                cap_ok = True
                ctx.ok("digit-bound", "significant-cap", f"{A.show(r)[:70]}")
    if not cap_ok:
        ctx.fail("digit-bound", "significant-cap", f"no operand of min({', '.join(shown)}) is `N - <integer digits (log10)>` with N <= 16: the 16-significant-digit cap is gone", where=f["path"])
    return buf


# ------------------------------------------------------------------ (iii) negative zero

def enclosing_conditions(root, target):
    """conditions of the `if`s whose then-branch contains target"""
    out = []

    def rec(n, conds):
        if n is target:
            out.extend(conds)
            return True
        if isinstance(n, list):
            return any(rec(x, conds) for x in n)
        if not isinstance(n, dict):
            return False
        if n.get("e") == "if":
            if rec(n["then"], conds + [n["cond"]]):
                return True
            if n.get("else") is not None and rec(n["else"], conds):
                return True
            return rec(n["cond"], conds)
        return any(rec(v, conds) for k, v in A.children(n))
    rec(root, [])
    return out


def negative_zero(ctx, f, buf):
    signs = [x for x in emissions(f["body"]) if A.lit_str(A.strip(x["args"][0])) == "-" and not (A.strip(x["recv"]).get("e") == "path" and A.strip(x["recv"])["p"] == buf)]
    # the infinity branch's "-" is an `if` expression value, not an emission call
    ctx.floor("C10 minus-sign writes of the digit code", len(signs), 1)
    # the integer part: the local written to the formatter with a bare placeholder
    whole = None
    for x in emissions(f["body"]):
        if x["m"] == "write_fmt" and not (A.strip(x["recv"]).get("e") == "path" and A.strip(x["recv"])["p"] == buf):
            fm = [y for y in A.walk(x["args"][0]) if y.get("e") == "fmt"]
            if len(fm) == 1 and re.fullmatch(r"\{0\}", fm[0]["template"] or "") and A.strip(fm[0]["args"][0]["x"]).get("e") == "path":
                whole = A.strip(fm[0]["args"][0]["x"])["p"]
    if whole is None:
        ctx.anchor_lost("number writer integer part", "no `write!(out, \"{}\", <local>)` found")
        return
    for n, s in enumerate(signs):
        conds = enclosing_conditions(f["body"], s)
        text = " && ".join(A.show(c) for c in conds)
        has_sign = any(contains(c, lambda x: x.get("e") == "mcall" and x["m"] == "is_sign_negative") for c in conds)
        has_whole = any(contains(c, lambda x: x.get("e") == "path" and x["p"] == whole) for c in conds)
        has_frac = any(contains(c, lambda x: x.get("e") == "path" and x["p"] == buf) for c in conds)
        if has_sign and has_whole and has_frac:
            ctx.ok("negative-zero", f"sign-write#{n}", f"guard: {text[:100]}")
        else:
            missing = [w for w, h in (("the sign", has_sign), (f"the integer part `{whole}`", has_whole), (f"the fraction `{buf}`", has_frac)) if not h]
            ctx.fail("negative-zero", f"sign-write#{n}", f"`-` is written under `{text[:80] or 'no condition'}`, which does not test {', '.join(missing)}: a value that prints as 0 can get a minus sign", where=f["path"])


def integer_part_guard(ctx, f, buf):
    """the integer part may be left out (compressed `.5`) only when the *printed* fraction is non-empty: the
    condition under which `{whole}` is not written must consult the fraction buffer, otherwise a value whose
    fraction rounds away prints as the empty string"""
    whole_writes = []
    for x in emissions(f["body"]):
        if x["m"] == "write_fmt" and not (A.strip(x["recv"]).get("e") == "path" and A.strip(x["recv"])["p"] == buf):
            fm = [y for y in A.walk(x["args"][0]) if y.get("e") == "fmt"]
            if len(fm) == 1 and re.fullmatch(r"\{0\}", fm[0]["template"] or "") and A.strip(fm[0]["args"][0]["x"]).get("e") == "path":
                whole_writes.append(x)
    if len(whole_writes) != 1:
        ctx.anchor_lost("number writer integer part write", f"found {len(whole_writes)}")
        return
    conds = enclosing_conditions(f["body"], whole_writes[0])
    if not conds:
        ctx.ok("integer-part-guard", "integer part", "always written")
        return
    exprs = []
    for c in conds:
        c = A.strip(c)
        exprs.append(c)
        for x in A.walk(c):
            if x.get("e") == "path":
                r = resolve_local(f, x["p"])
                if r is not None and x["p"] != buf:
                    exprs.append(r)
    mentions = any(contains(e, lambda y: y.get("e") == "path" and y["p"] == buf) for e in exprs)
    text = " / ".join(A.show(e)[:60] for e in exprs)
    if mentions:
        ctx.ok("integer-part-guard", "integer part", f"omitted only under a test of the printed fraction: {text[:120]}")
    else:
        ctx.fail("integer-part-guard", "integer part", f"the integer part is left out under `{text[:160]}`, which does not consult the printed fraction `{buf}`: a value whose fraction rounds to nothing prints without any digit", where=f["path"])


# ------------------------------------------------------------------ (iv) plain notation

def plain_notation(ctx, F, f):
    n_t = 0
    for x in A.walk(f["body"]):
        if x.get("e") == "fmt":
            n_t += 1
            bad = re.findall(r"\{\d+:[^}]*\}", (x["template"] or "").replace("{{", ""))
            if bad:
                ctx.fail("plain-notation", f"template|{x['template'][:30]}", f"placeholder with a format spec {bad} in the number writer (exponent / padded notation)", where=f["path"])
            else:
                ctx.ok("plain-notation", f"template|{x['template'][:30]}")
    ctx.floor("C10 templates of the number writer", n_t, 4)
    body = F.lib.one("Formatted<'_, value::number::Number> as std::fmt::Display>::fmt")
    ctors = []
    for bb, t in body.calls():
        name = M.callee_name(t) or ""
        if "Argument<" in name and "::new_" in name:
            ctors.append((name.rsplit("::", 1)[-1], t.get("line")))
    ctx.floor("C10 fmt::Argument constructors in the number writer (MIR)", len(ctors), 4)
    for kind, line in ctors:
        if kind != "new_display":
            ctx.fail("plain-notation", f"mir|{kind}", f"the number writer formats an argument with {kind} (not plain Display)", where=f"{body.file}:{line}")
    if all(k == "new_display" for k, _ in ctors):
        ctx.ok("plain-notation", "mir|new_display", f"{len(ctors)} arguments, all Display")


# ------------------------------------------------------------------ (v) calc wrapping

def calc_wrap(ctx, tree):
    f = tree.fn(CSSFN)
    opens = [x for x in emissions(f["body"]) if A.lit_str(A.strip(x["args"][0])) == "calc("]
    ctx.floor("C10 `calc(` writes in the CSS value writer", len(opens), 1)
    for n, x in enumerate(opens):
        conds = enclosing_conditions(f["body"], x)
        exprs = []
        for c in conds:
            c = A.strip(c)
            exprs.append(c)
            if c.get("e") == "path":
                r = resolve_local(f, c["p"])
                if r is not None:
                    exprs.append(r)

        def neg_finite(e):
            for u in A.walk(e):
                if u.get("e") == "unary" and u["op"] == "!" and contains(u["x"], lambda y: y.get("e") == "mcall" and y["m"] == "is_finite"):
                    return True
            return False
        if any(neg_finite(e) for e in exprs):
            ctx.ok("calc-wrap", f"calc-open#{n}", " / ".join(A.show(e)[:60] for e in exprs))
        else:
            ctx.fail("calc-wrap", f"calc-open#{n}", "the `calc(` prefix of a number is not guarded by `!..is_finite()`: " + " / ".join(A.show(e)[:60] for e in exprs), where=f["path"])


def run(ctx, F):
    ctx.explanation = ("C10, structural clauses only (correct rounding is numerical and not decided): special-value texts, "
                       "digit-count bound by precision and the 16-significant-digit cap, negative-zero guard, plain decimal notation, "
                       "calc() wrapping of non-finite numbers; AST rules over the number writer + MIR Argument constructors")
    tree = F.ast
    f = tree.fn(FN)
    special_values(ctx, f)
    buf = digit_bound(ctx, f)
    if buf:
        negative_zero(ctx, f, buf)
        integer_part_guard(ctx, f, buf)
    plain_notation(ctx, F, f)
    calc_wrap(ctx, tree)
