"""C38 — library entry points agree with each other (F9 shared implementation / F4 provenance).

The three public entry points are shown to be compositions of the same callees with the
caller's arguments, by matching the symbolic term of their return value:
  compile_scss(i, f)      = transform(with_format(FsContext::for_cwd(), f), scss_bytes(i, root("-")))
  compile_scss_path(p, f) = { let (c, s) = FsContext::for_path(p)?; transform(with_format(c, f), s) }
  compile_value(i, f)     = Ok(into_bytes(to_string(format(evaluate(parse_value_data(i)?, new_global(f))?, f))))
and the declaration path prints `valid_css(value)` through the same `Value::format(..).to_string()`
with `replace('\\n', " ")`; `valid_css` returns its receiver (or the recursively validated operation),
so for every value that is valid CSS both texts coincide.
"""
from lib import mir, sym, errflow

TRY = lambda p, *proj: ("try", p, list(proj))


def run(ctx, F):
    prog = F.lib
    S = sym.Sym(prog, inline_depth=0)
    # ---------------------------------------------------------------- compile_scss
    b = prog.one("compile_scss")
    t = sym.strip_transparent(S.local(b, 0))
    pat = ("call", "Context<AnyLoader>>::transform", [
        ("call", "Context<AnyLoader>>::with_format", [("call", "Context<input::fsloader::FsLoader>>::for_cwd", []), ("param", 2)]),
        ("call", "SourceFile>::scss_bytes", [("param", 1), ("call", "SourceName>::root", [("const", "-")])])])
    check(ctx, "compile_scss", t, [pat], b)
    # ---------------------------------------------------------------- compile_scss_path
    b = prog.one("compile_scss_path")
    t = sym.strip_transparent(S.local(b, 0))
    fp = ("call", "Context<input::fsloader::FsLoader>>::for_path", [("param", 1)])
    ok = ("call", "Context<AnyLoader>>::transform", [("call", "Context<AnyLoader>>::with_format", [TRY(fp, ".0"), ("param", 2)]), TRY(fp, ".1")])
    err = ("call", "FromResidual<std::result::Result<std::convert::Infallible, E>>>::from_residual", None)
    check(ctx, "compile_scss_path", t, [ok, err], b, need=[ok])
    # ---------------------------------------------------------------- compile_value
    b = prog.one("compile_value")
    t = sym.strip_transparent(S.local(b, 0))
    ev = ("call", "sass::value::Value>::evaluate", [TRY(("call", "parse_value_data", [("param", 1)])), ("call", "ScopeRef>::new_global", [("param", 2)])])
    okv = ("agg", "result::Result::Ok", [("call", "String>::into_bytes", [("call", "css::value::Value>::format", [TRY(ev), ("param", 2)])])])
    check(ctx, "compile_value", t, [okv, err], b, need=[okv])
    # to_string instance used by compile_value and by Property::write
    inst = {}
    for name in ("compile_value", "<css::rule::Property>::write"):
        bb = prog.one(name)
        ts = [mir.callee_name(tm) for bi, tm in bb.calls() if (mir.callee_orig(tm) or "").endswith("ToString::to_string")]
        gargs = [tm["callee"].get("gargs") for bi, tm in bb.calls() if (mir.callee_orig(tm) or "").endswith("ToString::to_string")]
        inst[name] = (ts, gargs)
    a, c = inst["compile_value"], inst["<css::rule::Property>::write"]
    if a[0] and a == c and "Formatted" in str(a[1]):
        ctx.ok("F9-same-renderer", "compile_value / Property::write to_string instance", {"instance": a[0][0], "gargs": a[1][0]})
    else:
        ctx.fail("F9-same-renderer", "compile_value / Property::write to_string instance", f"compile_value renders through {a} but declarations through {c}")
    # ---------------------------------------------------------------- Property::write
    b = prog.one("<css::rule::Property>::write")
    adds = [(bi, tm) for bi, tm in b.calls() if (mir.callee_name(tm) or "").endswith("CssBuf>::add_str")]
    val_pat = ("call", "<str>::replace", [("call", "css::value::Value>::format", [("param", 1, [".value"]), ("call", "CssBuf>::format", [("param", 2)])]), ("const", "\n"), ("const", " ")])
    terms = [sym.strip_transparent(S.operand(b, tm["args"][1])) for bi, tm in adds]
    rendered = [x for x in terms if "Value>::format" in repr(x)]
    if rendered and all(sym.match(x, val_pat) for x in rendered):
        ctx.ok("F4-declaration-text", "Property::write value text", {"term": [sym.show(x) for x in terms if sym.match(x, val_pat)][0]})
    else:
        ctx.fail("F4-declaration-text", "Property::write value text", f"Property::write emits {[sym.show(x)[:120] for x in terms]}; expected self.value.format(buf.format()).to_string().replace('\\n', \" \")", where=b.where())
    # ---------------------------------------------------------------- valid_css returns its receiver
    for fn, self_ok in (("<css::value::Value>::valid_css", True), ("<css::binop::BinOp>::valid_css", True)):
        vb = prog.one(fn)
        n = 0
        for bi, si, s in vb.stmts():
            if s["k"] == "assign" and s["p"][0] == 0 and not s["p"][1] and s["rv"]["k"] == "agg" and s["rv"].get("adt", "").endswith("result::Result") and s["rv"]["variant"] == "Ok":
                n += 1
                x = sym.strip_transparent(S.operand(vb, s["rv"]["ops"][0]))
                good = sym.match(x, ("param", 1)) or sym.match(x, TRY(("call", "::valid_css", None)))
                key = f"{fn}|Ok#{n}"
                if good:
                    ctx.ok("F4-validator-is-identity", key, {"returns": sym.show(x)[:100]})
                else:
                    ctx.fail("F4-validator-is-identity", key, f"{fn} returns Ok(`{sym.show(x)[:160]}`), a rebuilt value instead of its receiver: the declaration path would print something else than compile_value", where=f"{vb.file}:{s.get('line')}")
        # `_0` written by a call (e.g. Ok(..) built elsewhere)
        for bi, tm in vb.calls():
            if tm["dest"][0] == 0 and not (mir.callee_orig(tm) or "").endswith("from_residual"):
                ctx.fail("F4-validator-is-identity", f"{fn}|ret-by-call|{mir.callee_name(tm)}", f"{fn} returns the result of {mir.callee_name(tm)}", where=vb.where(bi))
        ctx.floor(f"Ok returns in {fn}", n, 1)
    # the declaration arm pushes valid_css(evaluate(value))
    hi = prog.one("output::transform::handle_item")
    pushes = [(bi, tm) for bi, tm in hi.calls() if (mir.callee_orig(tm) or "").endswith("CssDestination::push_property")]
    seen_decl = False
    for bi, tm in pushes:
        v = sym.strip_transparent(S.operand(hi, tm["args"][2]))
        if "as Property" in repr(v):
            seen_decl = True
            ev = ("call", "sass::value::Value>::evaluate", [("param", 1, ["as Property", ".1"]), "*"])
            want = TRY(("call", "ResultPos<T>>::at", [("call", "css::value::Value>::valid_css", [TRY(ev)]), "*"]))
            if sym.match(v, want):
                ctx.ok("F4-declaration-value", "handle_item Property arm pushes valid_css(evaluate(value))", None)
            else:
                ctx.fail("F4-declaration-value", "handle_item Property arm pushes valid_css(evaluate(value))", f"the declaration value is `{sym.show(v)[:260]}`", where=hi.where(bi))
    if not seen_decl:
        ctx.anchor_lost("handle_item Property arm", "no push_property call whose value derives from Item::Property")

    # ---------------------------------------------------------------- sibling constructors of the two entry points
    # compile_scss uses FsContext::for_cwd, compile_scss_path FsContext::for_path: both must be nothing but
    # `for_loader(<their FsLoader constructor>)` — anything else done to the context in one of them (an extra
    # load path, a different format) makes the two entry points disagree on the same source.
    PLUMBING = ("Try>::branch", "::from_residual", "Try>::from_output")
    shapes = {}
    for nm, inner in (("Context<input::fsloader::FsLoader>>::for_path", "<input::fsloader::FsLoader>::for_path"),
                      ("Context<input::fsloader::FsLoader>>::for_cwd", "<input::fsloader::FsLoader>::for_cwd")):
        cb = prog.one(nm)
        callees = [mir.callee_name(tm) or "<indirect>" for bi, tm in cb.calls()]
        extra = sorted({mir.short(c) for c in callees if not any(c.endswith(x) for x in PLUMBING) and c != inner and not c.endswith("Context<AnyLoader>>::for_loader") and not c.startswith("tracing") and "tracing::" not in c and "tracing_core::" not in c})
        has = inner in callees and any(c.endswith("Context<AnyLoader>>::for_loader") for c in callees)
        key = f"FsContext::{nm.rsplit('::', 1)[-1]} = for_loader(FsLoader::{nm.rsplit('::', 1)[-1]}(..))"
        if has and not extra:
            ctx.ok("F9-sibling-constructors", key, None)
        else:
            ctx.fail("F9-sibling-constructors", key, f"the context constructor behind {'compile_scss_path' if nm.endswith('for_path') else 'compile_scss'} does more than wrap its loader (extra calls: {extra}; expected only FsLoader::{nm.rsplit('::', 1)[-1]} and for_loader): "
                     "the two entry points no longer resolve loads the same way", where=cb.where())
    # ---------------------------------------------------------------- for_path reads the file's bytes
    fp = prog.one("<input::fsloader::FsLoader>::for_path")
    reads = [(bi, tm) for bi, tm in fp.calls() if (mir.callee_name(tm) or "").endswith("SourceFile>::read")]
    if len(reads) != 1:
        ctx.anchor_lost("FsLoader::for_path read", f"expected one SourceFile::read, found {len(reads)}")
    else:
        f_term = sym.strip_transparent(S.operand(fp, reads[0][1]["args"][0]))
        if sym.match(f_term, TRY(("call", "map_err", [("call", "File>::open", [("param", 1)]), "*"]))):
            ctx.ok("F4-path-source", "for_path reads File::open(path)", None)
        else:
            ctx.fail("F4-path-source", "for_path reads File::open(path)", f"for_path reads `{sym.show(f_term)[:200]}`", where=fp.where(reads[0][0]))
    rd = prog.one("<input::sourcefile::SourceFile>::read")
    sites = errflow.analyse_body(rd)
    bad = [s for s in sites if errflow.verdict(s) != "propagate"]
    ends = [tm for bi, tm in rd.calls() if (mir.callee_orig(tm) or "").endswith("Read::read_to_end")]
    if ends and not bad:
        ctx.ok("F4-path-source", "SourceFile::read = read_to_end, errors propagated", None)
    else:
        ctx.fail("F4-path-source", "SourceFile::read = read_to_end, errors propagated", f"read_to_end calls: {len(ends)}, non-propagated results: {[s.callee for s in bad]}", where=rd.where())
    ctx.explanation = ("Symbolic return-value terms of compile_scss / compile_scss_path / compile_value matched against the documented compositions (same resolved callees, caller's format and input); "
                       "compile_value and Property::write share the ToString instance of Formatted<Value>; valid_css returns its receiver on every Ok path; the declaration arm pushes valid_css(evaluate(value)).")


def check(ctx, name, t, pats, body, need=None):
    alts = sym.alternatives(t)
    unmatched = [a for a in alts if not any(sym.match(a, p) for p in pats)]
    missing = [p for p in (need or pats[:1]) if not any(sym.match(a, p) for a in alts)]
    if not unmatched and not missing:
        ctx.ok("F9-entry-composition", name, {"term": sym.show(t)[:300]})
    else:
        ctx.fail("F9-entry-composition", name, f"{name} is not the documented composition: unexpected alternative(s) {[sym.show(a)[:200] for a in unmatched]}" + (" ; required form missing" if missing else ""), where=body.where())
