"""C02 — module loading terminates; only real cycles are loop errors.

Structural clauses decided on the MIR of every function that takes the load lock:
 (a) lock spans evaluation: the body parsed from a locked file is evaluated
     (handle_parsed / handle_body / handle_css, or inside the load_module closure)
     before unlock_loading, and never leaves the locked region through the return value;
 (b) no false loop errors: every success path from the point where the lock is held to
     the function's normal return passes unlock_loading for that file, and lock/unlock
     use the same key expression of the file;
 (c) canonical key: the name under which a file is locked passes a path-normalising step;
 (d) no unlocked hand-out: find_file (and any helper it is split into) returns a loaded file only
     on paths that passed lock_loading.
"""
from lib import mir, sym, cfgutil
from rules.loadlock import lock_users, LockUser, ends, FIND_FILE, LOCK, UNLOCK, PARSE, HANDLERS, LOAD_MODULE, SOURCEFILE_TY

NORMALISER_CALLS = ("<str>::split", "<str>::rsplit", "<str>::split_terminator", "<std::path::Path>::components", "<str>::split_inclusive")


def key_terms(prog, S):
    lock = prog.one(LOCK)
    unlock = prog.one(UNLOCK)
    ins = [t for bi, t in lock.calls() if (mir.callee_name(t) or "").endswith("BTreeMap<K, V, A>>::insert")]
    rem = [t for bi, t in unlock.calls() if (mir.callee_name(t) or "").endswith("BTreeMap<K, V, A>>::remove")]
    return lock, unlock, ins, rem


def run(ctx, F):
    prog = F.lib
    S, users = lock_users(prog)
    # ------------------------------------------------------------------ (b1) same key
    lock, unlock, ins, rem = key_terms(prog, S)
    if len(ins) != 1 or len(rem) != 1:
        ctx.anchor_lost("lock_loading/unlock_loading map operations", f"expected one BTreeMap::insert in lock_loading and one remove in unlock_loading, found {len(ins)}/{len(rem)}")
    else:
        k_ins = sym.strip_transparent(S.operand(lock, ins[0]["args"][1]))
        k_rem = sym.strip_transparent(S.operand(unlock, rem[0]["args"][1]))
        m_ins = sym.strip_transparent(S.operand(lock, ins[0]["args"][0]))
        m_rem = sym.strip_transparent(S.operand(unlock, rem[0]["args"][0]))
        detail = {"insert_key": sym.show(k_ins), "remove_key": sym.show(k_rem), "map": sym.show(m_ins)}
        if k_ins == k_rem and m_ins == m_rem and not sym._has_unknown(k_ins):
            ctx.ok("F4-lock-key-agreement", "lock_loading.insert == unlock_loading.remove", detail)
        else:
            ctx.fail("F4-lock-key-agreement", "lock_loading.insert == unlock_loading.remove",
                     f"lock_loading inserts key `{sym.show(k_ins)}` but unlock_loading removes `{sym.show(k_rem)}`: a file can stay locked (false loop errors) or be unlocked early",
                     where=unlock.where())
        # (c) canonical key
        calls = sym.calls_in(S.operand(lock, ins[0]["args"][1]))
        name_src = canonical_sources(prog, S)
        if name_src["normalised"]:
            ctx.ok("F4-canonical-lock-key", "Context.loading key", name_src)
        else:
            ctx.fail("F4-canonical-lock-key", "Context.loading key",
                     "the name a file is locked under is the spelled URL joined to the importer's directory by string concatenation; no step rewrites `.`/`..` segments, so `a`, `./a`, `d/../a` are different lock keys (a real cycle through another spelling recurses until the stack overflows)",
                     where=lock.where(), extra={"name_sources": name_src["terms"]})
    # ------------------------------------------------------------------ users
    n_find = n_unlock = n_lock = 0
    for u in users:
        b = u.body
        n_find += len(u.find_sites)
        n_unlock += len(u.unlock_sites)
        n_lock += len(u.lock_sites)
        for fi, find_bi in enumerate(u.find_sites):
            tag = f"{b.def_}|find_file#{fi}"
            starts = u.held_starts(find_bi)
            unlocks = u.unlocks_for(find_bi)
            if not starts:
                ctx.fail("anchor-lost", tag + "|held-region", "cannot locate where the SourceFile returned by find_file is bound (shape of the lock user changed)", where=b.where(find_bi))
                continue
            # (b2) pairing
            bad = None
            for st in starts:
                p = cfgutil.paths_to_return_avoiding(b, st, set(unlocks))
                if p:
                    bad = p
                    break
            if bad:
                ctx.fail("F3-unlock-on-success", tag, f"a success path from the locked file to the normal return of {b.def_} does not pass unlock_loading: the file stays locked and a later load reports a false loop",
                         where=b.where(find_bi), path=[f"bb{x}" for x in bad])
            else:
                ctx.ok("F3-unlock-on-success", tag, {"held_from": starts, "unlocks": unlocks})
            # (a) evaluation inside the locked region
            check_evaluation_locked(ctx, prog, u, find_bi, starts, unlocks, tag)
        for li, lock_bi in enumerate(u.lock_sites):
            # direct lock_loading (the root file in Context::transform)
            tag = f"{b.def_}|lock_loading#{li}"
            tt = cfgutil.try_targets(b, lock_bi)
            if tt is None:
                ctx.fail("F3-unlock-on-success", tag, "the result of lock_loading is not consumed by `?`", where=b.where(lock_bi))
                continue
            file_term = sym.strip_transparent(S.operand(b, b.blocks[lock_bi]["term"]["args"][1]))
            unlocks = [x for x in u.unlock_sites if sym.strip_transparent(S.operand(b, b.blocks[x]["term"]["args"][1])) == file_term]
            p = cfgutil.paths_to_return_avoiding(b, tt[0], set(unlocks))
            if p:
                ctx.fail("F3-unlock-on-success", tag, f"a success path of {b.def_} returns with the root file still locked", where=b.where(lock_bi), path=[f"bb{x}" for x in p])
            else:
                ctx.ok("F3-unlock-on-success", tag, {"held_from": tt[0], "unlocks": unlocks})
            # evaluation between lock and unlock
            parses = [pb for pb in u.parse_sites if sym.strip_transparent(S.operand(b, b.blocks[pb]["term"]["args"][0])) == file_term]
            evaluated = False
            for pb in parses:
                for h in u.handler_sites:
                    if derives(b, b.blocks[h]["term"]["args"][0], pb):
                        evaluated = True
                        if u.reaches(unlocks, h, avoid=(lock_bi,)):
                            ctx.fail("F3-lock-spans-evaluation", tag, "the root file's body is evaluated after unlock_loading", where=b.where(h))
                        elif h not in b.reachable_blocks(tt[0]):
                            ctx.fail("F3-lock-spans-evaluation", tag, "the root file's body is evaluated before the lock is taken", where=b.where(h))
                        else:
                            ctx.ok("F3-lock-spans-evaluation", tag, {"parse": pb, "handler": h})
            if not evaluated:
                ctx.fail("anchor-lost", tag + "|evaluation", "no handle_parsed call consumes the parsed root file in this function", where=b.where(lock_bi))
    acquirers_always_lock(ctx, prog, S)
    ctx.floor("find_file call sites", n_find, 4)
    ctx.floor("unlock_loading call sites", n_unlock, 5)
    ctx.floor("direct lock_loading call sites (root file)", n_lock, 1)
    ctx.explanation = ("CFG pairing (F3) and provenance (F4) over every function that takes the load lock: held-region start = first binding of the SourceFile derived from find_file; "
                       "all success paths to return pass unlock_loading(file); parsed body consumed by a handler (or by the load_module closure) before unlock and never returned; "
                       "lock/unlock key terms equal after stripping identity conversions; canonical-key clause = a path-normalising call on the name's provenance. "
                       "Termination argument: with (a)-(c) the locked set is finite and each recursive load either hits the lock or descends an acyclic graph.")


def acquirers_always_lock(ctx, prog, S):
    """(d) no unlocked hand-out: in every function that hands a loaded file to its caller (find_file and its
    helpers — the acquirers of rules/loadlock.py) a SourceFile is put into the return value only on paths
    that passed a lock acquisition; a shortcut (cache hit, fast path) that returns a file without
    lock_loading lets a cycle through that file recurse without a loop error."""
    from rules.loadlock import acquirers
    acq = acquirers(prog)
    n = 0
    for d in sorted(acq):
        if ends(d, LOCK):
            continue
        b = prog.bodies[d]
        dom = b.dominators()
        # success edges of the acquisitions made in this body
        held = []
        for bi, t in b.calls():
            if mir.callee_name(t) in acq:
                tt = cfgutil.try_targets(b, bi)
                held.append(tt[0] if tt else t.get("target"))
        wraps = []
        for bi, si, st in b.stmts():
            if st["k"] != "assign" or st["rv"]["k"] != "agg":
                continue
            rv = st["rv"]
            if not (rv.get("adt", "").endswith("option::Option") and rv.get("variant") == "Some" or rv.get("adt", "").endswith("result::Result") and rv.get("variant") == "Ok"):
                continue
            for o in rv["ops"]:
                if o["k"] in ("copy", "move") and not o["p"][1] and b.local_ty(o["p"][0]) == SOURCEFILE_TY:
                    wraps.append(bi)
        for w in sorted(set(wraps)):
            n += 1
            key = f"{mir.short(d)}|hands out a SourceFile"
            if any(h is not None and (h in dom.get(w, ()) or h == w) for h in held):
                ctx.ok("F3-hand-out-locked", key, None)
            else:
                ctx.fail("F3-hand-out-locked", key, f"{mir.short(d)} can return a loaded file on a path that did not pass lock_loading (a cache hit or fast path): "
                         "loading that file again from inside its own body is then not detected as a loop and recurses until the stack overflows", where=b.where(w))
    ctx.floor("hand-outs of a SourceFile by lock acquirers", n, 1)


def derives(body, operand, call_bi):
    """Does the operand derive (flow-insensitively) from the destination of the call at call_bi?"""
    if operand["k"] not in ("copy", "move"):
        return False
    helper = LockUser.__new__(LockUser)
    helper.body = body
    return LockUser._derives_from_call(helper, operand["p"][0], call_bi, set())


def check_evaluation_locked(ctx, prog, u, find_bi, starts, unlocks, tag):
    b = u.body
    S = u.S
    parses = [pb for pb in u.parse_sites if derives(b, b.blocks[pb]["term"]["args"][0], find_bi)]
    found_eval = False
    for pb in parses:
        consumed = False
        for h in u.handler_sites:
            if derives(b, b.blocks[h]["term"]["args"][0], pb):
                consumed = True
                found_eval = True
                key = f"{tag}|parse->{mir.callee_name(b.blocks[h]['term']).rsplit('::', 1)[-1]}"
                if u.reaches(unlocks, h, avoid=(find_bi,)):
                    ctx.fail("F3-lock-spans-evaluation", key, f"in {b.def_} the loaded file's body is evaluated after unlock_loading: re-entry is not detected as a loop", where=b.where(h))
                else:
                    ctx.ok("F3-lock-spans-evaluation", key, {"parse": pb, "handler": h, "unlocks": unlocks})
        if not consumed:
            # does the parsed body leave through the return value?
            escapes = parsed_escapes(b, pb)
            found_eval = True
            key = f"{tag}|parse-escapes"
            if escapes:
                ctx.fail("F3-lock-spans-evaluation", key,
                         f"{b.def_} returns the parsed body of the loaded file to its caller after unlock_loading: the body runs outside the locked region, so a file that loads itself this way recurses without bound instead of giving a loop error",
                         where=b.where(pb))
            else:
                ctx.fail("anchor-lost", key, "parsed body of a locked file is neither evaluated here nor returned (unknown shape)", where=b.where(pb))
    # closures passed to load_module that capture the file
    for lm in u.load_module_sites:
        t = b.blocks[lm]["term"]
        cl = None
        for a, defs in zip(t["args"], t.get("arg_defs", [])):
            if defs:
                cl = defs[0]
        if cl is None or cl not in prog.bodies:
            continue
        # the closure must capture the file of this find site
        cap_ok = closure_captures(b, t, find_bi, u)
        if not cap_ok:
            continue
        cb = prog.bodies[cl]
        cu = LockUser(prog, cb, S)
        inner = False
        for pb in cu.parse_sites:
            for h in cu.handler_sites:
                if derives(cb, cb.blocks[h]["term"]["args"][0], pb):
                    inner = True
        key = f"{tag}|load_module-closure"
        if not inner:
            ctx.fail("F3-lock-spans-evaluation", key, f"the closure {cl} passed to load_module does not parse and evaluate the loaded file", where=b.where(lm))
            continue
        found_eval = True
        if u.reaches(unlocks, lm, avoid=(find_bi,)):
            ctx.fail("F3-lock-spans-evaluation", key, f"in {b.def_} load_module (which runs the module body) can execute after unlock_loading", where=b.where(lm))
        elif not any(lm in b.reachable_blocks(s) for s in starts):
            ctx.fail("F3-lock-spans-evaluation", key, "load_module is not inside the locked region", where=b.where(lm))
        else:
            ctx.ok("F3-lock-spans-evaluation", key, {"load_module": lm, "closure": cl})
    if not found_eval:
        ctx.fail("anchor-lost", tag + "|evaluation", f"no evaluation of the file found by find_file is visible in {b.def_} (shape changed)", where=b.where(find_bi))


def closure_captures(b, lm_term, find_bi, u):
    """Does some closure aggregate feeding this call capture a local derived from the find_file call?"""
    for a in lm_term["args"]:
        if a["k"] not in ("copy", "move"):
            continue
        for d in b.defs().get(a["p"][0], []):
            if d[0] == "stmt" and d[3]["rv"]["k"] == "agg" and d[3]["rv"].get("agg") == "closure":
                for o in d[3]["rv"]["ops"]:
                    if o["k"] in ("copy", "move") and u._derives_from_call(o["p"][0], find_bi, set()):
                        return True
    return False


def parsed_escapes(body, parse_bi):
    """Does the value produced by the parse call flow into `_0`?"""
    dest = body.blocks[parse_bi]["term"]["dest"][0]
    derived = {dest}
    changed = True
    while changed:
        changed = False
        for bi, blk in enumerate(body.blocks):
            for s in blk["stmts"]:
                if s["k"] != "assign":
                    continue
                tgt = s["p"][0]
                if tgt in derived:
                    continue
                rv = s["rv"]
                srcs = [o["p"][0] for o in (rv.get("ops") or []) if o["k"] in ("copy", "move")]
                if rv["k"] in ("ref",):
                    srcs.append(rv["p"][0])
                if any(x in derived for x in srcs):
                    derived.add(tgt)
                    changed = True
            t = blk["term"]
            if t["k"] == "call" and t["dest"][0] not in derived:
                if any(o["k"] in ("copy", "move") and o["p"][0] in derived for o in t["args"]):
                    derived.add(t["dest"][0])
                    changed = True
    return 0 in derived


def canonical_sources(prog, S):
    """Where does `SourceName.name` come from, and does any source pass a normalising step?"""
    terms = []
    normalised = True
    found = False
    # every construction of SourceName { name, imported }
    for b in prog.bodies.values():
        for bi, si, s in b.stmts():
            if s["k"] == "assign" and s["rv"]["k"] == "agg" and s["rv"].get("adt", "").endswith("sourcename::SourceName"):
                t = S.operand(b, s["rv"]["ops"][0])
                found = True
                terms.append(f"{b.def_}: name = {sym.show(sym.strip_transparent(t))}")
    # the url handed to SourceKind::url in Context::find_file
    ff = prog.one(FIND_FILE)
    norm_fns = normalising_functions(prog)
    any_norm = False
    for bi, t in ff.calls():
        n = mir.callee_name(t) or ""
        if n.endswith("SourceKind>::url"):
            term = S.operand(ff, t["args"][1])
            terms.append("find_file: url(path) with path = " + sym.show(sym.strip_transparent(term)))
            calls = sym.calls_in(term)
            if any(c in norm_fns or c.startswith(NORMALISER_CALLS) for c in calls):
                any_norm = True
            # the candidate path comes out of do_find_file(url, ..): look at what is passed in
        if n.endswith("do_find_file"):
            term = S.operand(ff, t["args"][1])
            terms.append("find_file: do_find_file(url) with url = " + sym.show(sym.strip_transparent(term)))
            calls = sym.calls_in(term)
            if any(c in norm_fns or any(c.startswith(x) for x in NORMALISER_CALLS) for c in calls):
                any_norm = True
    return {"normalised": any_norm and found, "terms": terms, "normalising_functions": sorted(norm_fns)}


def normalising_functions(prog):
    """Local functions that split a path into segments (candidates for a canonicalising step)."""
    out = set()
    for b in prog.bodies.values():
        for bi, t in b.calls():
            n = mir.callee_name(t) or ""
            if any(n.startswith(x) for x in NORMALISER_CALLS):
                # splitting on '/'
                if any(a["k"] == "const" and a.get("v") in ("/", "\\") for a in t["args"]) or n.endswith("components"):
                    d = b.def_
                    while d in prog.bodies and prog.bodies[d].raw.get("parent"):
                        d = prog.bodies[d].raw["parent"]
                    out.add(d)
    return out
