"""C26 (partial) — structural clauses of the string functions (MIR rules over the registered
implementations of sass:string).

The index arithmetic itself (1-based, negative from the end, clamping, empty ranges) is
value-level and NOT decided.  Decided:

 (i)   code-point model: the implementations of string.length / index / insert / slice measure
       and cut strings only through `str::chars` (counted, skipped, taken); no byte-level API
       (`len`, byte slicing, `bytes`, `char_indices`, `split_at`, ...) is applied to a string.
       One exemption is discharged by rule, not by name: slicing the subject up to a byte offset
       is allowed when the slice is immediately measured with `chars()` (the `index` idiom:
       prefix before the `find` hit, counted in code points);
 (ii)  ASCII-only case mapping: to-upper-case / to-lower-case call `to_ascii_uppercase` /
       `to_ascii_lowercase` and not the Unicode mappings;
 (iii) quotedness: every string built by insert / slice / to-upper-case / to-lower-case is
       constructed with the `quotes` of the value bound from the `$string` argument.
"""
import re

from lib import mir
from lib import sym
from lib.keys import fn_key

COUNTING = ("length", "index", "insert", "slice")
QUOTE_KEEPING = ("insert", "slice", "to-upper-case", "to-lower-case")
BYTE_API = re.compile(
    r"^<(str|String|std::string::String|alloc::string::String)>::"
    r"(len|bytes|as_bytes|as_bytes_mut|into_bytes|char_indices|get|get_mut|get_unchecked|split_at|split_at_mut|split_at_checked|"
    r"is_char_boundary|truncate|drain|remove|insert|insert_str|split_off|floor_char_boundary|ceil_char_boundary|from_utf8_lossy)$"
    r"|^<(str|String|std::string::String|alloc::string::String) as (std::ops::|core::ops::)?Index(Mut)?<")


PLUMBING = re.compile(r"ResolvedArgs>::|sass::name::Name>::|CallError>::|functions::check::|^<.* as (std::convert::)?(From|Into|TryFrom|TryInto)<")


def family(prog, root, depth=3):
    """the implementing closure, the closures nested in it, and the crate-local functions they call
    (to the given depth; argument plumbing — ResolvedArgs, Name, CallError, check::*, conversions — is not followed)"""
    fam = [b for d, b in prog.bodies.items() if d == root or d.startswith(root + "::")]
    seen = {b.def_ for b in fam}
    frontier = list(fam)
    for _ in range(depth):
        nxt = []
        for b in frontier:
            for _, t in b.calls():
                d = mir.callee_name(t)
                if d and d in prog.bodies and d not in seen and not PLUMBING.search(d):
                    seen.add(d)
                    nxt.append(prog.bodies[d])
                    # closures of a followed helper
                    for d2, b2 in prog.bodies.items():
                        if d2.startswith(d + "::{closure") and d2 not in seen:
                            seen.add(d2)
                            nxt.append(b2)
        fam.extend(nxt)
        frontier = nxt
    return fam


def run(ctx, F):
    ctx.explanation = ("C26, structural clauses only (index arithmetic is value-level and not decided): code-point model "
                       "(inventory of string APIs in the registered implementations of length/index/insert/slice), ASCII-only case mapping, "
                       "quotedness provenance of every constructed string; MIR call inventories + symbolic provenance")
    P = F.lib
    from rules.C34 import registry
    S0 = sym.Sym(P, inline_depth=0)
    S1 = sym.Sym(P, inline_depth=1)
    reg = registry(P, S0)
    impl = {}
    for (kind, mod, name), impls in reg.items():
        if mod == "string" and kind == "module":
            im = [i for i in impls if i]
            if len(im) == 1:
                impl[name] = im[0]
    ctx.floor("C26 registered sass:string implementations", len(impl), 10)
    for name in set(COUNTING) | set(QUOTE_KEEPING):
        if name not in impl:
            ctx.anchor_lost(f"sass:string.{name}", "no registered implementation found in the MIR registry")

    # (i) code-point model
    for name in COUNTING:
        if name not in impl:
            continue
        chars_calls = 0
        for b in family(P, impl[name]):
            chars_terms = []
            for bi, t in b.calls():
                n = mir.short(mir.callee_name(t) or "")
                if n == "<str>::chars":
                    chars_calls += 1
                    chars_terms.append(sym.show(S0.operand(b, t["args"][0])))
            for bi, t in b.calls():
                full = mir.callee_name(t) or ""
                n = mir.short(full)
                if not BYTE_API.search(n):
                    continue
                key = f"sass:string.{name}|{fn_key(b.def_, P)}|{n}" if not b.def_.startswith(impl[name]) else f"{fn_key(b.def_, P)}|{n}"
                if "Index" in n and any("Index<" in ct and "index(" in ct for ct in chars_terms):
                    ctx.ok("code-point-model", key, "byte slice is measured with chars() (prefix before a `find` hit)", status="discharged")
                    continue
                ctx.fail("code-point-model", key, f"string.{name} applies the byte-level API {n} to a string: positions must be counted in Unicode code points (chars())",
                         where=b.where(bi))
        if chars_calls == 0:
            ctx.fail("code-point-model", f"sass:string.{name}|no-chars", f"string.{name} never iterates the string by code points (`chars()`)", where=impl[name])
        else:
            ctx.ok("code-point-model", f"sass:string.{name}|chars", f"{chars_calls} chars() iterations, no byte-level API")

    # (ii) ASCII-only case mapping
    for name, want, wrong in (("to-upper-case", "<str>::to_ascii_uppercase", "<str>::to_uppercase"),
                              ("to-lower-case", "<str>::to_ascii_lowercase", "<str>::to_lowercase")):
        if name not in impl:
            continue
        calls = [mir.short(mir.callee_name(t) or "") for b in family(P, impl[name]) for _, t in b.calls()]
        if wrong in calls or any(c.startswith("<char>::to_upper") or c.startswith("<char>::to_lower") for c in calls):
            ctx.fail("ascii-case", f"sass:string.{name}", f"string.{name} uses a Unicode case mapping; only ASCII letters may change", where=impl[name])
        elif want in calls or any(c in ("<char>::to_ascii_uppercase", "<char>::to_ascii_lowercase", "<str>::make_ascii_uppercase", "<str>::make_ascii_lowercase",
                                        "<u8>::to_ascii_uppercase", "<u8>::to_ascii_lowercase") for c in calls):
            ctx.ok("ascii-case", f"sass:string.{name}", want)
        else:
            ctx.fail("ascii-case", f"sass:string.{name}", f"string.{name} does not call an ASCII case mapping ({want})", where=impl[name])

    # (iii) quotedness
    for name in QUOTE_KEEPING:
        if name not in impl:
            continue
        n_new = 0
        for b in family(P, impl[name]):
            for bi, t in b.calls():
                n = mir.short(mir.callee_name(t) or "")
                if n in ("<CssString>::new",):
                    n_new += 1
                    q = sym.show(sym.strip_transparent(S1.operand(b, t["args"][1])))
                    key = f"{fn_key(b.def_, P)}|CssString::new"
                    from_string_arg = "from_static('string')" in q
                    is_quotes = q.endswith(".quotes") or "<CssString>::quotes(" in q
                    if from_string_arg and is_quotes:
                        ctx.ok("quotedness", key, "quotes of the $string argument")
                    else:
                        ctx.fail("quotedness", key, f"string.{name} builds its result with quotes `{q[:120]}`, not with the quotes of its $string argument", where=b.where(bi))
                elif re.match(r"^<CssString as From<", n) or n in ("<CssString>::quote", "<CssString>::unquote"):
                    ctx.fail("quotedness", f"{fn_key(b.def_, P)}|{n}", f"string.{name} builds a string with {n}, which fixes the quotes instead of keeping those of $string", where=b.where(bi))
        if n_new == 0:
            ctx.fail("quotedness", f"sass:string.{name}|no-constructor", f"string.{name} does not construct its result with CssString::new(.., quotes)", where=impl[name])
