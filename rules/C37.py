"""C37 — @use/@forward configuration and visibility rules (structural clauses).

 (i)   member kind <-> filter: wherever a module's members are filtered (ScopeRef::expose,
       Scope::do_use `as prefix-*`), functions and mixins are filtered with Expose::allow_fun and
       variables with Expose::allow_var;
 (ii)  built-in modules cannot be configured: in the @use and @forward arms the built-in module
       is returned only past a `with.is_empty()` test whose other edge is Invalid::ConfigBuiltin;
       load-css rejects `with` for `sass:` urls; they cannot be assigned to: the marker
       `@scope_name@` is tested by set_variable (C05) and is mentioned nowhere else except where
       built-in modules are created and where the marker is hidden from map output;
 (iii) the default namespace is the last URL segment without a leading underscore and without
       extension;
 (iv)  configuration is validated: in each closure handed to load_module some use of the `with`
       names is control-flow-after the evaluation of the module body.
"""
from lib import ast as A, mir, sym

KINDS = {"functions": "allow_fun", "mixins": "allow_fun", "variables": "allow_var"}
MARKER_ALLOWED = {
    "<variablescope::Scope>::set_variable": "the ModifiedBuiltin guard",
    "<variablescope::Scope>::builtin_module": "defines the marker when a built-in module scope is created",
    "<variablescope::Scope>::variables_map": "hides the marker from meta.module-variables",
    "<variablescope::Scope>::get_name": "reads the marker to name the module in messages",
}


def run(ctx, F):
    tree = F.ast
    prog = F.lib
    S = sym.Sym(prog, inline_depth=0)
    # ---------------------------------------------------------------- (i)
    n = 0
    roots = [(ty, name, tree.one_method(ty, name)) for ty, name in (("variablescope::ScopeRef", "expose"), ("variablescope::Scope", "do_use"))]
    # the two entry points and the private helpers of the same module they are split into (a loop moved into
    # `expose_prefixed` is still do_use's loop)
    todo = []
    for ty, name, f in roots:
        todo.append((ty, name, f))
        called = {m["m"] for m in A.walk(f["body"]) if m.get("e") == "mcall"} | {A.strip(m["f"])["p"].rsplit("::", 1)[-1] for m in A.walk(f["body"]) if m.get("e") == "call" and A.strip(m["f"]).get("e") == "path"}
        for h in tree.fn_list:
            if h["path"].startswith("variablescope::") and h is not f and h["sig"]["name"] in called and h["sig"]["name"] not in ("expose", "do_use") \
                    and any(f".{k}." in A.show(x.get("iter") or {}) for x in A.walk(h["body"]) if x.get("e") == "for" for k in KINDS):
                todo.append((ty, name, h))
    for ty, name, f in todo:
        for node in A.walk(f["body"]):
            if node.get("e") != "for":
                continue
            it = A.show(node["iter"])
            field = None
            for k in KINDS:
                if f".{k}." in it:
                    field = k
            if field is None:
                continue
            used = sorted({m["m"] for m in A.walk(node["body"]) if m.get("e") == "mcall" and m["m"] in ("allow_fun", "allow_var")})
            if not used:
                continue
            n += 1
            recv = it.split("." + field)[0].lstrip("&*(")
            key = f"{name}|{recv}.{field}"
            if used == [KINDS[field]]:
                ctx.ok("F5-filter-kind", key, None)
            else:
                ctx.fail("F5-filter-kind", key, f"{ty.rsplit('::', 1)[-1]}::{name} filters the {field} of a module with {used}, expected {KINDS[field]}: show/hide lists are applied to the wrong member kind")
    ctx.floor("filtered member loops", n, 6)
    # ---------------------------------------------------------------- (ii)
    hi = prog.one("output::transform::handle_item")
    ggm = [(bi, t) for bi, t in hi.calls() if (mir.callee_name(t) or "").endswith("functions::get_global_module")]
    ctx.floor("get_global_module calls in handle_item", len(ggm), 2)
    dom = hi.dominators()
    for i, (bi, t) in enumerate(ggm):
        some = None
        for b2 in sorted(hi.reachable_blocks(t["target"])):
            tm = hi.blocks[b2]["term"]
            if tm["k"] == "switch" and tm.get("discr_of") and tm["discr_of"][0] == t["dest"][0]:
                names = {nm: tg for _, tg, nm in tm["targets"]}
                some = names.get("Some")
                break
        key = f"handle_item|get_global_module#{i}"
        if some is None:
            ctx.fail("anchor-lost", key, "no Some/None test of get_global_module's result", where=hi.where(bi))
            continue
        region = {x for x, ds in dom.items() if some in ds}
        tests = []
        for x in sorted(region):
            tm = hi.blocks[x]["term"]
            if tm["k"] == "call" and (mir.callee_name(tm) or "").endswith("::is_empty"):
                arg = repr(S.operand(hi, tm["args"][0]))
                if "as Use" in arg or "as Forward" in arg:
                    tests.append(x)
        errs = [x for x in region for s in hi.blocks[x]["stmts"] if s["k"] == "assign" and s["rv"]["k"] == "agg" and s["rv"].get("variant") == "ConfigBuiltin"]
        # the region's normal continuation (module used) must come after the is_empty test
        if tests and errs:
            ctx.ok("F3-config-builtin", key, {"is_empty_test": tests, "ConfigBuiltin": sorted(set(errs))})
        else:
            ctx.fail("F3-config-builtin", key, "a built-in module is accepted without testing that the `with` clause is empty (Invalid::ConfigBuiltin)", where=hi.where(bi))
    mg = prog.one("<sass::mixin::MixinDecl>::get")
    lits = [c.get("v") for c in mir.iter_consts_body(mg.raw) if isinstance(c.get("v"), str)]
    if "sass:" in lits and any("can't be configured" in (l or "") for l in lits):
        ctx.ok("F3-config-builtin", "load-css|sass: urls reject `with`", None)
    else:
        fmt_ok = any(f["path"].endswith("MixinDecl>::get") and any("can't be configured" in (n2.get("template") or "") for n2 in A.walk(f["body"]) if n2.get("e") == "fmt") for f in tree.fn_list)
        if "sass:" in lits and fmt_ok:
            ctx.ok("F3-config-builtin", "load-css|sass: urls reject `with`", None)
        else:
            ctx.fail("F3-config-builtin", "load-css|sass: urls reject `with`", "meta.load-css no longer rejects a configuration for `sass:` modules", where=mg.where())
    # marker inventory
    users = []
    for b in prog.bodies.values():
        if any(c.get("v") == "@scope_name@" for c in mir.iter_consts_body(b.raw)):
            users.append(b.def_)
    for u in sorted(set(users)):
        root = u
        while root in prog.bodies and prog.bodies[root].raw.get("parent"):
            root = prog.bodies[root].raw["parent"]
        if root in MARKER_ALLOWED:
            ctx.reviewed("F8-builtin-marker", f"{u} mentions @scope_name@", MARKER_ALLOWED[root])
        else:
            ctx.fail("F8-builtin-marker", f"{u} mentions @scope_name@", f"{u} treats the built-in marker variable specially: copies of a built-in module (through @forward / `as *`) may lose the protection against assignment", where=prog.bodies[u].where())
    ctx.floor("functions mentioning the built-in marker", len(set(users)), 3)
    # the refusal to assign to a built-in module's variable must be decided by the marker variable: the marker is
    # copied along when a built-in module is re-exported (@forward, `as *`), the identity of the scope is not
    sv = prog.one("<variablescope::Scope>::set_variable")
    dom = sv.dominators()
    refusals = sorted({bi for bi, si, st in sv.stmts() if st["k"] == "assign" and st["rv"]["k"] == "agg" and st["rv"].get("variant") == "ModifiedBuiltin"})
    marker_tests = []
    for bi, t in sv.calls():
        if any("@scope_name@" in repr(S.operand(sv, a)) for a in t["args"]) and not (mir.callee_name(t) or "").endswith("Name>::from_static"):
            marker_tests.append(bi)
    ctx.floor("ModifiedBuiltin refusals in Scope::set_variable", len(refusals), 1)
    for r in refusals:
        key = f"set_variable|ModifiedBuiltin{'' if r == refusals[0] else '#' + str(refusals.index(r))}"
        if any(m in dom.get(r, ()) for m in marker_tests):
            ctx.ok("F3-builtin-assign-guard", key, "decided by a lookup of the @scope_name@ marker in the target module")
        else:
            ctx.fail("F3-builtin-assign-guard", key, "the refusal `Cannot modify built-in variable` is not decided by a lookup of the @scope_name@ marker in the target module: "
                     "a built-in module re-exported through @forward or `as *` is a copy that keeps the marker but not the scope's identity, so its variables become assignable", where=sv.where(r))
    # ---------------------------------------------------------------- (iii) namespace
    du = tree.one_method("variablescope::Scope", "do_use")
    keep = None
    for node in A.walk(du["body"]):
        if node.get("e") == "match":
            for arm in node["arms"]:
                if A.showpat(arm["pat"]).endswith("KeepName"):
                    keep = arm
    if keep is None:
        ctx.anchor_lost("do_use KeepName arm", "not found")
    else:
        calls = [(m["m"], [A.lit_str(A.strip(a)) for a in m["args"]]) for m in A.walk(keep["body"]) if m.get("e") == "mcall"]
        seg = any(m == "rfind" for m, _ in calls) or any(m in ("rsplit", "rsplit_once", "split") for m, _ in calls)
        under = any(m in ("strip_prefix", "trim_start_matches") and "_" in [x for x in a if x] for m, a in calls)
        ext = any(m in ("strip_suffix", "trim_end_matches", "rsplit_once", "split_once") and any(x and x.startswith(".") for x in a) for m, a in calls) or any(m in ("file_stem",) for m, _ in calls)
        (ctx.ok if seg else ctx.fail)("F5-namespace", "last URL segment", *([None] if seg else ["the default namespace is not cut at the last `/` or `:`"]))
        if under:
            ctx.ok("F5-namespace", "leading underscore stripped", None)
        else:
            ctx.fail("F5-namespace", "leading underscore stripped", "the default namespace keeps a leading underscore of the last URL segment (it is only replaced by `-`): `@use \"_colors\"` does not create the namespace `colors`")
        if ext:
            ctx.ok("F5-namespace", "extension stripped", None)
        else:
            ctx.fail("F5-namespace", "extension stripped", "the default namespace keeps the file extension: `@use \"colors.scss\"` does not create the namespace `colors`")
    # ---------------------------------------------------------------- (iv) configuration validated
    for i, cl in enumerate(prog.closures_of(hi.def_)):
        hp = [bi for bi, t in cl.calls() if (mir.callee_name(t) or "").endswith("transform::handle_parsed")]
        if not hp:
            continue
        key = f"handle_item|{_item_arm_of_closure(hi, cl.def_) or 'closure'}"
        after = cl.reachable_blocks(cl.blocks[hp[0]]["term"]["target"])
        uses_with_after = False
        for b2 in after:
            for s in cl.blocks[b2]["stmts"]:
                if s["k"] == "assign" and "upvar-with" in repr(s):
                    uses_with_after = True
            tm = cl.blocks[b2]["term"]
            if tm["k"] == "call":
                for a in tm["args"]:
                    term = repr(S.operand(cl, a))
                    if _mentions_with(cl, term):
                        uses_with_after = True
        if uses_with_after:
            ctx.ok("F3-config-validated", key, None)
        else:
            ctx.fail("F3-config-validated", key, f"in {cl.def_} the `with` names are only used to pre-define variables before the module body runs; nothing afterwards checks that each was declared with !default (unknown or non-default variables are accepted silently)", where=cl.where())
    ctx.explanation = ("Sibling tables of member-kind vs filter method in every filtering loop (AST); dominance of the ConfigBuiltin test over the use of a built-in module (MIR); inventory of functions that mention the "
                       "built-in marker variable; literal operations of the default-namespace derivation; control-flow position of uses of the `with` clause relative to the evaluation of the module body.")


def _item_arm_of_closure(hi, closure_def):
    """`Item::Use` / `Item::Forward`: the arm of handle_item's match in which the closure is created
    (keys must not depend on the closure's ordinal)"""
    site = None
    for bi, si, st in hi.stmts():
        if st["k"] == "assign" and st["rv"]["k"] == "agg" and st["rv"].get("closure") == closure_def:
            site = bi
    if site is None:
        return None
    dom = hi.dominators()
    for bi, blk in enumerate(hi.blocks):
        t = blk["term"]
        if t["k"] == "switch" and (t.get("of_ty") or "").endswith("item::Item") and len(t["targets"]) >= 8:
            for _, tg, name in t["targets"]:
                if name and tg in dom.get(site, ()):
                    return "Item::" + name
    return None


def _mentions_with(cl, term):
    # the `with` clause is an upvar of the closure: a parameter-1 projection whose captured name is `with`
    for name, place in cl.raw.get("upvars", []):
        if name == "with":
            proj = "".join(place[1])
            idx = [p for p in place[1] if p.startswith(".")]
            if idx and f"'{idx[0]}'" in term and "('param', 1" in term:
                return True
    return False
