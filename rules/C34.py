"""C34 — global and module function forms agree (F9 shared implementation / sibling cross-check).

 (i)   alias table: every `global.insert(g, module.get_lfunction(l))` row of the expose()
       functions binds the global name to the *same* Function value as the module member;
       each pair the Sass documentation declares equivalent must be such a row pointing to the
       documented member — or be a separately implemented pair, which is cross-checked:
 (ii)  siblings: for a pair implemented twice, every value-level kernel operation the module
       form uses must be reachable from the global form (the global form may accept more), and
       at kernel call sites both make, the arguments must have the same provenance class;
 (iii) meta.call and direct calls resolve and run functions through the same Function::call.
"""
import json
import os
import re

from lib import ast as A, mir, sym
from lib.panics import term_class

HERE = os.path.dirname(os.path.abspath(__file__))
ORACLE = os.path.join(os.path.dirname(HERE), "tables", "global_aliases.json")

KERNEL_RX = re.compile(r"^<(&)?(value::|css::value::Value|css::string::CssString|ordermap::|css::selectors::|f64|i64)|^<std::f64|^std::f64")
TRIVIAL = re.compile(r"::(clone|from|into|default|fmt|eq|ne|partial_cmp|cmp|as_ref|deref|to_string|format|is_no_unit|to_rgba|to_hsla|to_hwba|unit|value|get_alpha|source|is_rgb|format_legacy)$")


def registry(prog, S):
    """(kind, module, sass-name) -> body def of the implementation."""
    reg = {}
    for b in prog.bodies.values():
        for bi, t in b.calls():
            n = mir.callee_name(t) or ""
            if not n.endswith("::builtin_fn"):
                continue
            name_t = repr(S.operand(b, t["args"][1]))
            m = re.search(r"\('const', '([^']*)'\)", name_t)
            if not m:
                continue
            body_t = S.operand(b, t["args"][3])
            impl = None
            for x in _flatten(body_t):
                if x[0] in ("closure", "fn") and isinstance(x[1], str):
                    impl = x[1]
                    break
            regfn = b.def_
            while regfn in prog.bodies and prog.bodies[regfn].raw.get("parent"):
                regfn = prog.bodies[regfn].raw["parent"]
            kind = "global" if (n.startswith("<std::collections::BTreeMap") or regfn.rsplit("::", 1)[-1] in ("expose", "global")) else "module"
            mod = module_of(b.def_)
            reg.setdefault((kind, mod, m.group(1).replace("_", "-")), []).append(impl)
    return reg


def module_of(defname):
    m = re.search(r"sass::functions::(\w+)", defname)
    return m.group(1) if m else "?"


def _flatten(t):
    out = []

    def rec(x):
        if isinstance(x, tuple):
            if x and isinstance(x[0], str):
                out.append(x)
            for y in x:
                if isinstance(y, tuple):
                    rec(y)
    rec(t)
    return out


def alias_rows(tree):
    rows = []
    for f in tree.fn_list:
        if not (f["path"].startswith("sass::functions::") and f["sig"]["name"] in ("expose", "global")):
            continue
        mod = module_of(f["path"])
        for n in A.walk(f["body"]):
            if n.get("e") == "for":
                arr = A.strip(n["iter"])
                if arr.get("e") != "array":
                    continue
                pairs = []
                for x in arr["xs"]:
                    x = A.strip(x)
                    if x.get("e") == "tuple" and len(x["xs"]) == 2:
                        names = []
                        for y in x["xs"]:
                            lits = [A.lit_str(A.strip(a)) for m2 in A.walk(y) if m2.get("e") == "call" for a in m2["args"] if A.lit_str(A.strip(a)) is not None]
                            names.append(lits[0] if lits else None)
                        pairs.append(tuple(names))
                body = " ".join(A.show(s.get("x")) for s in n["body"]["stmts"])
                shared = "get_lfunction" in body and "insert" in body
                src = re.search(r"(\w+)\.get_lfunction", body)
                params = [p.get("pat", {}).get("n") for p in f["sig"]["params"]]
                for g, l in pairs:
                    rows.append({"global": (g or "?").replace("_", "-"), "member": (l or "?").replace("_", "-"), "module": mod, "shared": shared, "in": f["path"], "source": src.group(1) if src else None,
                                 "from_param": bool(src) and src.group(1) in params})
            if n.get("e") == "mcall" and n["m"] == "insert" and len(n["args"]) == 2 and "get_lfunction" in A.show(n["args"][1]):
                lits_g = [A.lit_str(A.strip(a)) for m2 in A.walk(n["args"][0]) if m2.get("e") == "call" for a in m2["args"] if A.lit_str(A.strip(a)) is not None]
                lits_l = [A.lit_str(A.strip(a)) for m2 in A.walk(n["args"][1]) if m2.get("e") == "call" for a in m2["args"] if A.lit_str(A.strip(a)) is not None]
                if lits_g and lits_l:
                    rows.append({"global": lits_g[0].replace("_", "-"), "member": lits_l[0].replace("_", "-"), "module": mod, "shared": True, "in": f["path"], "source": None})
    return rows


def kernel(prog, root, depth=3):
    """kernel callee -> list of (body, term) call sites, transitively through local function helpers"""
    out = {}
    seen = set()
    work = [(root, 0)]
    while work:
        d, k = work.pop()
        if d in seen or d not in prog.bodies:
            continue
        seen.add(d)
        b = prog.bodies[d]
        for bi, t in b.calls():
            n = mir.callee_name(t)
            if not n:
                continue
            if KERNEL_RX.search(n) and not TRIVIAL.search(n):
                out.setdefault(n, []).append((b, t))
            elif n.startswith("sass::functions::") and k < depth and not n.endswith("::get") and "check" not in n:
                work.append((n, k + 1))
            elif n.startswith("<sass::functions::") and ("::apply" in n or "Strategy" in n) and k < depth:
                work.append((n, k + 1))
        for c in prog.closures_of(d):
            work.append((c.def_, k))
    return out


def run(ctx, F):
    tree = F.ast
    prog = F.lib
    S = sym.Sym(prog, inline_depth=0)
    oracle = json.load(open(ORACLE))
    rows = alias_rows(tree)
    ctx.floor("alias rows (global -> module member)", len(rows), 70)
    by_global = {}
    for r in rows:
        by_global.setdefault(r["global"], []).append(r)
    reg = registry(prog, S)
    ctx.floor("built-in function registrations", sum(len(v) for v in reg.values()), 130)
    # every alias row binds the same Function value
    for r in rows:
        key = f"{r['global']} -> {r['module']}.{r['member']}"
        if r["shared"]:
            ctx.ok("F9-alias-shared", key, None)
        else:
            ctx.fail("F9-alias-shared", key, f"{r['in']}: the global `{r['global']}` is not bound with get_lfunction to the module member")
    # ---------------------------------------------------------------- documented pairs
    reviewed = {x["key"]: x["reason"] for x in oracle.get("reviewed_diffs", [])}
    for g, mod, member in oracle["pairs"]:
        key = f"{g} == {mod}.{member}"
        rs = by_global.get(g, [])
        rs = [r for r in rs if r.get("from_param", True)]
        hit = [r for r in rs if r["member"] == member and (r["module"] == mod)]
        if hit:
            ctx.ok("F9-documented-pair", key, None)
            continue
        wrong = [r for r in rs if r["module"] == mod]
        if wrong:
            ctx.fail("F9-documented-pair", key, f"the global `{g}` is bound to {mod}.{wrong[0]['member']}, the documentation pairs it with {mod}.{member}")
            continue
        gi = reg.get(("global", mod, g)) or [v for (k, m2, nm), v in reg.items() if k == "global" and nm == g and v][:1]
        gi = gi[0] if gi and isinstance(gi[0], list) else gi
        mi = reg.get(("module", mod, member))
        if not gi or not mi:
            ctx.fail("F9-documented-pair", key, f"no shared alias row and no pair of registrations found (global: {bool(gi)}, module: {bool(mi)})")
            continue
        gimpl, mimpl = gi[0], mi[0]
        if gimpl == mimpl:
            ctx.ok("F9-documented-pair", key + " (same implementation registered twice)", None)
            continue
        sibling(ctx, prog, S, key, gimpl, mimpl, reviewed, tree)
    # ---------------------------------------------------------------- meta.call
    callers = [d for d in prog.callers_of("<sass::functions::Function>::call")]
    meta_call = [d for d in callers if d.startswith("sass::functions::meta::")]
    direct = [d for d in callers if d.startswith("<sass::value::Value>::") or d.startswith("<sass::callable") or "do_evaluate" in d]
    if meta_call and direct:
        ctx.ok("F9-call-chain", "meta.call and direct calls both run Function::call", {"meta": meta_call[:2], "direct": direct[:2]})
    else:
        ctx.fail("F9-call-chain", "meta.call and direct calls both run Function::call", f"callers of Function::call: meta={meta_call}, direct={direct}")
    lookup_order(ctx, prog, S)
    ctx.explanation = ("Alias tables read from the expose() functions (AST) and compared with the documented global/module pairs; registry of built-in registrations from MIR (name -> implementing closure); "
                       "for pairs implemented twice: kernel operations of the module form must be reachable from the global form and shared kernel call sites must agree on argument provenance.")


def default_dispatch(ctx, tree, prog, key, gimpl, mimpl):
    """If the global form dispatches on a local enum that it fills with `unwrap_or_default()`, the arm
    of the enum's Default variant is what runs for a plain call: its kernel operation must be the
    module form's."""
    km = {k for k in kernel(prog, mimpl) if not k.endswith("::new")}
    seen = set()
    work = [gimpl]
    helpers = []
    while work:
        d = work.pop()
        if d in seen or d not in prog.bodies:
            continue
        seen.add(d)
        for bi, t in prog.bodies[d].calls():
            n = mir.callee_name(t) or ""
            if n.startswith("sass::functions::") and n != mimpl:
                work.append(n)
            if n.startswith("<sass::functions::") and n.endswith("::apply"):
                helpers.append(n)
    for h in sorted(set(helpers)):
        ty = re.match(r"^<([\w:]+)>::apply$", h)
        if not ty:
            continue
        tyname = ty.group(1).rsplit("::", 1)[-1]
        dflt = [f for f in tree.fn_list if f.get("_impl") and f["sig"]["name"] == "default" and f["_impl"]["self_ty"] == tyname and (f["_impl"]["trait"] or "").endswith("Default")]
        app = [f for f in tree.fn_list if f.get("_impl") and f["sig"]["name"] == "apply" and f["_impl"]["self_ty"] == tyname]
        if len(dflt) != 1 or len(app) != 1:
            continue
        dv = A.show(A.strip(dflt[0]["body"])).strip("{} ").rsplit("::", 1)[-1]
        ms = [n for n in A.walk(app[0]["body"]) if n.get("e") == "match"]
        if not ms:
            continue
        arms = A.select_arms(ms[0], dv)
        if len(arms) != 1:
            continue
        body = A.strip(arms[0][0]["body"])
        k2 = f"{key}|{tyname}::{dv} arm"
        want = sorted(x.rsplit("::", 1)[-1] for x in km)
        if body.get("e") == "mcall" and not body["args"] and [body["m"]] == want:
            ctx.ok("F9-sibling-pair", k2, {"default_variant": dv, "arm": A.show(body), "module_kernel": want})
        else:
            ctx.fail("F9-sibling-pair", k2, f"a plain call of the global form runs the `{dv}` arm of {tyname}::apply, which computes `{A.show(body)[:80]}`; the module form computes {want}: the two forms differ (e.g. on ties)")


def sibling(ctx, prog, S, key, gimpl, mimpl, reviewed, tree=None):
    if tree is not None:
        default_dispatch(ctx, tree, prog, key, gimpl, mimpl)
    kg, km = kernel(prog, gimpl), kernel(prog, mimpl)
    missing = sorted(set(km) - set(kg))
    diffs = []
    if missing:
        diffs.append("module-only kernel ops: " + ", ".join(mir.short(x) for x in missing))
    for f in sorted(set(kg) & set(km)):
        def classes(sites):
            out = []
            for b, t in sites:
                out.append(tuple(term_class(sym.strip_transparent(S.operand(b, a)), None) for a in t["args"]))
            return sorted(set(out))
        cg, cm = classes(kg[f]), classes(km[f])
        # compare constant-vs-computed per argument position
        def shape(cs):
            return sorted({tuple("const" if x.startswith("const(") else "value" for x in c) for c in cs})
        if shape(cg) != shape(cm):
            diffs.append(f"{mir.short(f)}: global passes {shape(cg)}, module passes {shape(cm)}")
    if not diffs:
        ctx.ok("F9-sibling-pair", key, {"global": gimpl, "module": mimpl, "kernel": sorted(mir.short(x) for x in km)[:6]})
        return
    for d in diffs:
        k2 = f"{key}|{d}"
        if k2 in reviewed:
            ctx.reviewed("F9-sibling-pair", k2, reviewed[k2])
        else:
            ctx.fail("F9-sibling-pair", k2, f"`{key}` is implemented twice ({gimpl} / {mimpl}) and the two bodies differ: {d}")


GET_BUILTIN = "<sass::functions::Function>::get_builtin"


def lookup_order(ctx, prog, S):
    """A name is resolved in the scope chain first and in the table of global built-ins only as a
    fallback — in direct calls and in meta.get-function / call() alike (otherwise a module member
    merged with `as *`, or a user function, resolves differently through meta.call)."""
    users = [b for b in prog.bodies.values() if any(mir.callee_name(t) == GET_BUILTIN for bi, t in b.calls())]
    n = 0
    for b in sorted(users, key=lambda b: b.def_):
        n += 1
        key = f"{keyname(b, prog)}|get_builtin is a fallback of Scope::get_function"
        ok = False
        parent = b.raw.get("parent")
        if b.kind == "Closure" and parent in prog.bodies:
            pb = prog.bodies[parent]
            for bi, t in pb.calls():
                nm = mir.callee_name(t) or ""
                if nm.endswith("Option<T>>::or_else") and any(b.def_ in defs for defs in t.get("arg_defs", [])):
                    recv = repr(S.operand(pb, t["args"][0]))
                    if "Scope>::get_function" in recv:
                        ok = True
        else:
            dom = b.dominators()
            for bi, t in b.calls():
                if mir.callee_name(t) != GET_BUILTIN:
                    continue
                for d in dom.get(bi, ()):
                    tm = b.blocks[d]["term"]
                    if tm["k"] == "switch" and tm.get("discr_of") and "Scope>::get_function" in repr(S.place(b, tm["discr_of"])):
                        names = {nm: tg for _, tg, nm in tm["targets"]}
                        none_t = names.get("None", tm["otherwise"] if "Some" in names else None)
                        if none_t is not None and (none_t in dom.get(bi, ()) or none_t == bi):
                            ok = True
        if ok:
            ctx.ok("F9-lookup-order", key, None)
        else:
            ctx.fail("F9-lookup-order", key, f"{b.def_} consults the table of global built-ins without first failing to find the name in the scope chain: functions reached through meta.get-function / call() can differ from the ones a direct call reaches", where=b.where())
    ctx.floor("users of Function::get_builtin", n, 2)


def keyname(b, prog):
    from lib.keys import fn_key
    return fn_key(b.def_, prog)
