"""C11 — unit arithmetic converts only with fixed CSS ratios.

 (i)   tables: Unit::dimension partitions the known units exactly into the CSS convertible
       classes, and within a class scale_factor(a)/scale_factor(b) equals the CSS ratio
       (literal expressions folded by the checker); Unit::scale_to returns None unless the
       dimensions are equal;
 (ii)  routing: in Operator::eval `+`/`-` and in Numeric::partial_cmp a differing-unit operand
       is converted only through as_unitset -> UnitSet::scale_to, and within `+` (resp. `-`)
       every branch combines the operands the same way (sibling-branch consistency); the
       conversion is dominated by the false edges of is_no_unit() tests of both operands
       (a unitless operand is never scaled);
 (iii) `*` and `/` on UnitSet only add / subtract exponents;
 (iv)  the incompatible-units error of an unevaluated `+` / `-` is decided by a plain inequality of
       the two CSS dimension sets.
"""
import math
import re

from lib import ast as A, mir, sym

PI = math.pi
# CSS Values 4: canonical-unit value of 1 unit
ORACLE = {
    "length": {"Cm": 96 / 2.54, "Mm": 9.6 / 2.54, "Q": 2.4 / 2.54, "In": 96.0, "Pt": 96 / 72, "Pc": 16.0, "Px": 1.0},
    "angle": {"Deg": 1.0, "Grad": 0.9, "Rad": 180 / PI, "Turn": 360.0},
    "time": {"S": 1.0, "Ms": 0.001},
    "frequency": {"Hz": 1.0, "Khz": 1000.0},
    "resolution": {"Dppx": 1.0, "Dpi": 1 / 96, "Dpcm": 2.54 / 96},
}
CLASS_OF = {u: c for c, m in ORACLE.items() for u in m}
CSS_NAME = {"Khz": "kHz", "Percent": "%", "None": "(unitless)"}


def fold(n):
    """Constant-fold an f64 expression of the scale table."""
    n = A.strip(n)
    e = n.get("e")
    if e == "lit" and n.get("t") in ("float", "int"):
        return float(n["v"])
    if e == "bin" and n["op"] in ("/", "*", "+", "-"):
        a, b = fold(n["l"]), fold(n["r"])
        if a is None or b is None:
            return None
        return {"/": a / b if b else None, "*": a * b, "+": a + b, "-": a - b}[n["op"]]
    if e == "path":
        consts = {"FRAC_1_PI": 1 / PI, "PI": PI, "TAU": 2 * PI, "FRAC_PI_2": PI / 2}
        return consts.get(n["p"].rsplit("::", 1)[-1])
    if e == "unary" and n["op"] == "-":
        v = fold(n["x"])
        return -v if v is not None else None
    return None


def run(ctx, F):
    tree = F.ast
    prog = F.lib
    unit = tree.enum("value::unit::Unit")
    variants = [v["name"] for v in unit["variants"]]
    ctx.floor("Unit variants", len(variants), 30)
    dim = tree.one_method("value::unit::Unit", "dimension")
    sf = tree.one_method("value::unit::Unit", "scale_factor")
    dm = [n for n in A.walk(dim["body"]) if n.get("e") == "match"]
    sm = [n for n in A.walk(sf["body"]) if n.get("e") == "match"]
    if len(dm) != 1 or len(sm) != 1:
        ctx.anchor_lost("Unit::dimension / scale_factor tables", f"matches found: {len(dm)}/{len(sm)}")
        return
    dims, facs = {}, {}
    for v in variants:
        if v == "Unknown":
            continue
        arms = A.select_arms(dm[0], v)
        if len(arms) == 1 and arms[0][1] == "yes":
            dims[v] = A.show(A.strip(arms[0][0]["body"])).strip("{}")
        else:
            ctx.fail("F5-unit-dimension", f"Unit::{v}", f"cannot read the dimension of Unit::{v} from the table")
        arms = A.select_arms(sm[0], v)
        if len(arms) == 1 and arms[0][1] == "yes":
            facs[v] = fold(arms[0][0]["body"])
            if facs[v] is None:
                ctx.fail("F5-unit-ratio", f"Unit::{v}|factor", f"scale factor of {v} is not a constant expression: {A.show(arms[0][0]['body'])}")
        else:
            ctx.fail("F5-unit-ratio", f"Unit::{v}|factor", f"cannot read the scale factor of Unit::{v}")
    # ---------------------------------------------------------------- (i) partition
    code_classes = {}
    for v, d in dims.items():
        code_classes.setdefault(d, []).append(v)
    for d, members in sorted(code_classes.items()):
        oracle_classes = {CLASS_OF.get(m, "alone:" + m) for m in members}
        names = ", ".join(sorted(CSS_NAME.get(m, m.lower()) for m in members))
        key = "{" + names + "}"
        if len(oracle_classes) == 1 and (len(members) == 1 or not next(iter(oracle_classes)).startswith("alone:")):
            ctx.ok("F5-unit-dimension", key, {"dimension": d})
        else:
            ctx.fail("F5-unit-dimension", key, f"units {names} share dimension {d}, so they are converted into each other; CSS fixes no ratio between them (convertible classes are absolute lengths, angles, times, frequencies, resolutions)")
    for c, members in ORACLE.items():
        ds = {dims.get(m) for m in members}
        if len(ds) != 1:
            ctx.fail("F5-unit-dimension", f"class {c}", f"CSS-convertible units {sorted(members)} are split over dimensions {sorted(map(str, ds))}")
    # ratios
    for c, members in ORACLE.items():
        ms = sorted(members)
        base = ms[0]
        for m in ms[1:]:
            if facs.get(m) is None or facs.get(base) is None:
                continue
            got = facs[m] / facs[base]
            want = members[m] / members[base]
            key = f"{CSS_NAME.get(m, m.lower())}/{CSS_NAME.get(base, base.lower())}"
            if abs(got - want) <= 1e-12 * abs(want):
                ctx.ok("F5-unit-ratio", key, {"ratio": want})
            else:
                ctx.fail("F5-unit-ratio", key, f"1{CSS_NAME.get(m, m.lower())} converts to {got:.12g}{CSS_NAME.get(base, base.lower())}; CSS fixes {want:.12g}")
    # scale_to: None unless same dimension
    st = tree.one_method("value::unit::Unit", "scale_to")
    txt = A.show(st["body"]) + " ".join(A.show(x) for x in A.walk(st["body"]))
    conds = [A.show(n["cond"]).replace(" ", "") for n in A.walk(st["body"]) if n.get("e") == "if"]
    if "(self.dimension()==other.dimension())" in conds and "None" in txt:
        ctx.ok("F5-scale_to-guard", "Unit::scale_to converts only within one dimension", {"conds": conds})
    else:
        ctx.fail("F5-scale_to-guard", "Unit::scale_to converts only within one dimension", f"Unit::scale_to tests {conds}")
    # ---------------------------------------------------------------- (ii) routing and branch consistency
    S = sym.Sym(prog, inline_depth=0)
    oe = prog.one("<value::operator::Operator>::eval")
    regions = operator_regions(oe)
    for opn in ("Plus", "Minus"):
        if opn not in regions:
            ctx.anchor_lost(f"Operator::eval {opn} arm", "switch on the operator not found")
    helpers = set()
    for bi, t in oe.calls():
        d = mir.callee_name(t)
        if d in prog.bodies and any(bi in regions.get(o, ()) for o in ("Plus", "Minus")):
            hb = prog.bodies[d]
            if sum(1 for l in hb.locals[1:hb.argc + 1] if "numeric::Numeric" in l["ty"]) >= 2:
                helpers.add(d)
    bodies = [("Operator::eval", oe, regions)] + [(h, prog.bodies[h], None) for h in sorted(helpers)]
    for name, b, regs in bodies:
        sites = combine_sites(b, S)
        conv = [bi for bi, t in b.calls() if (mir.callee_name(t) or "").endswith("Numeric>::as_unitset")]
        scale_other = [mir.callee_name(t) for bi, t in b.calls() if re.search(r"::(scale_to|scale_factor|as_unit|as_unit_def)$", mir.callee_name(t) or "")]
        if regs is not None:
            for opn in ("Plus", "Minus"):
                reg = regs.get(opn, set())
                ss = [s for s in sites if s[0] in reg]
                kinds = sorted({(s[1], s[2]) for s in ss})
                want = [("add", False)] if opn == "Plus" else [("sub", False)]
                alt = [("add", True)] if opn == "Minus" else None
                key = f"{name}|{opn}"
                if not ss and helpers:
                    ctx.ok("F9-branch-consistency", key + "|delegated", None)
                elif kinds == want or (alt and kinds == alt):
                    ctx.ok("F9-branch-consistency", key, {"combine_sites": len(ss), "kind": kinds})
                else:
                    ctx.fail("F9-branch-consistency", key, f"the numeric branches of `{'+' if opn == 'Plus' else '-'}` do not all combine their operands the same way: {kinds} over {len(ss)} sites (expected {want}); one unit case computes a different operation", where=b.where(ss[0][0]) if ss else b.where())
                cv = [c for c in conv if c in reg]
                unitless_guard(ctx, b, S, key, cv)
                if len(cv) == 1:
                    ctx.ok("F4-conversion-routing", key + "|as_unitset", None)
                elif not helpers:
                    ctx.fail("F4-conversion-routing", key + "|as_unitset", f"expected exactly one as_unitset conversion in the {opn} arm, found {len(cv)}", where=b.where())
        else:
            kinds = sorted({(s[1], s[2]) for s in sites})
            key = f"{name}|shared helper"
            if len(kinds) <= 1:
                ctx.ok("F9-branch-consistency", key, {"combine_sites": len(sites), "kind": kinds})
            else:
                ctx.fail("F9-branch-consistency", key, f"the branches of the shared numeric helper {name} treat the right operand differently: {kinds} over {len(sites)} sites; e.g. one branch uses the negated operand and another the raw one, so `a - b` is wrong for that unit case", where=b.where(sites[0][0]))
            unitless_guard(ctx, b, S, key, conv)
            if len(conv) != 1:
                ctx.fail("F4-conversion-routing", key + "|as_unitset", f"expected one as_unitset conversion, found {len(conv)}", where=b.where())
    pc = prog.one("<value::numeric::Numeric as std::cmp::PartialOrd>::partial_cmp")
    conv = [bi for bi, t in pc.calls() if (mir.callee_name(t) or "").endswith("Numeric>::as_unitset")]
    others = [mir.callee_name(t) for bi, t in pc.calls() if re.search(r"::(scale_to|scale_factor)$", mir.callee_name(t) or "") or re.search(r"Number as std::ops::(Mul|Div)", mir.callee_name(t) or "")]
    unitless_guard(ctx, pc, S, "Numeric::partial_cmp", conv)
    if len(conv) == 1 and not others:
        ctx.ok("F4-conversion-routing", "Numeric::partial_cmp|as_unitset", None)
    else:
        ctx.fail("F4-conversion-routing", "Numeric::partial_cmp|as_unitset", f"Numeric::partial_cmp converts through {len(conv)} as_unitset call(s) and {others}", where=pc.where())
    au = prog.one("<value::numeric::Numeric>::as_unitset")
    calls = [mir.callee_name(t) for bi, t in au.calls()]
    if any((c or "").endswith("UnitSet>::scale_to") for c in calls):
        ctx.ok("F4-conversion-routing", "Numeric::as_unitset -> UnitSet::scale_to", None)
    else:
        ctx.fail("F4-conversion-routing", "Numeric::as_unitset -> UnitSet::scale_to", f"as_unitset calls {calls}", where=au.where())
    incompat_guard(ctx, prog, S)
    # ---------------------------------------------------------------- (iii) exponent arithmetic of * and /
    for tr, op, neg in (("Mul", "add_assign", False), ("Div", "sub_assign", True)):
        cands = [b for b in prog.bodies.values() if b.raw.get("trait") == f"std::ops::{tr}" and "unitset::UnitSet" in (b.raw.get("self_ty") or "")]
        if not cands:
            ctx.anchor_lost(f"impl {tr} for UnitSet", "not found")
            continue
        b = cands[0]
        ops = [mir.callee_name(t) or "" for bi, t in b.calls()]
        # `+=` / `-=`, or the overflow-aware spellings of the same operation (saturating / wrapping / checked)
        plus = r"i8 as std::ops::AddAssign|<i8>::(saturating|wrapping|checked)_add$"
        minus = r"i8 as std::ops::SubAssign|<i8>::(saturating|wrapping|checked)_sub$"
        has = any(re.search(plus if not neg else minus, o) for o in ops)
        wrong = any(re.search(minus if not neg else plus, o) for o in ops)
        mul = any(re.search(r"i8 as std::ops::(Mul|Div|MulAssign)|<i8>::(saturating|wrapping|checked)_(mul|div)$", o) for o in ops)
        if has and not wrong and not mul:
            ctx.ok("F5-exponent-arithmetic", f"UnitSet {tr}: exponents {'+=' if not neg else '-='}", None)
        else:
            ctx.fail("F5-exponent-arithmetic", f"UnitSet {tr}: exponents {'+=' if not neg else '-='}", f"impl {tr} for &UnitSet combines exponents with {[o for o in ops if 'i8' in o]}", where=b.where())
    ctx.explanation = ("Decision tables Unit::dimension / Unit::scale_factor evaluated for all 30 variants (constant f64 expressions folded) and compared with the CSS Values 4 classes and ratios; "
                       "routing of unit conversion through as_unitset in `+`, `-` and comparison (MIR); sibling-branch consistency of the numeric `+`/`-` branches (every branch combines the operands with "
                       "the same operation); exponent arithmetic of UnitSet Mul/Div. 'Any other pair is an error' is a value-level question and is not decided.")


def unitless_guard(ctx, body, S, key, conv_blocks):
    """F3 dominance: a differing-unit conversion (as_unitset) may only run after BOTH operands were
    tested for being unitless and found not to be ("a unitless operand takes the other operand's
    unit" — it is never scaled).  Each as_unitset block must be dominated by the false edge of an
    is_no_unit() test on two distinct receivers."""
    dom = body.dominators()
    tests = []
    for bi, t in body.calls():
        if not (mir.callee_name(t) or "").endswith("Numeric>::is_no_unit") or t.get("target") is None:
            continue
        sw = body.term(t["target"])
        if sw["k"] != "switch" or sw["discr"].get("p", [None])[0] != t["dest"][0]:
            continue
        false_t = [tg for val, tg, _ in sw["targets"] if str(val) == "0"]
        if len(false_t) != 1:
            continue
        tests.append((sym.show(S.operand(body, t["args"][0])), false_t[0], bi))
    for cb in conv_blocks:
        guarding = {recv for recv, ft, _ in tests if ft in dom.get(cb, ())}
        k = f"{key}|unitless-before-conversion"
        if len(guarding) >= 2:
            ctx.ok("F3-unitless-first", k, {"tested": sorted(guarding)})
        else:
            ctx.fail("F3-unitless-first", k, f"the unit conversion (as_unitset) can run before both operands were tested with is_no_unit() (tested on the way: {sorted(guarding) or 'none'}): "
                     "a unitless operand would be scaled by a unit ratio instead of taking the other operand's unit", where=body.where(cb))


def incompat_guard(ctx, prog, S):
    """(iv) "any other pair of different known units is an error": the `incompatible units` error of an
    unevaluated + / - (css BinOp::valid_css) is raised exactly when the two CSS dimension sets differ — its last
    deciding test is a plain `!=` / `==` of the two cmp_dim() results (directly, or in a helper that is
    nothing but that comparison).  A laxer predicate (an `is_empty() ||` leniency, a superset test) lets
    some pair of different units through without the error."""
    b = prog.one("<css::binop::BinOp>::valid_css")
    dom = b.dominators()
    sites = sorted({bi for bi, si, st in b.stmts() if st["k"] == "assign" and st["rv"]["k"] == "agg" and st["rv"].get("variant") == "Incompat"})
    ctx.floor("incompatible-units error sites in css BinOp::valid_css", len(sites), 1)
    for n, site in enumerate(sites):
        key = f"BinOp::valid_css|Incompat{'' if n == 0 else '#' + str(n)}"
        # the innermost dominating boolean switch
        cands = []
        for d in dom.get(site, ()):
            t = b.blocks[d]["term"]
            if t["k"] == "switch" and t.get("discr_ty") == "bool":
                cands.append(d)
        if not cands:
            ctx.fail("F5-incompat-error-guard", key, "the incompatible-units error is not decided by a boolean test", where=b.where(site))
            continue
        inner = max(cands, key=lambda d: len(dom.get(d, ())))
        cond = sym.strip_transparent(S.operand(b, b.blocks[inner]["term"]["discr"]))
        ok, what = _is_dim_inequality(prog, S, cond, 0)
        if ok:
            ctx.ok("F5-incompat-error-guard", key, what)
        else:
            ctx.fail("F5-incompat-error-guard", key, f"the incompatible-units error of an unevaluated + / - is decided by `{sym.show(cond)[:160]}`, not by a plain inequality of the two CSS dimension sets ({what}): "
                     "some pair of different known units is accepted without the error", where=b.where(inner))


def _is_dim_inequality(prog, S, cond, depth):
    if cond[0] == "call" and re.search(r"PartialEq(<.*>)?>?::(ne|eq)$", cond[1]) and len(cond[2]) == 2:
        a, c = (repr(x) for x in cond[2])
        if "cmp_dim" in a and "cmp_dim" in c and a != c or depth > 0:
            return True, "`!=` / `==` of the two dimension sets"
        return False, "the compared operands are not the two cmp_dim() results"
    if cond[0] == "unop" and cond[1] == "Not":
        return _is_dim_inequality(prog, S, sym.strip_transparent(cond[2]), depth)
    if cond[0] == "call" and cond[1] in prog.bodies and depth < 1 and len(cond[2]) == 2:
        hb = prog.bodies[cond[1]]
        from lib.sym import straight_line
        if not straight_line(hb):
            return False, f"the helper {mir.short(cond[1])} branches: it is more than the comparison"
        ret = sym.strip_transparent(S.local(hb, 0))
        ok, what = _is_dim_inequality(prog, S, ret, depth + 1)
        return ok, what + f" (through {mir.short(cond[1])})"
    return False, "unrecognised predicate"


def operator_regions(body):
    """variant name -> set of blocks dominated by that arm of the top-level switch on *self."""
    dom = body.dominators()
    out = {}
    for bi, blk in enumerate(body.blocks):
        t = blk["term"]
        if t["k"] == "switch" and (t.get("of_ty") or "").endswith("operator::Operator") and len(t["targets"]) >= 8:
            for _, tg, name in t["targets"]:
                if name:
                    out[name] = {b for b, ds in dom.items() if tg in ds}
            break
    return out


def combine_sites(body, S):
    """(block, 'add'|'sub', rhs derived from a negation?) for every Number + / - Number."""
    out = []
    for bi, t in body.calls():
        n = mir.callee_name(t) or ""
        m = re.search(r"number::Number as std::ops::(Add|Sub)(<.*>)?>::(add|sub)$", n)
        if not m:
            continue
        rhs = S.operand(body, t["args"][1])
        neg = any(c.endswith("Neg>::neg") for c in sym.calls_in(rhs))
        out.append((bi, m.group(3), neg))
    return out
