"""C06 — unique-id() is unique and random() stays in range.

 (i)   atomic read-modify-write: the value that flows into the identifier is produced by the
       same atomic step that advances the counter — either (A) the increment and the read both
       happen while one MutexGuard of the counter is alive, or (B) it is the return value of a
       single atomic read-modify-write (fetch_add / fetch_update);
 (ii)  the counter has no other user, and the only arithmetic on it is `+ positive literal`;
 (iii) the identifier template is an ASCII letter followed only by a lower-hex placeholder;
 (iv)  random($limit) = fastrand::i64(0..limit) + 1 with limit from check::positive_int;
       random() = fastrand::f64() unmodified;
 (v)   schedules: as C05 clause 4 (Send + Sync witnesses, no unsafe).
"""
import re

from lib import mir, sym, ast as A
from lib.keys import fn_key

RMW = re.compile(r"std::sync::atomic::Atomic[\w<>]*>::(fetch_add|fetch_update|fetch_sub|compare_exchange|compare_exchange_weak|swap)$")
ATOMIC_OTHER = re.compile(r"std::sync::atomic::Atomic[\w<>]*>::(load|store|get_mut|into_inner)$")


def run(ctx, F):
    prog = F.lib
    S = sym.Sym(prog, inline_depth=0)
    # ---------------------------------------------------------------- locate unique-id (by its Sass registration, not by the static's name)
    from rules.C34 import registry
    reg = registry(prog, S)
    impls = [i for i in reg.get(("module", "string", "unique-id"), []) if i]
    if len(impls) != 1 or impls[0] not in prog.bodies:
        ctx.anchor_lost("unique-id implementation", f"expected one registered implementation of sass:string.unique-id, found {impls}")
        return
    root = impls[0]
    family = [bd for d, bd in prog.bodies.items() if d == root or d.startswith(root + "::")]
    statics = sorted({c["static"] for bd in family for c in mir.iter_consts_body(bd.raw) if c.get("static")})
    tls = [(bd, bi) for bd in family for bi, t in bd.calls() if "LocalKey<T>>::with" in (mir.callee_name(t) or "") or "LocalKey<T>>::try_with" in (mir.callee_name(t) or "")]
    if tls:
        bd, bi = tls[0]
        ctx.fail("F3-atomic-step", "unique-id: increment and read are one atomic step", "the identifier is derived from thread-local state (LocalKey::with): ids are no longer drawn from one process-wide atomic step, "
                 "so uniqueness across calls and threads rests on arithmetic between the thread-local and the shared counter that this rule cannot see", where=bd.where(bi))
        return
    counters = [st for st in statics if st in prog.statics and not prog.statics[st].get("freeze", False)] or [st for st in statics if st in prog.statics]
    if len(counters) != 1:
        ctx.anchor_lost("unique-id counter", f"expected one shared counter static used by unique-id, found {counters}")
        return
    counter = counters[0]
    users = [b.def_ for b in prog.bodies.values() if any(c.get("static") == counter for c in mir.iter_consts_body(b.raw))]
    init_users = [u for u in users if u.startswith(counter)]
    body_users = [u for u in users if not u.startswith(counter)]
    if len(body_users) == 1:
        ctx.ok("F8-counter-single-user", f"unique-id counter referenced only by {fn_key(body_users[0], prog)}", None)
    else:
        ctx.fail("F8-counter-single-user", "unique-id counter users", f"the unique-id counter {counter} is referenced by {body_users}: a second reader/writer can break uniqueness")
        if not body_users:
            return
    b = prog.bodies[body_users[0]]
    ty = prog.statics[counter]["ty"]
    # ---------------------------------------------------------------- (i) atomic step
    fmt_calls = [(bi, t) for bi, t in b.calls() if "Argument<'_>>::new_" in (mir.callee_name(t) or "")]
    if len(fmt_calls) != 1:
        ctx.anchor_lost("unique-id format argument", f"expected one formatted argument in {b.def_}, found {len(fmt_calls)}")
        return
    fb, ft = fmt_calls[0]
    val = S.operand(b, ft["args"][0])
    locks = [(bi, t) for bi, t in b.calls() if (mir.callee_name(t) or "").endswith("Mutex<T>>::lock")]
    rmws = [(bi, t) for bi, t in b.calls() if RMW.search(mir.callee_name(t) or "")]
    others = [(bi, t) for bi, t in b.calls() if ATOMIC_OTHER.search(mir.callee_name(t) or "")]
    key = "unique-id: increment and read are one atomic step"
    if "Mutex" in ty and len(locks) == 1 and not rmws and not others:
        lb, lt = locks[0]
        # guard local = unwrap(lock())
        guard = None
        for bi, t in b.calls():
            if (mir.callee_name(t) or "").endswith("Result<T, E>>::unwrap") and t["args"][0].get("p", [None])[0] == lt["dest"][0]:
                guard = t["dest"][0]
        drops = [bi for bi, blk in enumerate(b.blocks) if blk["term"]["k"] == "drop" and blk["term"]["p"][0] == guard and not blk["cleanup"]]
        writes = [bi for bi, si, s in b.stmts() if s["k"] == "assign" and "*" in s["p"][1] and "deref_mut" in repr(S.local(b, s["p"][0]))]
        reads = []
        vs = repr(val)
        read_ok = "MutexGuard" in vs and ("Deref>::deref" in vs or "DerefMut>::deref_mut" in vs)
        # block order: lock dominates write and read; neither reachable from the drop
        dom = b.dominators()
        read_blocks = [bi for bi, t in b.calls() if "MutexGuard" in (mir.callee_name(t) or "") and (mir.callee_name(t) or "").endswith("::deref")]
        ok = guard is not None and len(drops) == 1 and writes and read_ok and read_blocks
        if ok:
            d = drops[0]
            after_drop = b.reachable_blocks(b.blocks[d]["term"]["target"])
            inside = all(lb in dom.get(x, set()) and x not in after_drop for x in writes + read_blocks)
            # the read must come after the write
            ordered = all(any(r in b.reachable_blocks(w) for w in writes) for r in read_blocks)
            ok = inside and ordered
        if ok:
            ctx.ok("F3-atomic-step", key, {"form": "mutex guard region", "lock": lb, "writes": writes, "reads": read_blocks, "drop": drops[0]})
        else:
            ctx.fail("F3-atomic-step", key, "the counter increment and the read that feeds the identifier are not both inside one MutexGuard region (lock → += → read → drop)", where=b.where(lb))
    elif "Atomic" in ty and len(rmws) == 1 and not locks and others and not any(mir.callee_name(rmws[0][1]) in sym.calls_in(val) for _ in [0]):
        ctx.fail("F3-atomic-step", key, f"the identifier is built from `{sym.show(val)[:160]}` (a separate atomic load), not from the return value of the atomic read-modify-write {mir.callee_name(rmws[0][1])}: two threads can obtain the same id", where=b.where(rmws[0][0]))
    elif "Atomic" in ty and len(rmws) == 1 and not locks:
        rb, rt = rmws[0]
        calls_in_val = sym.calls_in(val)
        if mir.callee_name(rt) in calls_in_val and not any(ATOMIC_OTHER.search(c) for c in calls_in_val):
            ctx.ok("F3-atomic-step", key, {"form": "atomic read-modify-write result", "rmw": mir.callee_name(rt)})
        else:
            ctx.fail("F3-atomic-step", key, f"the identifier is built from `{sym.show(val)[:160]}`, not from the return value of the single atomic read-modify-write ({mir.callee_name(rt)}): two threads can obtain the same id", where=b.where(rb))
    else:
        ctx.fail("F3-atomic-step", key, f"unrecognised counter discipline for {ty}: {len(locks)} lock(s), {len(rmws)} atomic RMW(s), {len(others)} other atomic access(es); the increment and the read that feeds the identifier are not one atomic step", where=b.where())
    # ---------------------------------------------------------------- (ii) arithmetic on the counter
    arith = []
    for bi, si, s in b.stmts():
        if s["k"] == "assign" and s["rv"]["k"] == "binop":
            arith.append((s["rv"]["op"], [o.get("v") for o in s["rv"]["ops"]]))
    for bi, t in rmws:
        arith.append((mir.callee_name(t).rsplit("::", 1)[-1], [a.get("v") for a in t["args"][1:2]]))
    good = [a for a in arith if a[0] in ("AddWithOverflow", "Add", "fetch_add") and any(str(v).isdigit() and int(v) > 0 for v in a[1])]
    bad = [a for a in arith if a not in good]
    if good and not bad:
        ctx.ok("F5-counter-arithmetic", "counter only advances by a positive literal", {"ops": good})
    else:
        ctx.fail("F5-counter-arithmetic", "counter only advances by a positive literal", f"arithmetic in unique-id: {arith}", where=b.where())
    # ---------------------------------------------------------------- (iii) template
    tree = F.ast
    tmpl = None
    for f in tree.fn_list:
        if f["path"].endswith("string::create_module"):
            for n in A.walk(f["body"]):
                if n.get("e") == "closure" and any(x.get("i") == "static" and x.get("path", "").rsplit("::", 1)[-1] == counter.rsplit("::", 1)[-1].split("#")[0] for x in walk_items(n)):
                    fm = [m for m in A.walk(n["body"]) if m.get("e") == "fmt"]
                    if len(fm) == 1:
                        tmpl = fm[0]["template"]
    if tmpl is None:
        ctx.anchor_lost("unique-id template", "format template of unique-id not found in string::create_module")
    elif re.fullmatch(r"[A-Za-z][A-Za-z0-9_-]*\{\w*:x\}", tmpl):
        ctx.ok("F6-identifier-template", "unique-id template", {"template": tmpl})
    else:
        ctx.fail("F6-identifier-template", "unique-id template", f"the template `{tmpl}` does not always produce a CSS identifier (must start with an ASCII letter and continue with lower-hex digits)")
    # ---------------------------------------------------------------- (iv) random
    rnd = [bd for bd in prog.bodies.values() if bd.kind == "Closure" and any((mir.callee_name(t) or "").startswith("fastrand::") for bi, t in bd.calls())]
    if len(rnd) != 1:
        ctx.anchor_lost("math.random closure", f"expected one closure calling fastrand, found {[x.def_ for x in rnd]}")
    else:
        r = rnd[0]
        oks = []
        for bi, si, s in r.stmts():
            if s["k"] == "assign" and s["p"][0] == 0 and s["rv"]["k"] == "agg" and s["rv"].get("variant") == "Ok":
                oks.append(sym.strip_transparent(S.operand(r, s["rv"]["ops"][0])))
        f64_pat = ("call", "Value>::scalar", [("call", "fastrand::f64", [])])
        lim = ("proj", "*", ["as Some", ".0"])
        i64_pat = ("call", "Value>::scalar", [("proj", ("binop", "AddWithOverflow"), [".0"])])
        n_f = sum(1 for t in oks if sym.match(t, f64_pat))
        n_i = 0
        for t in oks:
            if t[0] == "call" and t[1].endswith("Value>::scalar") and t[2] and t[2][0][0] == "proj" and t[2][0][1][0] == "binop":
                bo = t[2][0][1]
                a, c = bo[2], bo[3]
                if bo[1] in ("AddWithOverflow", "Add") and c == ("const", "1") and a[0] == "call" and a[1] == "fastrand::i64":
                    rng = a[2][0]
                    if rng[0] == "agg" and str(rng[1]).endswith("Range::Range") and rng[2][0] == ("const", "0") and "positive_int" in repr(S.operand(r, first_arg_op(r, "fastrand::i64"))) + repr(rng) + repr(get_opt_src(r, S)):
                        n_i += 1
        if n_f == 1:
            ctx.ok("F4-random-range", "random() = fastrand::f64() unmodified", None)
        else:
            ctx.fail("F4-random-range", "random() = fastrand::f64() unmodified", f"return terms: {[sym.show(t)[:120] for t in oks]}", where=r.where())
        if n_i == 1:
            ctx.ok("F4-random-range", "random($limit) = fastrand::i64(0..limit) + 1, limit from check::positive_int", None)
        else:
            ctx.fail("F4-random-range", "random($limit) = fastrand::i64(0..limit) + 1, limit from check::positive_int", f"return terms: {[sym.show(t)[:160] for t in oks]}", where=r.where())
    pi = prog.find("check::positive_int")
    if len(pi) == 1:
        # positive_int must reject values <= 0: look for the comparison with 0 guarding an Err
        cmp0 = [s for bi, si, s in pi[0].stmts() if s["k"] == "assign" and s["rv"]["k"] == "binop" and s["rv"]["op"] in ("Gt", "Ge", "Lt", "Le") and any(o.get("v") in ("0", "1") for o in s["rv"]["ops"])]
        calls = [mir.callee_name(t) or "" for bi, t in pi[0].calls()]
        if cmp0 or any("is_positive" in c for c in calls):
            ctx.ok("F5-positive-int", "check::positive_int tests positivity", None)
        else:
            ctx.fail("F5-positive-int", "check::positive_int tests positivity", "no comparison with zero / is_positive() in check::positive_int", where=pi[0].where())
    else:
        ctx.anchor_lost("check::positive_int", f"found {len(pi)}")
    # ---------------------------------------------------------------- (v) schedules
    w = F.witness
    if w["ok"] and w["negative_control_fails"]:
        ctx.ok("F10-send-sync", "shared types are Send + Sync (compile-only witness)", None)
    else:
        ctx.fail("F10-send-sync", "witness crate", "Send + Sync witnesses failed")
    ctx.explanation = ("Guard-scope / atomic-RMW rule on the MIR of the unique-id closure (value fed to the format argument must come from the atomic step that advances the counter), "
                       "single-user inventory of the counter static, template shape from the AST, symbolic shape of math.random's return values, Send+Sync witnesses.")


def first_arg_op(body, callee):
    for bi, t in body.calls():
        if mir.callee_name(t) == callee:
            return t["args"][0]
    return {"k": "const", "ty": "?"}


def get_opt_src(body, S):
    for bi, t in body.calls():
        if (mir.callee_name(t) or "").endswith("get_opt_map"):
            return [S.operand(body, a) for a in t["args"]]
    return None


def flatten(t):
    out = []

    def rec(x):
        if isinstance(x, tuple):
            if x and isinstance(x[0], str):
                out.append(x)
            for y in x:
                if isinstance(y, tuple):
                    rec(y)
    rec(t)
    return out


def walk_items(n):
    stack = [n]
    while stack:
        x = stack.pop()
        if isinstance(x, list):
            stack.extend(x)
        elif isinstance(x, dict):
            if "i" in x:
                yield x
            stack.extend(v for v in x.values() if isinstance(v, (dict, list)))
