"""C28 (partial) — structural clauses of the list functions (MIR rules over the registered
implementations of sass:list).

The list model over all values, separators and indices is value-level and NOT decided.  Decided:

 (i)   index validation: in nth and set-nth every element access (`list[n]`, `get`, `get_item`,
       `index_mut`) uses an index that is the result of `index_of(v, LEN)` obtained through the `$n`
       argument, where LEN is the length of the *same* collection that is then indexed; index_of
       accepts exactly 1..=len and -len..=-1 (its four comparisons are read from its body);
 (ii)  separator choice: join's separator is `explicit.or(sep of list1).or(sep of list2)
       .unwrap_or(Space)`, append's is `explicit.or(sep of list).unwrap_or(Space)` — the explicit
       argument first, then the first list that has one;
 (iii) zip truncates: the number of rows is the `min` of the lengths of all argument lists;
 (iv)  set-nth changes one element: between get_list and the result the only mutation of the
       list is the indexed store.
"""
import re

from lib import mir, sym
from lib.keys import fn_key


def family(prog, root):
    return [b for d, b in prog.bodies.items() if d == root or d.startswith(root + "::")]


def closure_len_of(prog, S, parent, closure_def):
    """For a closure `|v| index_of(v, X.len())` created in `parent`: the parent's term of X, or None."""
    cb = prog.bodies.get(closure_def)
    if cb is None:
        return None, "closure body not found"
    io = [(bi, t) for bi, t in cb.calls() if (mir.callee_name(t) or "").endswith("list::index_of")]
    if len(io) != 1:
        return None, f"{len(io)} index_of calls"
    ln = sym.strip_transparent(S.operand(cb, io[0][1]["args"][1]))
    if not (ln[0] == "call" and re.search(r">::len$", ln[1]) and ln[2]):
        return ln, "constant-or-other"
    coll = sym.strip_transparent(ln[2][0])
    # the collection is an upvar of the closure: param 1 projection .N
    if coll[0] == "param" and coll[1] == 1 and coll[2]:
        m = re.match(r"^\.(\d+)$", coll[2][0])
        if m:
            for bi, si, st in parent.stmts():
                if st["k"] == "assign" and st["rv"]["k"] == "agg" and st["rv"].get("closure") == closure_def:
                    ops = st["rv"]["ops"]
                    i = int(m.group(1))
                    if i < len(ops):
                        return sym.strip_transparent(S.operand(parent, ops[i])), "captured"
    return coll, "local"


def run(ctx, F):
    ctx.explanation = ("C28, structural clauses only (the list model over all values is value-level and not decided): provenance of every element index in nth / set-nth "
                       "from index_of over the length of the same collection, bounds table of index_of, separator precedence of join / append, zip's row count, "
                       "single indexed store in set-nth; MIR + symbolic provenance over the registered sass:list implementations")
    P = F.lib
    from rules.C34 import registry
    S = sym.Sym(P, inline_depth=0)
    reg = registry(P, S)
    impl = {}
    for (kind, mod, name), impls in reg.items():
        if mod == "list" and kind == "module":
            im = [i for i in impls if i]
            if len(im) == 1:
                impl[name] = im[0]
    ctx.floor("C28 registered sass:list implementations", len(impl), 9)
    for need in ("nth", "set-nth", "join", "append", "zip"):
        if need not in impl:
            ctx.anchor_lost(f"sass:list.{need}", "no registered implementation found")

    # ---------------------------------------------------------------- (i) index provenance
    ACCESS = re.compile(r" as std::ops::Index(Mut)?<.*>>::index(_mut)?$|^<\[T\]>::get(_mut)?$|OrderMap<K, V>>::get_item$|^<std::vec::Vec<T, A>>::(remove|swap_remove|insert)$")
    n_access = 0
    for name in ("nth", "set-nth"):
        if name not in impl:
            continue
        b = P.bodies[impl[name]]
        for bi, t in b.calls():
            cn = mir.callee_name(t) or ""
            if not ACCESS.search(cn) or len(t["args"]) < 2:
                continue
            n_access += 1
            coll = sym.strip_transparent(S.operand(b, t["args"][0]))
            idx = sym.strip_transparent(S.operand(b, t["args"][1]))
            key = f"sass:list.{name}|{mir.short(cn).rsplit('::', 1)[-1]} on {sym.show(coll)[-40:]}"
            # idx = (Try::branch(get_map(args, 'n', closure)) as Continue).0
            s_idx = repr(idx)
            m = re.search(r"\('closure', '([^']+)'", s_idx)
            if "get_map" not in s_idx or "'n'" not in s_idx or not m:
                ctx.fail("F4-index-validated", key, f"list.{name} accesses an element with the index `{sym.show(idx)[:120]}`, which is not the validated `$n` (index_of through get_map)", where=b.where(bi))
                continue
            measured, how = closure_len_of(P, S, b, m.group(1))
            if measured is None:
                ctx.fail("F4-index-validated", key, f"the `$n` argument of list.{name} is not validated by index_of ({how})", where=b.where(bi))
                continue
            # same collection: the measured term and the indexed term denote the same place (positional vector of an arglist: the arglist itself is measured)
            a, c = repr(measured), repr(coll)
            same = a == c or c.startswith(a[:-1]) or a.startswith(c[:-1]) or (a.replace(", ('.positional',)", "") in c)
            same = same or _same_root(measured, coll)
            if same:
                ctx.ok("F4-index-validated", key, f"index_of(v, len of {sym.show(measured)[-50:]})")
            else:
                ctx.fail("F4-index-validated", key, f"list.{name} validates `$n` against the length of `{sym.show(measured)[:100]}` but indexes `{sym.show(coll)[:100]}`: a different collection", where=b.where(bi))
    ctx.floor("element accesses in nth / set-nth", n_access, 4)
    # the helper's bounds
    io = P.find("sass::functions::list::index_of")
    if len(io) != 1:
        ctx.anchor_lost("list::index_of", f"found {len(io)}")
    else:
        ib = io[0]
        cmps = []
        for bi, si, st in ib.stmts():
            if st["k"] == "assign" and st["rv"]["k"] == "binop" and st["rv"]["op"] in ("Le", "Lt", "Ge", "Gt", "Eq", "Ne"):
                ops = [sym.show(sym.strip_transparent(S.operand(ib, o))) for o in st["rv"]["ops"]]
                cmps.append((st["rv"]["op"], ops))
        txt = " ; ".join(f"{op}({a}, {c})" for op, (a, c) in cmps)
        calls = [mir.short(mir.callee_name(t) or "") for bi, t in ib.calls()]
        upper = any(op in ("Le",) and "arg2" in c or op in ("Ge",) and "arg2" in a for op, (a, c) in cmps)
        lower = any(op in ("Ge",) and "Neg" in c or op in ("Le",) and "Neg" in a for op, (a, c) in cmps)
        signs = "<i64>::is_positive" in calls and "<i64>::is_negative" in calls
        # other spellings of the sign test: `n.cmp(&0)` matched on Greater / Less, or `n > 0` / `n < 0`
        for bi, t in ib.calls():
            if re.search(r"(Ord|PartialOrd)>?::(cmp|partial_cmp)$", mir.callee_name(t) or "") and len(t["args"]) == 2:
                a1 = repr(S.operand(ib, t["args"][1]))
                prom0 = any(str(o.get("v")) == "0" for pr in ib.raw.get("promoted", []) for blk in pr["blocks"] for st in blk["stmts"]
                            if st["k"] == "assign" for o in (st["rv"].get("ops") or []) if o.get("k") == "const")
                if re.search(r"\('const', '?0'?\)", a1) or ("'promoted'" in a1 and prom0):
                    signs = True
        zero_cmp = {op for op, (a, c) in cmps if c in ("0", "const(0)", "'0'") or a in ("0", "const(0)", "'0'")}
        if {"Gt", "Lt"} <= zero_cmp or {"Ge", "Le"} <= zero_cmp:
            signs = True
        if upper and lower and signs:
            ctx.ok("F5-index-bounds", "index_of accepts 1..=len and -len..=-1", txt[:200])
        else:
            ctx.fail("F5-index-bounds", "index_of accepts 1..=len and -len..=-1", f"index_of compares {txt[:200]} (is_positive/is_negative: {signs}): expected `n <= len` for positive and `n >= -len` for negative indices", where=ib.where())

    # ---------------------------------------------------------------- (ii) separator precedence
    def sep_term(name):
        b = P.bodies[impl[name]]
        for bi, t in b.calls():
            if (mir.callee_name(t) or "").endswith("Option<T>>::unwrap_or") and "ListSeparator" in repr(S.operand(b, t["args"][1])):
                return b, bi, sym.strip_transparent(S.operand(b, t["args"][0])), sym.strip_transparent(S.operand(b, t["args"][1]))
        return b, None, None, None

    def chain(t):
        """flatten or(or(a, b), c) -> [a, b, c]"""
        if t[0] == "call" and t[1].endswith("Option<T>>::or") and len(t[2]) == 2:
            return chain(sym.strip_transparent(t[2][0])) + [sym.strip_transparent(t[2][1])]
        return [t]
    for name, lists in (("join", ["list1", "list2"]), ("append", ["list"])):
        if name not in impl:
            continue
        b, bi, t, dflt = sep_term(name)
        key = f"sass:list.{name}|separator = explicit, then {' then '.join(lists)}, then space"
        if t is None:
            ctx.anchor_lost(f"sass:list.{name} separator", "no unwrap_or(ListSeparator::..) found")
            continue
        parts = [repr(x) for x in chain(t)]
        want = ["'separator'"] + [f"'{l}'" for l in lists]
        ok = len(parts) == len(want) and all(w in p for w, p in zip(want, parts)) and "get_map" in parts[0] and all("get_list" in p and "('.1',)" in p for p in parts[1:]) and "Space" in repr(dflt)
        if ok:
            ctx.ok("F4-separator-precedence", key, None)
        else:
            ctx.fail("F4-separator-precedence", key, f"list.{name} chooses its separator as `{sym.show(t)[:200]}` with default `{sym.show(dflt)[:40]}`: expected the explicit $separator first, then the separator of {' then of '.join(lists)}, then space", where=b.where(bi))

    # ---------------------------------------------------------------- (iii) zip truncates to the shortest
    if "zip" in impl:
        b = P.bodies[impl["zip"]]
        mins = [(bi, t) for bi, t in b.calls() if (mir.callee_orig(t) or "").endswith("Iterator::min") or (mir.callee_name(t) or "").endswith("Iterator::min")]
        ranges = [sym.strip_transparent(S.operand(b, st["rv"]["ops"][1])) for bi, si, st in b.stmts()
                  if st["k"] == "assign" and st["rv"]["k"] == "agg" and str(st["rv"].get("adt", "")).endswith("ops::Range") and len(st["rv"]["ops"]) == 2]
        good = bool(mins) and "len" in repr(S.operand(b, mins[0][1]["args"][0])) and any("Iterator::min" in repr(r) for r in ranges)
        key = "sass:list.zip|row count = min of the lengths"
        if good:
            ctx.ok("F4-zip-shortest", key, None)
        else:
            ctx.fail("F4-zip-shortest", key, f"list.zip does not iterate 0..min(len of every list) (min calls: {len(mins)}, range ends: {[sym.show(r)[:60] for r in ranges]}): it must truncate to the shortest list", where=b.where())

    # ---------------------------------------------------------------- (iv) set-nth: one indexed store
    if "set-nth" in impl:
        b = P.bodies[impl["set-nth"]]
        MUT = re.compile(r"^<std::vec::Vec<T, A>>::(push|insert|remove|swap_remove|truncate|clear|retain|drain|pop|append|extend|extend_from_slice|swap|sort\w*|reverse|dedup\w*|split_off|resize)$|IndexMut<")
        muts = [mir.short(mir.callee_name(t) or "") for bi, t in b.calls() if MUT.search(mir.callee_name(t) or "")]
        key = "sass:list.set-nth|the only mutation is the indexed store"
        if len(muts) == 1 and "IndexMut" in muts[0]:
            ctx.ok("F8-set-nth-single-store", key, muts[0])
        else:
            ctx.fail("F8-set-nth-single-store", key, f"list.set-nth mutates its list with {muts}: exactly one indexed store is expected (set-nth changes only the addressed element)", where=b.where())


def _same_root(a, b):
    """both terms project out of the same argument value (the `$list` argument)"""
    ra, rb = repr(a), repr(b)
    m1 = re.search(r"from_static', \(\('const', '(\w+)'\)", ra)
    m2 = re.search(r"from_static', \(\('const', '(\w+)'\)", rb)
    if not (m1 and m2 and m1.group(1) == m2.group(1)):
        return False
    # same enum payload (List / Map / ArgList) when both name one
    v1 = re.findall(r"as (List|Map|ArgList)", ra)
    v2 = re.findall(r"as (List|Map|ArgList)", rb)
    return not v1 or not v2 or v1[-1] == v2[-1]
