"""C24 — selector nest / append agree with rule nesting (F9 shared implementation).

selector.nest(a, b) and the nesting of `a { b { .. } }` both reach CssSelectorSet::nest (the
parent set being the back-reference); selector.append(a, b) and the resolution of `a { &b {..} }`
both reach CompoundSelector::append.  Neither side has a second implementation: the only
callers of those two functions lie on these two paths.  The unify / extend / replace laws are
relations over runtime selector structures and are not claimed.
"""
from collections import deque

from lib import mir, sym
from rules.C34 import registry

NEST = "<css::selectors::cssselectorset::CssSelectorSet>::nest"
APPEND = "<css::selectors::compound::CompoundSelector>::append"


def reach_local(prog, root, limit=6):
    """local functions reachable from root through at most `limit` direct (resolved) calls"""
    seen = {root: 0}
    dq = deque([root])
    while dq:
        d = dq.popleft()
        if seen[d] >= limit or d not in prog.bodies:
            continue
        b = prog.bodies[d]
        nxt = [mir.callee_name(t) for bi, t in b.calls() if t["callee"].get("res") == "item"]
        nxt += [c.def_ for c in prog.closures_of(d)]
        for c in mir.iter_consts_body(b.raw):
            if "fn" in c and c["fn"].get("res") == "item":
                nxt.append(c["fn"]["def"])
        for n in nxt:
            if n and n in prog.bodies and n not in seen:
                seen[n] = seen[d] + 1
                dq.append(n)
    return seen


def run(ctx, F):
    prog = F.lib
    S = sym.Sym(prog, inline_depth=0)
    reg = registry(prog, S)
    for anchor in (NEST, APPEND):
        if anchor not in prog.bodies:
            ctx.anchor_lost(anchor, "function not found")
            return
    hi = "output::transform::handle_item"
    sel_nest = (reg.get(("module", "selector", "nest")) or [None])[0]
    sel_append = (reg.get(("module", "selector", "append")) or [None])[0]
    if not sel_nest or not sel_append:
        ctx.anchor_lost("selector.nest / selector.append registrations", f"nest={sel_nest}, append={sel_append}")
        return
    r_rule = reach_local(prog, hi, limit=10)
    for name, impl, target in (("selector.nest", sel_nest, NEST), ("selector.append", sel_append, APPEND)):
        r_fn = reach_local(prog, impl, limit=10)
        a = target in r_fn
        b = target in r_rule
        key = f"{name} / rule nesting -> {mir.short(target)}"
        if a and b:
            ctx.ok("F9-shared-implementation", key, {"function_path_len": r_fn[target], "rule_path_len": r_rule[target]})
        else:
            ctx.fail("F9-shared-implementation", key, f"{name} reaches {mir.short(target)}: {a}; rule nesting (handle_item) reaches it: {b}. The two forms no longer share one implementation")
    # no second implementation: callers of the two anchors
    for target, allowed_prefix in ((NEST, ("<css::selectors::context::SelectorCtx>::nest", "sass::functions::selector::")),
                                   (APPEND, ("<css::selectors::selector::Selector>::", "<css::selectors::cssselectorset::CssSelectorSet>::", "<css::selectors::selectorset::SelectorSet>::"))):
        callers = prog.callers_of(target)
        odd = [c for c in callers if not any(c.startswith(p) for p in allowed_prefix)]
        key = f"callers of {mir.short(target)}"
        if callers and not odd:
            ctx.ok("F8-single-implementation", key, {"callers": [mir.short(c) for c in callers]})
        else:
            ctx.fail("F8-single-implementation", key, f"unexpected callers {odd} (all: {callers})")
    ctx.explanation = ("Resolved call-graph reachability (direct calls only, bounded depth) from the selector.nest / selector.append built-ins and from handle_item to the two implementation anchors; caller inventory of the anchors; "
                       "argument roles at the CssSelectorSet::nest call sites.")
