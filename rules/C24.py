"""C24 — selector nest / append agree with rule nesting (F9 shared implementation).

selector.nest(a, b) and the nesting of `a { b { .. } }` both reach CssSelectorSet::nest (the
parent set being the back-reference); selector.append(a, b) and the resolution of `a { &b {..} }`
both reach CompoundSelector::append.  Neither side has a second implementation: the only
callers of those two functions lie on these two paths.  The unify / extend / replace laws are
relations over runtime selector structures and are not claimed as a whole; two structural
necessary conditions are: selector.extend only adds (extend_only_adds), and wherever a unify
function picks one of two operands because `P.is_superselector(Q)` holds, it picks the covered
one, Q (the result must be covered by BOTH inputs; P alone is not covered by Q).
"""
from collections import deque

from lib import mir, sym
from rules.C34 import registry

NEST = "<css::selectors::cssselectorset::CssSelectorSet>::nest"
APPEND = "<css::selectors::compound::CompoundSelector>::append"


def reach_local(prog, root, limit=6):
    """local functions reachable from root through at most `limit` direct (resolved) calls"""
    seen = {root: 0}
    dq = deque([root])
    while dq:
        d = dq.popleft()
        if seen[d] >= limit or d not in prog.bodies:
            continue
        b = prog.bodies[d]
        nxt = [mir.callee_name(t) for bi, t in b.calls() if t["callee"].get("res") == "item"]
        nxt += [c.def_ for c in prog.closures_of(d)]
        for c in mir.iter_consts_body(b.raw):
            if "fn" in c and c["fn"].get("res") == "item":
                nxt.append(c["fn"]["def"])
        for n in nxt:
            if n and n in prog.bodies and n not in seen:
                seen[n] = seen[d] + 1
                dq.append(n)
    return seen


def run(ctx, F):
    prog = F.lib
    S = sym.Sym(prog, inline_depth=0)
    reg = registry(prog, S)
    for anchor in (NEST, APPEND):
        if anchor not in prog.bodies:
            ctx.anchor_lost(anchor, "function not found")
            return
    hi = "output::transform::handle_item"
    sel_nest = (reg.get(("module", "selector", "nest")) or [None])[0]
    sel_append = (reg.get(("module", "selector", "append")) or [None])[0]
    if not sel_nest or not sel_append:
        ctx.anchor_lost("selector.nest / selector.append registrations", f"nest={sel_nest}, append={sel_append}")
        return
    r_rule = reach_local(prog, hi, limit=10)
    for name, impl, target in (("selector.nest", sel_nest, NEST), ("selector.append", sel_append, APPEND)):
        r_fn = reach_local(prog, impl, limit=10)
        a = target in r_fn
        b = target in r_rule
        key = f"{name} / rule nesting -> {mir.short(target)}"
        if a and b:
            ctx.ok("F9-shared-implementation", key, {"function_path_len": r_fn[target], "rule_path_len": r_rule[target]})
        else:
            ctx.fail("F9-shared-implementation", key, f"{name} reaches {mir.short(target)}: {a}; rule nesting (handle_item) reaches it: {b}. The two forms no longer share one implementation")
    # no second implementation: callers of the two anchors
    for target, allowed_prefix in ((NEST, ("<css::selectors::context::SelectorCtx>::nest", "sass::functions::selector::")),
                                   (APPEND, ("<css::selectors::selector::Selector>::", "<css::selectors::cssselectorset::CssSelectorSet>::", "<css::selectors::selectorset::SelectorSet>::"))):
        callers = prog.callers_of(target)
        odd = [c for c in callers if not any(c.startswith(p) for p in allowed_prefix)]
        key = f"callers of {mir.short(target)}"
        if callers and not odd:
            ctx.ok("F8-single-implementation", key, {"callers": [mir.short(c) for c in callers]})
        else:
            ctx.fail("F8-single-implementation", key, f"unexpected callers {odd} (all: {callers})")
    extend_only_adds(ctx, F.ast)
    unify_keeps_the_covered(ctx, F.ast)
    ctx.explanation = ("Resolved call-graph reachability (direct calls only, bounded depth) from the selector.nest / selector.append built-ins and from handle_item to the two implementation anchors; caller inventory of the anchors; "
                       "argument roles at the CssSelectorSet::nest call sites.")


def unify_keeps_the_covered(ctx, tree):
    """`if P.is_superselector(Q) { ..Q.. }`: in the unify functions a pick-one decision keeps the narrower operand."""
    from lib import ast as A
    n = 0
    for f in tree.fn_list:
        if not (f["path"].startswith("css::selectors::") and "unify" in f["sig"]["name"]):
            continue
        seen = {}
        for node in A.walk(f["body"]):
            if node.get("e") != "if":
                continue
            c = A.strip(node["cond"])
            if not (c.get("e") == "mcall" and c["m"] == "is_superselector" and len(c["args"]) == 1):
                continue
            P, Q = A.strip(c["recv"]), A.strip(c["args"][0])
            if P.get("e") != "path" or Q.get("e") != "path":
                continue
            names = [x["p"] for x in A.walk(node["then"]) if x.get("e") == "path"]
            uses_p, uses_q = P["p"] in names, Q["p"] in names
            if uses_p == uses_q:
                continue          # not a pick-one decision (both operands combined, or neither)
            n += 1
            base = f"{f['path']}|if {P['p']} covers {Q['p']}"
            seen[base] = seen.get(base, 0) + 1
            key = base if seen[base] == 1 else f"{base}#{seen[base] - 1}"
            if uses_q:
                ctx.ok("F5-unify-keeps-covered", key, f"keeps {Q['p']}")
            else:
                ctx.fail("F5-unify-keeps-covered", key, f"{f['path']}: when `{P['p']}` is a superselector of `{Q['p']}` the function keeps `{P['p']}` (the wider one): the result of selector.unify is then not covered by `{Q['p']}`, "
                         "so one of the inputs is no longer a superselector of the result")
    ctx.floor("pick-one decisions by is_superselector in unify functions", n, 5)


REMOVALS = ("retain", "retain_mut", "remove", "swap_remove", "drain", "truncate", "dedup", "dedup_by", "dedup_by_key", "pop", "clear", "split_off")


def extend_only_adds(ctx, tree):
    """selector.extend keeps all of s's complex selectors: in Selector::extend a removal may only act on a
    vector of freshly generated selectors into which the original is inserted afterwards (same block);
    the accumulated result itself is never filtered."""
    from lib import ast as A
    f = tree.one_method("css::selectors::selector::Selector", "extend")
    n = 0

    def blocks(node):
        for x in A.walk(node):
            if x.get("e") == "block":
                yield x
    for blk in blocks(f["body"]):
        stmts = blk["stmts"]
        for i, st in enumerate(stmts):
            x = A.strip(st.get("x") or {})
            if not (isinstance(x, dict) and x.get("e") == "mcall" and x["m"] in REMOVALS and A.strip(x["recv"]).get("e") == "path"):
                continue
            n += 1
            v = A.strip(x["recv"])["p"]
            later = stmts[i + 1:]
            readd = any(A.strip(s2.get("x") or {}).get("e") == "mcall" and A.strip(s2["x"])["m"] == "insert" and A.show(A.strip(s2["x"])["recv"]).strip() == v
                        and A.strip(A.strip(s2["x"])["args"][0]).get("v") in ("0", 0) for s2 in later)
            key = f"Selector::extend|{v}.{x['m']}"
            if readd:
                ctx.ok("F3-extend-only-adds", key, {"then": f"{v}.insert(0, original)"})
            else:
                ctx.fail("F3-extend-only-adds", key, f"Selector::extend removes elements from `{v}` ({x['m']}) and does not put the original selector back afterwards: selector.extend could drop one of s's own complex selectors")
    # filtering rebuilds of the accumulated result outside the per-extendee step
    for st in f["body"]["stmts"]:
        x = A.strip(st.get("x") or st.get("init") or {})
        if isinstance(x, dict) and x.get("e") == "assign" and A.show(x["l"]).strip() == "result":
            chain = [m["m"] for m in A.walk(x["r"], fn_boundary=True) if m.get("e") == "mcall"]
            bad = [m for m in chain if m in ("filter", "filter_map", "skip", "skip_while", "take", "take_while", "step_by")]
            if bad:
                ctx.fail("F3-extend-only-adds", f"Selector::extend|result rebuilt with {bad}", f"the accumulated result of Selector::extend is rebuilt through {bad}: an original selector can be dropped")
    ctx.floor("removal sites in Selector::extend", n, 1)
