"""C31 (partial) — channel stores are bounded, comparison ignores the notation.

The conversion round trips (rebuilding a colour from its own rgb / hsl / hwb channels gives an equal
colour) are floating-point arithmetic and NOT decided.  Decided, from the MIR of the whole crate:

 (i)   who may write: the channel fields of Rgba / Hsla / Hwba are private, so every writer is a body
       of the crate and is in the inventory below (struct literals and field assignments);
 (ii)  bounded stores: for every such store, an interval analysis of the writing function (lib/interval:
       forward abstract interpretation over the MIR, branch refinement on is_sign_negative / comparisons,
       crate-local callees interpreted with the argument intervals, reads of a channel field assumed in
       its range — the inductive invariant) proves the stored value inside the range the statement gives
       for that channel: red/green/blue 0..=255, alpha 0..=1, hue [0, 360), saturation / lightness /
       whiteness / blackness 0..=1.  NaN is tracked but a NaN store is not a violation of a range;
 (iii) "two colours with the same rgba channels compare equal, whichever notation created them": the
       eq / partial_cmp / cmp bodies of the three structs read channel fields only, never the notation
       metadata (`source`, `hsla_format`);
 (iv)  the rgb -> hsl conversion picks the right channels: `max_min_largest(a, b, c)` touches its arguments
       only through comparisons, so it is evaluated statically for every weak ordering of three values
       (lib/rankeval over the AST, 27 rank assignments): it must return the maximum, the minimum and the
       index of a channel that attains the maximum — a necessary condition of "rebuilding a colour from
       its own hsl channels gives an equal colour";
 (v)   the Sass-level reporters of the channels whose store invariant is established (hue, red, green,
       blue, alpha / opacity) hand a value inside the range to the number they return: the reporter is
       interpreted by lib/interval with reads of *established* fields only (a field with an unproven
       store is read as unbounded), and every f64 it passes to `Numeric::new` / `Value::scalar` is checked;
 (vi)  `Color::cmp` compares two colours field by field only in a representation that is canonical (the
       hue store of that struct is proven in [0, 360)); otherwise equal colours with different stored
       hues would compare unequal.
"""
import json
import os
import re

from lib import interval, mir
from lib.keys import fn_key

STRUCTS = {
    "value::colors::rgba::Rgba": {"red": (0, 255, False), "green": (0, 255, False), "blue": (0, 255, False), "alpha": (0, 1, False)},
    "value::colors::hsla::Hsla": {"hue": (0, 360, True), "sat": (0, 1, False), "lum": (0, 1, False), "alpha": (0, 1, False)},
    "value::colors::hwba::Hwba": {"hue": (0, 360, True), "w": (0, 1, False), "b": (0, 1, False), "alpha": (0, 1, False)},
}


def field_range(ty, field):
    ty = re.sub(r"^&(mut )?", "", ty).strip()
    r = STRUCTS.get(ty, {}).get(field)
    if r is None:
        return None
    return interval.Iv(float(r[0]), float(r[1]), False, r[2], nan=True)


REVIEWED = os.path.join(os.path.dirname(os.path.dirname(os.path.abspath(__file__))), "tables", "interval_reviewed.json")


def rng(r):
    return f"[{r[0]}, {r[1]}" + (")" if r[2] else "]")


def run(ctx, F):
    ctx.explanation = ("C31, structural clauses only (conversion round trips are numerical and not decided): inventory of every store to a colour channel field, "
                       "interval abstract interpretation of each writer proving the stored value inside the channel's range, and the fields read by the colour comparison impls")
    prog, tree = F.lib, F.ast
    # ---------------------------------------------------------------- (i) fields
    order = {}
    for sp, ranges in STRUCTS.items():
        st = tree.structs.get(sp)
        if not st:
            ctx.anchor_lost(f"struct {sp}", "not found")
            continue
        order[sp] = [f[0] for f in st["fields"]]
        for name, ty, vis in st["fields"]:
            if ty == "f64":
                key = f"{sp.rsplit('::', 1)[-1]}.{name} is private"
                if name not in ranges:
                    ctx.fail("F8-channel-private", key, f"f64 field `{name}` of {sp} has no range in the checker's table: a new channel needs its range stated", where=sp)
                elif vis.strip() == "":
                    ctx.ok("F8-channel-private", key, None)
                else:
                    ctx.fail("F8-channel-private", key, f"channel field `{name}` is `{vis}`: code outside the colour module can store an unchecked value", where=sp)
    # ---------------------------------------------------------------- (ii) stores
    A = interval.Analysis(prog, field_range=field_range)
    reviewed = {r["key"]: r["reason"] for r in json.load(open(REVIEWED))["reviewed"]}
    n_stores = 0
    ords = {}
    unproven = set()            # (struct path, field) with a store that is not proven in range
    for d in sorted(prog.bodies):
        b = prog.bodies[d]
        sites = []
        for bi, si, st in b.stmts():
            if st["k"] != "assign":
                continue
            rv = st["rv"]
            if rv["k"] == "agg" and rv.get("adt") in STRUCTS and rv.get("adt") in order:
                for i, op in enumerate(rv["ops"]):
                    fld = order[rv["adt"]][i] if i < len(order[rv["adt"]]) else None
                    if fld in STRUCTS[rv["adt"]]:
                        sites.append((bi, si, rv["adt"], fld, op))
            proj = st["p"][1]
            if proj and proj[-1].startswith("."):
                base_ty = re.sub(r"^&(mut )?", "", b.raw["locals"][st["p"][0]]["ty"]).strip()
                if base_ty in STRUCTS and [x for x in proj if x != "*"] == [proj[-1]] and proj[-1][1:] in STRUCTS[base_ty] and rv["k"] == "use":
                    sites.append((bi, si, base_ty, proj[-1][1:], rv["ops"][0]))
                elif base_ty in STRUCTS and proj[-1][1:] in STRUCTS.get(base_ty, {}):
                    sites.append((bi, si, base_ty, proj[-1][1:], None))
        if not sites:
            continue
        got = {}

        def observe(bi, si, st, ev, got=got, sites=sites):
            for s in sites:
                if s[0] == bi and s[1] == si:
                    got[(bi, si, s[3])] = ev(s[4]) if s[4] is not None else interval.Iv()
        ret = A.run(b, observe=observe)
        for bi, si, sp, fld, op in sites:
            n_stores += 1
            r = STRUCTS[sp][fld]
            base = f"{sp.rsplit('::', 1)[-1]}.{fld} in {rng(r)}|stored by {fn_key(d, prog)}"
            n = ords.get(base, 0)
            ords[base] = n + 1
            key = base if n == 0 else f"{base}#{n}"
            iv = got.get((bi, si, fld))
            if iv is None:
                ctx.fail("F4-bounded-store", key, f"the writer could not be interpreted (loop or unreachable store): no bound proved for the value stored in {fld}", where=b.where(bi))
            elif iv.within(float(r[0]), float(r[1]), hi_open=r[2]):
                ctx.ok("F4-bounded-store", key, f"value in {iv.show()}")
            elif key in reviewed:
                ctx.reviewed("F4-bounded-store", key, reviewed[key])
            else:
                unproven.add((sp, fld))
                ctx.fail("F4-bounded-store", key, f"the value stored in `{fld}` is only known to lie in {iv.show()}, the channel's range is {rng(r)}", where=b.where(bi))
    ctx.floor("stores to colour channel fields", n_stores, 39)
    ctx.units["interval_functions_interpreted"] = len(set(A.analysed))
    ctx.units["interval_axioms_used"] = sorted(A.axioms_used)
    # ---------------------------------------------------------------- (iii) comparisons ignore notation
    n_cmp = 0
    for sp in STRUCTS:
        st = tree.structs.get(sp)
        if not st:
            continue
        meta = [f[0] for f in st["fields"] if f[1] != "f64"]
        short = sp.rsplit("::", 1)[-1]
        for tr, meth in (("std::cmp::PartialEq", "eq"), ("std::cmp::PartialOrd", "partial_cmp"), ("std::cmp::Ord", "cmp"), ("std::hash::Hash", "hash")):
            root = f"<{sp} as {tr}>::{meth}"
            fam = [bb for dd, bb in prog.bodies.items() if dd == root or dd.startswith(root + "::")]
            if not fam:
                continue
            n_cmp += 1
            read = set()
            for bb in fam:
                txt = repr(bb.blocks)
                for m in meta:
                    if re.search(r"'\.%s'" % re.escape(m), txt):
                        read.add(m)
            key = f"{short} as {tr.rsplit('::', 1)[-1]}::{meth} reads channels only"
            if not read:
                ctx.ok("F8-compare-ignores-notation", key, None)
            else:
                ctx.fail("F8-compare-ignores-notation", key, f"`{short}::{meth}` reads the notation field(s) {sorted(read)}: two colours with the same channels created through different notations compare unequal", where=fam[0].where())
    ctx.floor("colour comparison impls inspected", n_cmp, 6)

    # ---------------------------------------------------------------- (iv) ordering table of max_min_largest
    from lib import rankeval
    fs = [f for f in tree.fn_list if f["path"].endswith("colors::convert::max_min_largest")]
    if len(fs) != 1:
        ctx.anchor_lost("convert::max_min_largest", f"found {len(fs)}")
    else:
        import itertools
        bad = []
        n_ord = 0
        try:
            for a, b, c in itertools.product((0, 1, 2), repeat=3):
                n_ord += 1
                r = rankeval.run(fs[0], [a, b, c])
                if not (isinstance(r, tuple) and len(r) == 3):
                    raise rankeval.Unknown("result is not a triple")
                mx, mn, li = r
                li = li[1] if isinstance(li, tuple) and li[0] == "lit" else li
                if mx != max(a, b, c) or mn != min(a, b, c) or li not in (0, 1, 2) or (a, b, c)[li] != max(a, b, c):
                    bad.append(((a, b, c), r))
        except rankeval.Unknown as e:
            ctx.anchor_lost("convert::max_min_largest", f"not a comparison-only function any more ({e})")
            bad = None
        if bad is not None:
            key = "max_min_largest returns (max, min, index of a maximal channel) for every ordering"
            if not bad:
                ctx.ok("F5-ordering-table", key, f"{n_ord} rank assignments")
            else:
                def shape(t):
                    a, b, c = t
                    names = sorted(zip((a, b, c), "abc"), reverse=True)
                    out = names[0][1]
                    for (r0, _), (r1, n1) in zip(names, names[1:]):
                        out += (" = " if r0 == r1 else " > ") + n1
                    return out
                shapes = sorted({shape(t) for t, _ in bad})
                ctx.fail("F5-ordering-table", key, f"for the orderings {shapes} max_min_largest(a, b, c) does not return the largest / smallest argument (e.g. ranks {bad[0][0]} -> {bad[0][1]}): the hsl form of such an rgb colour gets the wrong lightness", where=fs[0]["path"])

    # ---------------------------------------------------------------- (v) reporters
    from lib import sym
    from rules.C34 import registry
    S = sym.Sym(prog, inline_depth=0)
    reg = registry(prog, S)
    impl = {}
    for (kind, mod, name), impls in reg.items():
        if mod == "color" and kind == "module":
            im = [i for i in impls if i]
            if len(im) == 1:
                impl[name] = im[0]

    def established(ty, field):
        ty2 = re.sub(r"^&(mut )?", "", ty).strip()
        if (ty2, field) in unproven:
            return None
        return field_range(ty, field)
    REPORT = {"hue": (0, 360, True), "red": (0, 255, False), "green": (0, 255, False), "blue": (0, 255, False), "alpha": (0, 1, False), "opacity": (0, 1, False)}
    n_rep = 0
    for name, r in sorted(REPORT.items()):
        if name not in impl:
            ctx.anchor_lost(f"sass:color.{name}", "no registered implementation")
            continue
        root = prog.bodies[impl[name]]
        A2 = interval.Analysis(prog, field_range=established, max_depth=4)
        seen = []

        def hook(body, bi, t, ev, seen=seen, root=root):
            if body is not root:
                return
            # a sink is any call that turns an f64 into something that is not an f64 / bool (Numeric::new,
            # Value::scalar, percentage, or a helper of the same kind)
            tys = t.get("arg_tys") or []
            if t["args"] and tys and tys[0] == "f64" and str(t.get("dest_ty")) not in ("f64", "bool", "std::cmp::Ordering", "std::option::Option<std::cmp::Ordering>"):
                seen.append((bi, ev(t["args"][0])))
        A2.call_hook = hook
        A2.run(root)
        key = f"sass:color.{name} reports a value in {rng(r)}"
        if not seen:
            ctx.anchor_lost(key, "no number construction found in the reporter")
            continue
        n_rep += 1
        bad = [(bi, iv) for bi, iv in seen if not iv.within(float(r[0]), float(r[1]), hi_open=r[2])]
        if not bad:
            ctx.ok("F4-reported-channel", key, "; ".join(iv.show() for _, iv in seen))
        else:
            ctx.fail("F4-reported-channel", key, f"color.{name} returns a number built from a value only known to lie in {bad[0][1].show()}: it reads a channel whose stores are not proven in range (or computes it unclamped)", where=root.where(bad[0][0]))
    ctx.floor("channel reporters interpreted", n_rep, 6)
    ctx.note("reporters of saturation, lightness, whiteness and blackness are not checked: the stores of those fields are known findings (Hsla::new, Hwba::new)")
    # ---------------------------------------------------------------- (vi) field-wise comparison only on canonical representations
    cmp_fam = [bb for dd, bb in prog.bodies.items() if dd.startswith("<value::colors::Color as std::cmp::Ord>::cmp") or dd.startswith("<value::colors::Color as std::cmp::PartialEq>::eq") or dd.startswith("<value::colors::Color as std::cmp::PartialOrd>::partial_cmp")]
    if not cmp_fam:
        ctx.anchor_lost("Color comparison impls", "not found")
    n_fw = 0
    for bb in cmp_fam:
        for bi, t in bb.calls():
            cn = mir.callee_name(t) or ""
            m = re.match(r"^<(value::colors::\w+::(Rgba|Hsla|Hwba)) as std::cmp::(PartialOrd|Ord|PartialEq)>::(partial_cmp|cmp|eq|ne|lt|le|gt|ge)$", cn)
            if not m:
                continue
            n_fw += 1
            sp = m.group(1)
            key = f"Color comparison|field-wise {m.group(2)} comparison needs a canonical {m.group(2)}"
            hue_unproven = (sp, "hue") in unproven
            if hue_unproven:
                ctx.fail("F9-compare-canonical", key, f"{mir.short(bb.def_)} compares two {m.group(2)} values field by field, but the hue stored in a {m.group(2)} is not proven to be normalised: the same colour stored with hue h and h + 360 compares unequal", where=bb.where(bi))
            else:
                ctx.ok("F9-compare-canonical", key, None)
    ctx.floor("field-wise comparisons reached from Color's comparison", n_fw, 1)
