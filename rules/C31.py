"""C31 (partial) — channel stores are bounded, comparison ignores the notation.

The conversion round trips (rebuilding a colour from its own rgb / hsl / hwb channels gives an equal
colour) are floating-point arithmetic and NOT decided.  Decided, from the MIR of the whole crate:

 (i)   who may write: the channel fields of Rgba / Hsla / Hwba are private, so every writer is a body
       of the crate and is in the inventory below (struct literals and field assignments);
 (ii)  bounded stores: for every such store, an interval analysis of the writing function (lib/interval:
       forward abstract interpretation over the MIR, branch refinement on is_sign_negative / comparisons,
       crate-local callees interpreted with the argument intervals, reads of a channel field assumed in
       its range — the inductive invariant) proves the stored value inside the range the statement gives
       for that channel: red/green/blue 0..=255, alpha 0..=1, hue [0, 360), saturation / lightness /
       whiteness / blackness 0..=1.  NaN is tracked but a NaN store is not a violation of a range;
 (iii) "two colours with the same rgba channels compare equal, whichever notation created them": the
       eq / partial_cmp / cmp bodies of the three structs read channel fields only, never the notation
       metadata (`source`, `hsla_format`).
"""
import json
import os
import re

from lib import interval, mir
from lib.keys import fn_key

STRUCTS = {
    "value::colors::rgba::Rgba": {"red": (0, 255, False), "green": (0, 255, False), "blue": (0, 255, False), "alpha": (0, 1, False)},
    "value::colors::hsla::Hsla": {"hue": (0, 360, True), "sat": (0, 1, False), "lum": (0, 1, False), "alpha": (0, 1, False)},
    "value::colors::hwba::Hwba": {"hue": (0, 360, True), "w": (0, 1, False), "b": (0, 1, False), "alpha": (0, 1, False)},
}


def field_range(ty, field):
    ty = re.sub(r"^&(mut )?", "", ty).strip()
    r = STRUCTS.get(ty, {}).get(field)
    if r is None:
        return None
    return interval.Iv(float(r[0]), float(r[1]), False, r[2], nan=True)


REVIEWED = os.path.join(os.path.dirname(os.path.dirname(os.path.abspath(__file__))), "tables", "interval_reviewed.json")


def rng(r):
    return f"[{r[0]}, {r[1]}" + (")" if r[2] else "]")


def run(ctx, F):
    ctx.explanation = ("C31, structural clauses only (conversion round trips are numerical and not decided): inventory of every store to a colour channel field, "
                       "interval abstract interpretation of each writer proving the stored value inside the channel's range, and the fields read by the colour comparison impls")
    prog, tree = F.lib, F.ast
    # ---------------------------------------------------------------- (i) fields
    order = {}
    for sp, ranges in STRUCTS.items():
        st = tree.structs.get(sp)
        if not st:
            ctx.anchor_lost(f"struct {sp}", "not found")
            continue
        order[sp] = [f[0] for f in st["fields"]]
        for name, ty, vis in st["fields"]:
            if ty == "f64":
                key = f"{sp.rsplit('::', 1)[-1]}.{name} is private"
                if name not in ranges:
                    ctx.fail("F8-channel-private", key, f"f64 field `{name}` of {sp} has no range in the checker's table: a new channel needs its range stated", where=sp)
                elif vis.strip() == "":
                    ctx.ok("F8-channel-private", key, None)
                else:
                    ctx.fail("F8-channel-private", key, f"channel field `{name}` is `{vis}`: code outside the colour module can store an unchecked value", where=sp)
    # ---------------------------------------------------------------- (ii) stores
    A = interval.Analysis(prog, field_range=field_range)
    reviewed = {r["key"]: r["reason"] for r in json.load(open(REVIEWED))["reviewed"]}
    n_stores = 0
    ords = {}
    for d in sorted(prog.bodies):
        b = prog.bodies[d]
        sites = []
        for bi, si, st in b.stmts():
            if st["k"] != "assign":
                continue
            rv = st["rv"]
            if rv["k"] == "agg" and rv.get("adt") in STRUCTS and rv.get("adt") in order:
                for i, op in enumerate(rv["ops"]):
                    fld = order[rv["adt"]][i] if i < len(order[rv["adt"]]) else None
                    if fld in STRUCTS[rv["adt"]]:
                        sites.append((bi, si, rv["adt"], fld, op))
            proj = st["p"][1]
            if proj and proj[-1].startswith("."):
                base_ty = re.sub(r"^&(mut )?", "", b.raw["locals"][st["p"][0]]["ty"]).strip()
                if base_ty in STRUCTS and [x for x in proj if x != "*"] == [proj[-1]] and proj[-1][1:] in STRUCTS[base_ty] and rv["k"] == "use":
                    sites.append((bi, si, base_ty, proj[-1][1:], rv["ops"][0]))
                elif base_ty in STRUCTS and proj[-1][1:] in STRUCTS.get(base_ty, {}):
                    sites.append((bi, si, base_ty, proj[-1][1:], None))
        if not sites:
            continue
        got = {}

        def observe(bi, si, st, ev, got=got, sites=sites):
            for s in sites:
                if s[0] == bi and s[1] == si:
                    got[(bi, si, s[3])] = ev(s[4]) if s[4] is not None else interval.Iv()
        ret = A.run(b, observe=observe)
        for bi, si, sp, fld, op in sites:
            n_stores += 1
            r = STRUCTS[sp][fld]
            base = f"{sp.rsplit('::', 1)[-1]}.{fld} in {rng(r)}|stored by {fn_key(d, prog)}"
            n = ords.get(base, 0)
            ords[base] = n + 1
            key = base if n == 0 else f"{base}#{n}"
            iv = got.get((bi, si, fld))
            if iv is None:
                ctx.fail("F4-bounded-store", key, f"the writer could not be interpreted (loop or unreachable store): no bound proved for the value stored in {fld}", where=b.where(bi))
            elif iv.within(float(r[0]), float(r[1]), hi_open=r[2]):
                ctx.ok("F4-bounded-store", key, f"value in {iv.show()}")
            elif key in reviewed:
                ctx.reviewed("F4-bounded-store", key, reviewed[key])
            else:
                ctx.fail("F4-bounded-store", key, f"the value stored in `{fld}` is only known to lie in {iv.show()}, the channel's range is {rng(r)}", where=b.where(bi))
    ctx.floor("stores to colour channel fields", n_stores, 39)
    ctx.units["interval_functions_interpreted"] = len(set(A.analysed))
    ctx.units["interval_axioms_used"] = sorted(A.axioms_used)
    # ---------------------------------------------------------------- (iii) comparisons ignore notation
    n_cmp = 0
    for sp in STRUCTS:
        st = tree.structs.get(sp)
        if not st:
            continue
        meta = [f[0] for f in st["fields"] if f[1] != "f64"]
        short = sp.rsplit("::", 1)[-1]
        for tr, meth in (("std::cmp::PartialEq", "eq"), ("std::cmp::PartialOrd", "partial_cmp"), ("std::cmp::Ord", "cmp"), ("std::hash::Hash", "hash")):
            root = f"<{sp} as {tr}>::{meth}"
            fam = [bb for dd, bb in prog.bodies.items() if dd == root or dd.startswith(root + "::")]
            if not fam:
                continue
            n_cmp += 1
            read = set()
            for bb in fam:
                txt = repr(bb.blocks)
                for m in meta:
                    if re.search(r"'\.%s'" % re.escape(m), txt):
                        read.add(m)
            key = f"{short} as {tr.rsplit('::', 1)[-1]}::{meth} reads channels only"
            if not read:
                ctx.ok("F8-compare-ignores-notation", key, None)
            else:
                ctx.fail("F8-compare-ignores-notation", key, f"`{short}::{meth}` reads the notation field(s) {sorted(read)}: two colours with the same channels created through different notations compare unequal", where=fam[0].where())
    ctx.floor("colour comparison impls inspected", n_cmp, 6)
