"""C13 — map keys follow `==`; map equality ignores order (structural clauses).

 (i)   OrderMap (the store of css::Value::Map) touches keys only through PartialEq::eq:
       every inherent method is in the reviewed inventory with the operations it may use;
       the lookup methods compare with `==` and scan the whole vector; no Ord / Hash / sort /
       dedup / binary search on keys; a new method is unreviewed;
 (ii)  the map-literal arm of sass::Value::do_evaluate turns a Some(..) returned by
       OrderMap::insert into an error ("Duplicate key.");
 (iii) OrderMap's PartialEq is not the derived positional comparison.
"""
import re

from lib.keys import fn_key
from lib import mir, errflow, cfgutil, ast as A

# method -> reason / allowed "positional" use
INVENTORY = {
    "new": "constructor", "singleton": "constructor", "insert": "scan with ==, replace or push", "iter": "iteration in insertion order",
    "keys": "iteration", "values": "iteration", "get": "scan with ==", "get_mut": "scan with ==", "remove": "scan with ==, remove the found index",
    "contains_key": "scan with ==", "len": "size", "is_empty": "size", "get_item": "documented positional access (nth of a map)",
    "set_item": "documented positional access", "default": "constructor", "into_iter": "iteration", "from_iter": "collect pairs as given",
}
LOOKUPS = ("insert", "get", "get_mut", "remove", "contains_key")
FORBIDDEN = re.compile(r"std::cmp::(Ord|PartialOrd)::|std::hash::Hash::|::(sort|sort_by|sort_unstable|sort_by_key|dedup|dedup_by|dedup_by_key|binary_search|binary_search_by|retain|retain_mut|swap_remove|reverse|rotate_left|rotate_right)$")


def run(ctx, F):
    prog = F.lib
    tree = F.ast
    # ---------------------------------------------------------------- (i) inventory
    methods = {}
    for d, b in prog.bodies.items():
        st = b.raw.get("self_ty") or ""
        if st.startswith("ordermap::OrderMap<") and b.kind == "AssocFn":
            if b.raw.get("trait") and b.def_.rsplit("::", 1)[-1] not in INVENTORY:
                continue   # derived trait impls (Clone, Debug, PartialEq, ...) are judged under (iii)
            methods[d] = b
    ctx.floor("OrderMap methods", len(methods), 14)
    for d, b in sorted(methods.items()):
        name = d.rsplit("::", 1)[-1]
        if name not in INVENTORY:
            ctx.fail("F8-ordermap-inventory", f"OrderMap::{name}", f"OrderMap::{name} is not in the reviewed inventory of map-store operations: how it finds keys (must be `==` over all entries) has not been reviewed", where=b.where())
            continue
        bodies = [b] + [c for c in prog.bodies.values() if (c.raw.get("parent") or "").startswith(d)]
        bad = []
        eqs = 0
        for bb in bodies:
            for bi, t in bb.calls():
                for nm in (mir.callee_name(t) or "", mir.callee_orig(t) or ""):
                    if FORBIDDEN.search(nm):
                        bad.append(nm)
                if (mir.callee_orig(t) or "") in ("std::cmp::PartialEq::eq", "std::cmp::PartialEq::ne"):
                    eqs += 1
        if bad:
            ctx.fail("F8-ordermap-inventory", f"OrderMap::{name}|ops", f"OrderMap::{name} uses {sorted(set(bad))}: keys must be matched with `==` only, in insertion order", where=b.where())
        elif name in LOOKUPS and eqs < 1:
            ctx.fail("F8-ordermap-inventory", f"OrderMap::{name}|==", f"OrderMap::{name} no longer compares keys with PartialEq::eq", where=b.where())
        else:
            ctx.ok("F8-ordermap-inventory", f"OrderMap::{name}", {"role": INVENTORY[name], "eq_calls": eqs} if name in LOOKUPS else None)
    # callers outside ordermap.rs that reach into the vector directly are impossible (field is private)
    om = [s for p, s in tree.structs.items() if p.endswith("ordermap::OrderMap")]
    if len(om) == 1 and all((f[2] or "") == "" for f in om[0]["fields"]):
        ctx.ok("F8-ordermap-inventory", "OrderMap storage is private", None)
    else:
        ctx.fail("F8-ordermap-inventory", "OrderMap storage is private", "the vector inside OrderMap is visible outside the module: keys could be manipulated without `==`")
    # ---------------------------------------------------------------- (ii) duplicate keys in literals
    ev0 = prog.one("<sass::value::Value>::do_evaluate")
    ev = ev0
    ins = [(bi, t) for bi, t in ev.calls() if (mir.callee_name(t) or "").endswith("OrderMap<K, V>>::insert")]
    if not ins:
        # the map arm may have been moved into a helper of the same impl: follow one level
        for bi, t in ev0.calls():
            d = mir.callee_name(t)
            if d in prog.bodies and d.startswith("<sass::value::Value>::") and d != ev0.def_:
                hb = prog.bodies[d]
                hins = [(b2, t2) for b2, t2 in hb.calls() if (mir.callee_name(t2) or "").endswith("OrderMap<K, V>>::insert")]
                if hins:
                    ev, ins = hb, hins
    collected = [(bi, t) for bi, t in ev0.calls() if "OrderMap<" in " ".join(t["callee"].get("gargs", []) or []) + (mir.callee_name(t) or "")
                 and ((mir.callee_orig(t) or "").endswith("Iterator::collect") or (mir.callee_orig(t) or "").endswith("FromIterator::from_iter") or (mir.callee_orig(t) or "").endswith("Extend::extend"))]
    if not ins and collected:
        ctx.fail("F2-duplicate-key", "map literal: insert() returning Some is an error", "the map literal is built by collecting its pairs into an OrderMap (from_iter / collect does not compare keys): the pairwise `==` test of OrderMap::insert "
                 "is gone, so whether two equal keys are noticed depends on an ad-hoc test before the collection", where=ev0.where(collected[0][0]))
    elif len(ins) != 1:
        ctx.anchor_lost("do_evaluate map literal insert", f"expected one OrderMap::insert in sass::Value::do_evaluate, found {len(ins)}")
    else:
        bi, t = ins[0]
        dest = t["dest"][0]
        # the Option must be tested (is_some / match) and the Some edge must produce an Err
        tested = None
        for b2, t2 in ev.calls():
            if (mir.callee_name(t2) or "").endswith("Option<T>>::is_some") or (mir.callee_name(t2) or "").endswith("Option<T>>::is_none"):
                a = t2["args"][0]
                if a["k"] in ("copy", "move") and _derives(ev, a["p"][0], dest):
                    tested = (b2, t2)
        err_ok = False
        if tested:
            b2, t2 = tested
            sw = ev.blocks[t2["target"]]["term"]
            if sw["k"] == "switch":
                is_some = (mir.callee_name(t2) or "").endswith("is_some")
                false_t = [tg for v, tg, _ in sw["targets"] if v == "0"]
                true_t = sw["otherwise"]
                dup_edge = true_t if is_some else (false_t[0] if false_t else None)
                if dup_edge is not None and not cfgutil.paths_to_return_avoiding(ev, dup_edge, set()):
                    err_ok = True
        else:
            for b2, blk in enumerate(ev.blocks):
                sw = blk["term"]
                if sw["k"] == "switch" and sw.get("discr_of") and sw["discr_of"][0] == dest:
                    names = {n: tg for _, tg, n in sw["targets"]}
                    dup_edge = names.get("Some", sw["otherwise"] if "None" in names else None)
                    if dup_edge is not None and not cfgutil.paths_to_return_avoiding(ev, dup_edge, set()):
                        err_ok = True
        if err_ok:
            ctx.ok("F2-duplicate-key", "map literal: insert() returning Some is an error", None)
        else:
            ctx.fail("F2-duplicate-key", "map literal: insert() returning Some is an error", "the Option returned by OrderMap::insert in the map-literal arm does not lead to an error on the Some edge: a literal with two `==` keys would be accepted", where=ev.where(bi))
    # ---------------------------------------------------------------- (ii') the map functions find keys only through OrderMap
    ALT = re.compile(r"std::collections::(HashMap|HashSet|BTreeMap|BTreeSet|hash_map|hash_set|btree_map|btree_set)|::binary_search|::sort(_by|_unstable|_by_key|_by_cached_key)?$|::dedup(_by|_by_key)?$|std::hash::Hash>::hash")
    n_mf = 0
    for d, b in sorted(prog.bodies.items()):
        if not d.lstrip("<&").startswith("sass::functions::map::"):
            continue
        if d.rsplit("::", 1)[-1] in ("expose", "create_module"):
            continue          # the registration code (function tables keyed by name), not a map function
        n_mf += 1
        hits = sorted({mir.short(mir.callee_name(t) or "") for bi, t in b.calls() if ALT.search(mir.callee_name(t) or "") or any(ALT.search(g or "") for g in (t["callee"].get("gargs") or []))})
        hits += sorted({l["ty"][:60] for l in b.locals if re.search(r"std::collections::(HashMap|HashSet|BTreeMap|BTreeSet)<", l["ty"]) and "OrderMap" not in l["ty"]})
        if hits:
            ctx.fail("F8-map-functions-use-eq", f"{fn_key(d, prog)}|{hits[0][:60]}", f"{mir.short(d)} looks map keys up through {hits[:3]} (hashing / ordering / a rendered form of the key) instead of OrderMap's `==`: keys that are equal but written differently (1in / 96px, \"a\" / a) are treated as different", where=b.where())
    if n_mf:
        ctx.ok("F8-map-functions-use-eq", "sass::functions::map uses only OrderMap lookups", {"bodies": n_mf})
    ctx.floor("bodies of the map function module", n_mf, 10)
    # ---------------------------------------------------------------- (iii) equality of maps
    derived = None
    hand = None
    for im in prog.impls:
        if im["trait"] == "std::cmp::PartialEq" and im["self_ty"].startswith("ordermap::OrderMap<"):
            derived = im["derived"]
    if derived is None:
        ctx.anchor_lost("PartialEq for OrderMap", "no PartialEq impl found")
    elif derived:
        ctx.fail("F5-map-eq-order", "OrderMap == is the derived positional comparison",
                 "OrderMap derives PartialEq over its Vec<(K, V)>: two maps with the same entries in a different order compare unequal")
    else:
        f = [x for x in tree.fn_list if x.get("_impl") and x["sig"]["name"] == "eq" and x["_impl"]["self_ty"].startswith("OrderMap")]
        txt = A.show(f[0]["body"]).replace(" ", "") if f else ""
        if "self.0==other.0" in txt or "other.0==self.0" in txt:
            ctx.fail("F5-map-eq-order", "OrderMap == is positional", "the hand-written OrderMap::eq still compares the vectors positionally")
        else:
            ctx.ok("F5-map-eq-order", "OrderMap == is not positional", {"body": txt[:160]})
    ctx.explanation = ("Inventory of the OrderMap API over MIR (resolved callees per method and closure): only PartialEq::eq on keys, no Ord/Hash/sort/dedup/retain, unreviewed methods fail closed; "
                       "must-use of insert()'s Option in the map-literal arm (Some edge cannot reach a normal return); derived-vs-hand-written PartialEq of OrderMap. "
                       "The algebra of map.merge/set/remove over arbitrary maps is a runtime relation and is not claimed.")


def _derives(body, local, src):
    seen, work = set(), [local]
    while work:
        l = work.pop()
        if l == src:
            return True
        if l in seen:
            continue
        seen.add(l)
        for d in body.defs().get(l, []):
            if d[0] == "stmt":
                rv = d[3]["rv"]
                if rv["k"] in ("ref",):
                    work.append(rv["p"][0])
                for o in rv.get("ops", []) or []:
                    if o["k"] in ("copy", "move"):
                        work.append(o["p"][0])
    return False
