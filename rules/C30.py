"""C30 (partial) — structure of calc() simplification.

That the simplified number is the right one is arithmetic (C11 decides the unit tables and routing of
the shared operator implementation) and is NOT decided here.  Decided, on the MIR of the calculation
evaluator (the `do_eval` of the global calc function):

 (i)   a binary operation inside a calculation is simplified by the SAME function SassScript arithmetic
       uses — `Operator::eval(op, a, b)` with the node's own operator and its two evaluated operands in
       order (left, right);
 (ii)  when that gives no value, the node that is emitted is `BinOp::new(a, .., op, .., b)` with the same
       operator and the same two evaluated operands in the same order: a calculation that cannot be
       simplified keeps its operands and operator structure, it never becomes a different number;
 (iii) the structure survives printing: the writer of an unevaluated binary node
       (`Display for Formatted<BinOp>`) puts an operand that is itself a binary node in parentheses
       exactly when arithmetic needs them.  The writer's parenthesisation guards for the left and for the
       right operand are evaluated statically (lib/guardeval, a finite evaluation of the guard's AST over
       the operator enum) for all 16 pairs of `+ - * /` and compared with the table arithmetic dictates:
       left: a `+`/`-` node under `*`/`/`; right: a `+`/`-` node under `*`/`/`, any `+`/`-` node under
       `-`, any `*`/`/` node under `/`.  (A redundant pair of parentheses is not a violation; a missing
       one changes the value of the calculation.)
 (iv)  the operator is never dropped: the writer prints a `+` node whose operand is "join-like" as a
       concatenation without operator.  A binary node may count as join-like only if its own operator is
       `+`: the method that answers this for a `BinOp` (reached from the `BinOp(x) => x.…()` arm of the
       value-level test) is evaluated three-valued with `self.op` set to every other operator and unknown
       operands and must be definitely false — otherwise `1px + foo * 2` is written `1pxfoo * 2`.
"""
from lib import mir, sym


def run(ctx, F):
    ctx.explanation = ("C30, structural clauses only (the arithmetic itself is C11's tables and is not decided here): the calculation evaluator simplifies a binary node through "
                       "Operator::eval with the node's operator and operands in order, and otherwise rebuilds the node from the same operator and operands (MIR, symbolic provenance)")
    prog = F.lib
    S = sym.Sym(prog, inline_depth=0)
    paren_tables(ctx, F)
    join_only_plus(ctx, F)
    cands = [b for d, b in prog.bodies.items() if d.startswith("sass::functions::math::css::") and d.endswith("::do_eval")]
    if len(cands) != 1:
        ctx.anchor_lost("calculation evaluator (math::css::..::do_eval)", f"found {len(cands)}")
        return
    b = cands[0]

    def T(op):
        return sym.strip_transparent(S.operand(b, op))

    def role(t):
        """'a' / 'b' / 'op' when the term is the evaluated left / right operand or the operator of the BinOp node"""
        r = repr(t)
        if "BinOp>::op" in r and "do_eval" not in r:
            return "op"
        if "do_eval" in r and "BinOp>::a" in r and "BinOp>::b" not in r:
            return "a"
        if "do_eval" in r and "BinOp>::b" in r and "BinOp>::a" not in r:
            return "b"
        return "?"
    evals = [(bi, t) for bi, t in b.calls() if (mir.callee_name(t) or "").endswith("value::operator::Operator>::eval")]
    news = [(bi, t) for bi, t in b.calls() if (mir.callee_name(t) or "").endswith("css::binop::BinOp>::new")]
    ctx.floor("Operator::eval calls in the calculation evaluator", len(evals), 1)
    ctx.floor("BinOp::new calls in the calculation evaluator", len(news), 1)
    for n, (bi, t) in enumerate(evals):
        roles = [role(T(a)) for a in t["args"]]
        key = f"calc|simplify#{n} = Operator::eval(op, a, b)"
        if roles == ["op", "a", "b"]:
            ctx.ok("F4-calc-simplify", key, None)
        else:
            ctx.fail("F4-calc-simplify", key, f"the calculation evaluator calls Operator::eval with ({', '.join(roles)}) instead of (op, left, right) of the node: the simplified number is not the one Sass arithmetic gives", where=b.where(bi))
    for n, (bi, t) in enumerate(news):
        roles = [role(T(a)) for a in t["args"]]
        key = f"calc|fallback#{n} = BinOp::new(a, _, op, _, b)"
        if len(roles) == 5 and roles[0] == "a" and roles[2] == "op" and roles[4] == "b":
            ctx.ok("F4-calc-fallback", key, None)
        else:
            ctx.fail("F4-calc-fallback", key, f"the unsimplified node is rebuilt from ({', '.join(roles)}): expected the same left operand, operator and right operand as the evaluated node", where=b.where(bi))
    if not evals and not news:
        return


ARITH = ("Plus", "Minus", "Multiply", "Div")


def needs_paren(side, op, inner):
    add = ("Plus", "Minus")
    if inner in add and op not in add:
        return True
    if side == "right":
        if op == "Minus" and inner in add:
            return True
        if op == "Div" and inner not in add:
            return True
    return False


def join_only_plus(ctx, F):
    """(iv)"""
    from lib import ast as A, guardeval
    tree = F.ast
    try:
        ev = guardeval.Eval(tree, "value::operator::Operator")
    except guardeval.Unknown as e:
        ctx.anchor_lost("Operator enum", str(e))
        return
    # the value-level test: a function whose match has an arm `..::BinOp(x) => x.<m>()`
    meths = set()
    for f in tree.fn_list:
        if not f["path"].startswith("css::"):
            continue
        for n in A.walk(f["body"]):
            if n.get("e") != "match":
                continue
            arms = n["arms"]
            if not any(A.showpat(a["pat"]).replace(" ", "").endswith("True|Self::False") or "::True" in A.showpat(a["pat"]) for a in arms):
                continue
            for a in arms:
                p_ = a["pat"]
                if p_.get("p") == "tstruct" and p_["v"].endswith("BinOp") and len(p_["xs"]) == 1 and p_["xs"][0].get("p") == "bind":
                    b = A.strip(a["body"])
                    if b.get("e") == "mcall" and A.show(b["recv"]).strip() == p_["xs"][0]["n"] and not b["args"]:
                        meths.add(b["m"])
    if len(meths) != 1:
        ctx.anchor_lost("join-like test of a nested BinOp", f"methods found: {sorted(meths)}")
        return
    m = next(iter(meths))
    fs = [f for f in tree.fn_list if f["path"].startswith("css::binop::") and f["path"].endswith(f"<BinOp>::{m}")]
    if len(fs) != 1:
        ctx.anchor_lost(f"BinOp::{m}", f"found {len(fs)}")
        return
    f = fs[0]
    bad = []
    for op in ev.variants:
        if op == "Plus":
            continue
        v = ev.run3(f["body"], {"self.op": ("V", op), "__module__": "css::binop"})
        if v is not False:
            bad.append(op)
    key = f"BinOp::{m}: only a `+` node is join-like"
    if not bad:
        ctx.ok("F5-join-only-plus", key, f"{len(ev.variants) - 1} other operators evaluated: definitely false")
    else:
        ctx.fail("F5-join-only-plus", key, f"BinOp::{m} is not definitely false for the operators {bad[:6]}: a `+` whose operand is such a node with an identifier leaf is written as a concatenation, dropping the `+` (e.g. `1px + foo * 2` -> `1pxfoo * 2`)", where=f["path"])


def paren_tables(ctx, F):
    """(iii) decision tables of the BinOp writer"""
    from lib import ast as A, guardeval
    tree = F.ast
    fs = [f for f in tree.fn_list if f["path"].startswith("css::binop::") and "Display" in f["path"] and f["path"].endswith("::fmt") and "BinOp" in f["path"]]
    if len(fs) != 1:
        ctx.anchor_lost("Display for Formatted<BinOp>", f"found {len(fs)}")
        return
    f = fs[0]
    try:
        ev = guardeval.Eval(tree, "value::operator::Operator")
    except guardeval.Unknown as e:
        ctx.anchor_lost("Operator enum", str(e))
        return
    module = f["path"].split("::<")[0]

    def wraps(x):
        for n in A.walk(x):
            if n.get("e") == "lit" and n.get("t") in ("char", "str") and n.get("v") == "(":
                return True
            if n.get("e") == "call" and A.strip(n["f"]).get("e") == "path" and A.strip(n["f"])["p"].endswith("Paren"):
                return True
        return False

    found = {}
    for side, fld in (("left", "a"), ("right", "b")):
        for n in A.walk(f["body"]):
            if n.get("e") != "match":
                continue
            on = A.strip(n["on"])
            on_txt = A.show(on).replace(" ", "").replace("&", "")
            elems = [A.show(y).replace(" ", "").replace("&", "") for y in on["xs"]] if on.get("e") == "tuple" else [on_txt]
            if not any(e_ == f"self.value.{fld}" for e_ in elems):
                continue
            pos = [i for i, e_ in enumerate(elems) if e_ == f"self.value.{fld}"][0]
            oppos = [i for i, e_ in enumerate(elems) if e_ == "self.value.op"]
            for arm in n["arms"]:
                pat = arm["pat"]
                sub = pat["xs"][pos] if pat.get("p") == "tuple" and on.get("e") == "tuple" else pat
                if not (sub.get("p") == "tstruct" and sub["v"].endswith("BinOp") and len(sub["xs"]) == 1 and sub["xs"][0].get("p") == "bind"):
                    continue
                inner = sub["xs"][0]["n"]
                opname = "op"
                if oppos and pat.get("p") == "tuple" and pat["xs"][oppos[0]].get("p") == "bind":
                    opname = pat["xs"][oppos[0]]["n"]
                found[side] = (arm, inner, opname, wraps(arm["body"]))
                break
            if side in found:
                break
    for side in ("left", "right"):
        table = {}
        err = None
        for op in ARITH:
            for inner in ARITH:
                if side not in found or not found[side][3]:
                    table[(op, inner)] = False
                    continue
                arm, iv, opname, _ = found[side]
                env = {opname: ("V", op), "op": ("V", op), f"{iv}.op": ("V", inner), "__module__": module}
                try:
                    table[(op, inner)] = True if arm.get("guard") is None else bool(ev.run(arm["guard"], env))
                except guardeval.Unknown as e:
                    err = str(e)
        if err:
            ctx.anchor_lost(f"BinOp writer|{side} operand guard", f"the parenthesisation guard could not be evaluated statically: {err}")
            continue
        for op in ARITH:
            for inner in ARITH:
                want = needs_paren(side, op, inner)
                got = table[(op, inner)]
                sym_ = {"Plus": "+", "Minus": "-", "Multiply": "*", "Div": "/"}
                shape = f"(x {sym_[inner]} y) {sym_[op]} z" if side == "left" else f"x {sym_[op]} (y {sym_[inner]} z)"
                key = f"BinOp writer|{side} operand {inner} under {op}"
                if got or not want:
                    ctx.ok("F5-calc-parentheses", key, None)
                else:
                    ctx.fail("F5-calc-parentheses", key, f"an unevaluated `{shape}` is written without the parentheses: the emitted calculation has a different operator structure (and value)", where=f["path"])
