"""C30 (partial) — structure of calc() simplification.

That the simplified number is the right one is arithmetic (C11 decides the unit tables and routing of
the shared operator implementation) and is NOT decided here.  Decided, on the MIR of the calculation
evaluator (the `do_eval` of the global calc function):

 (i)   a binary operation inside a calculation is simplified by the SAME function SassScript arithmetic
       uses — `Operator::eval(op, a, b)` with the node's own operator and its two evaluated operands in
       order (left, right);
 (ii)  when that gives no value, the node that is emitted is `BinOp::new(a, .., op, .., b)` with the same
       operator and the same two evaluated operands in the same order: a calculation that cannot be
       simplified keeps its operands and operator structure, it never becomes a different number.
"""
from lib import mir, sym


def run(ctx, F):
    ctx.explanation = ("C30, structural clauses only (the arithmetic itself is C11's tables and is not decided here): the calculation evaluator simplifies a binary node through "
                       "Operator::eval with the node's operator and operands in order, and otherwise rebuilds the node from the same operator and operands (MIR, symbolic provenance)")
    prog = F.lib
    S = sym.Sym(prog, inline_depth=0)
    cands = [b for d, b in prog.bodies.items() if d.startswith("sass::functions::math::css::") and d.endswith("::do_eval")]
    if len(cands) != 1:
        ctx.anchor_lost("calculation evaluator (math::css::..::do_eval)", f"found {len(cands)}")
        return
    b = cands[0]

    def T(op):
        return sym.strip_transparent(S.operand(b, op))

    def role(t):
        """'a' / 'b' / 'op' when the term is the evaluated left / right operand or the operator of the BinOp node"""
        r = repr(t)
        if "BinOp>::op" in r and "do_eval" not in r:
            return "op"
        if "do_eval" in r and "BinOp>::a" in r and "BinOp>::b" not in r:
            return "a"
        if "do_eval" in r and "BinOp>::b" in r and "BinOp>::a" not in r:
            return "b"
        return "?"
    evals = [(bi, t) for bi, t in b.calls() if (mir.callee_name(t) or "").endswith("value::operator::Operator>::eval")]
    news = [(bi, t) for bi, t in b.calls() if (mir.callee_name(t) or "").endswith("css::binop::BinOp>::new")]
    ctx.floor("Operator::eval calls in the calculation evaluator", len(evals), 1)
    ctx.floor("BinOp::new calls in the calculation evaluator", len(news), 1)
    for n, (bi, t) in enumerate(evals):
        roles = [role(T(a)) for a in t["args"]]
        key = f"calc|simplify#{n} = Operator::eval(op, a, b)"
        if roles == ["op", "a", "b"]:
            ctx.ok("F4-calc-simplify", key, None)
        else:
            ctx.fail("F4-calc-simplify", key, f"the calculation evaluator calls Operator::eval with ({', '.join(roles)}) instead of (op, left, right) of the node: the simplified number is not the one Sass arithmetic gives", where=b.where(bi))
    for n, (bi, t) in enumerate(news):
        roles = [role(T(a)) for a in t["args"]]
        key = f"calc|fallback#{n} = BinOp::new(a, _, op, _, b)"
        if len(roles) == 5 and roles[0] == "a" and roles[2] == "op" and roles[4] == "b":
            ctx.ok("F4-calc-fallback", key, None)
        else:
            ctx.fail("F4-calc-fallback", key, f"the unsimplified node is rebuilt from ({', '.join(roles)}): expected the same left operand, operator and right operand as the evaluated node", where=b.where(bi))
    if not evals and not news:
        return
