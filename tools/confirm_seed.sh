#!/bin/bash
# tools/confirm_seed.sh <tag>   -- confirm a sub-agent's seeded change in its scratch worktree:
# patch == worktree diff, suite passes with change, demo fails with change and passes without.
# Copies the artefacts to /verif/seeded/<tag>/ and removes the worktree.
set -u
tag=$1
wt=/tmp/seedwork/wt-$tag
out=/tmp/seedwork/out-$tag
log=/tmp/seedwork/confirm-$tag.log
exec > >(tee $log) 2>&1
cd $wt || exit 2
export CARGO_NET_OFFLINE=true
echo "== diff check"
git diff > /tmp/seedwork/diff-$tag.now
if ! diff -q /tmp/seedwork/diff-$tag.now $out/patch.diff >/dev/null; then
  echo "worktree diff differs from patch.diff; resetting worktree to patch"
  git checkout -- . && git clean -fdq -e target && git apply $out/patch.diff || { echo "PATCH DOES NOT APPLY"; exit 3; }
fi
git status --short | grep -v '^??' | head
echo "== suite with change"
cargo test --workspace --offline --no-fail-fast -j 8 -- --test-threads 8 > /tmp/seedwork/suite-$tag.log 2>&1
suite_rc=$?
grep -E "^test result|^error" /tmp/seedwork/suite-$tag.log | head -20
echo "suite_rc=$suite_rc"
echo "== demo with change"
cargo build --offline -p rsass-cli -p rsass 2>&1 | tail -1
if [ -f $out/demo.sh ]; then (cd $out && timeout 1200 bash ./demo.sh $wt) > /tmp/seedwork/demo-$tag-with.log 2>&1; with_rc=$?; else with_rc=missing; fi
echo "demo_with_rc=$with_rc"; tail -5 /tmp/seedwork/demo-$tag-with.log
echo "== demo without change"
git diff > /tmp/seedwork/stash-$tag.diff; git checkout -- .
cargo build --offline -p rsass-cli -p rsass 2>&1 | tail -1
if [ -f $out/demo.sh ]; then (cd $out && timeout 1200 bash ./demo.sh $wt) > /tmp/seedwork/demo-$tag-without.log 2>&1; without_rc=$?; else without_rc=missing; fi
git apply /tmp/seedwork/stash-$tag.diff
echo "demo_without_rc=$without_rc"; tail -5 /tmp/seedwork/demo-$tag-without.log
echo "RESULT tag=$tag suite_rc=$suite_rc demo_with=$with_rc demo_without=$without_rc"
