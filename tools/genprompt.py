#!/usr/bin/env python3
"""genprompt.py <tag> <prop> "<avoid hint>" -> /tmp/seedwork/prompt-<tag>.txt"""
import json, sys
tag, pid, avoid = sys.argv[1], sys.argv[2], sys.argv[3]
props = {json.loads(l)["id"]: json.loads(l) for l in open("/verif/properties.jsonl")}
p = props[pid]
t = open("/tmp/seedwork/template.txt").read()
q = p.get("quantifier")
q = q.get("text") if isinstance(q, dict) else q
t = t.replace("{tag}", tag).replace("{id}", pid).replace("{title}", p["title"]).replace("{statement}", p["statement"]).replace("{quant}", q or "")
if avoid:
    t = t.replace("Also write a demonstration:", avoid.strip() + "\n\nAlso write a demonstration:", 1)
t += "\nKeep every scratch file you create inside /tmp/seedwork/out-" + tag + "/ or your own worktree (other engineers share /tmp/seedwork).\n"
open(f"/tmp/seedwork/prompt-{tag}.txt", "w").write(t)
print("ok", tag)
