#!/usr/bin/env python3
"""Generate MANIFEST.json from tables/claims.json (the single source of what is claimed)."""
import json, os
V = os.path.dirname(os.path.dirname(os.path.abspath(__file__)))
claims = json.load(open(os.path.join(V, "tables/claims.json")))
props = [json.loads(l) for l in open(os.path.join(V, "properties.jsonl"))]
checks, na = [], []
for p in props:
    pid = p["id"]
    c = claims.get(pid)
    if c and c.get("claimed") and os.path.exists(os.path.join(V, "rules", pid + ".py")):
        checks.append({
            "property_id": pid,
            "quick_cmd": f"./check {pid} --tier quick",
            "thorough_cmd": f"./check {pid} --tier thorough",
            "evidence_file": f"evidence/{pid}.json",
            "replay_cmd_template": f"./check {pid} --explain {{path}}",
            "engine": c.get("engine", "rules"),
            "level_claimed": {"category": "other", "text": c["text"], "design_ref": c.get("design_ref", f"DESIGN.md §4 {pid}")},
            "level_note": c.get("note", "Trusted: rustc nightly (MIR, trait resolution), syn over -Zunpretty=expanded, the Python rule code, oracle and reviewed-instance tables. Assumed: std/nom/fastrand do not panic outside the tabulated APIs; virtual calls over-approximated by CHA."),
            "technique": c["technique"],
        })
    else:
        reason = (c or {}).get("na_reason") or "not yet decided by a sound static rule in this framework"
        na.append({"property_id": pid, "reason": reason})
m = {
    "version": 1,
    "setup_cmd": "./setup.sh",
    "hooks": {"guard": "kaj_rsass_verif", "enable": "none needed: static analysis observes the unmodified build (cargo +nightly check with a rustc wrapper); no hooks are compiled in", "baseline_off_cmd": "cd /repo && cargo nextest run --workspace --no-fail-fast --offline || cargo test --workspace --no-fail-fast --offline", "source_commits": [], "add_only": True},
    "engines": [
        {"name": "mirfacts", "path": "engines/mirfacts", "serves_properties": [c["property_id"] for c in checks], "kind_free_text": "rustc_private driver (nightly) injected with RUSTC_WORKSPACE_WRAPPER: serialises MIR (CFG, resolved callees, drop glue, constants) of the real build as JSON facts"},
        {"name": "astfacts", "path": "engines/astfacts", "serves_properties": [c["property_id"] for c in checks], "kind_free_text": "syn 2 parser over `cargo +nightly rustc -- -Zunpretty=expanded`: match arms, tables, format templates, combinator trees as JSON"},
        {"name": "rules", "path": "rules", "serves_properties": [c["property_id"] for c in checks], "kind_free_text": "Python rule layer: call graph + CHA reachability, CFG dominance/pairing, error-flow, decision-table extraction vs specification oracles, reviewed-instance tables, known_findings.json"},
    ],
    "checks": checks,
    "not_applicable": na,
    "notes": "Technique family: static analysis only. Every check re-extracts facts from /repo's current working tree (source-hash keyed cache under /verif/.cache). See DESIGN.md.",
}
json.dump(m, open(os.path.join(V, "MANIFEST.json"), "w"), indent=1)
print(f"MANIFEST.json: {len(checks)} checks, {len(na)} not applicable")
