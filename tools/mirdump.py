#!/usr/bin/env python3
"""Pretty-print the MIR facts of one body: tools/mirdump.py <def-suffix> [cli]"""
import sys, os
sys.path.insert(0, os.path.dirname(os.path.dirname(os.path.abspath(__file__))))
from lib import facts, mir

def P(p):
    s = f"_{p[0]}"
    for x in p[1]:
        if x == "*": s = f"(*{s})"
        elif x.startswith("as "): s = f"({s} {x})"
        else: s = s + x
    return s
def O(o):
    if o["k"] in ("copy", "move"): return ("move " if o["k"]=="move" else "") + P(o["p"])
    if "fn" in o: return "fn:" + mir.short(o["fn"]["def"])
    for k in ("v","mem","static","closure","named","promoted","fnptr"):
        if k in o: return f"const {k}={o[k]!r}"
    return "const " + o.get("ty","?")
def RV(r):
    k = r["k"]
    if k in ("ref","discr","rawptr"): return f"{k} {P(r['p'])}"
    extra = ""
    if k == "agg": extra = f" {r.get('adt','')}::{r.get('variant','')}" if r.get("agg")=="adt" else " "+r.get("agg","")+(" "+r.get("closure","") if r.get("closure") else "")
    if k == "binop" or k=="unop": extra = " "+r["op"]
    if k == "cast": extra = f" {r['cast']} -> {r['ty']}"
    return f"{k}{extra}(" + ", ".join(O(o) for o in r.get("ops",[])) + ")"
def dump(b):
    print(f"fn {b.def_}  [{b.file}:{b.line}] -> {b.ret}")
    for i,l in enumerate(b.locals):
        print(f"   _{i}: {l['ty']}" + (f"  // {l['name']}" if l.get('name') else ""))
    for i,blk in enumerate(b.blocks):
        print(f" bb{i}{' (cleanup)' if blk['cleanup'] else ''}:")
        for s in blk["stmts"]:
            if s["k"]=="assign": print(f"    {P(s['p'])} = {RV(s['rv'])}   // L{s.get('line')}")
            else: print("    ", s)
        t = blk["term"]; k=t["k"]
        if k=="call":
            c=t["callee"]; nm = c.get("def") or ("indirect "+O(c["op"]))
            print(f"    {P(t['dest'])} = {mir.short(nm)}[{c.get('res','')}]({', '.join(O(a) for a in t['args'])}) -> bb{t['target']} unwind {t['unwind']}  // L{t.get('line')} {t.get('macros','')}")
        elif k=="switch":
            print(f"    switch {O(t['discr'])} of={t.get('discr_of') and P(t['discr_of'])} {[(v,f'bb{b2}',n) for v,b2,n in t['targets']]} otherwise bb{t['otherwise']}")
        elif k=="drop": print(f"    drop {P(t['p'])} dtors={t['dtors']} -> bb{t['target']}")
        elif k=="assert": print(f"    assert {t['kind']} ({', '.join(O(a) for a in t['ops'])}) -> bb{t['target']}  // L{t.get('line')}")
        elif k=="goto": print(f"    goto bb{t['target']}")
        else: print(f"    {k}")
if __name__ == "__main__":
    d = facts.ensure("default")
    prog = mir.Program.load(d + ("/mir-rsass-Executable.json" if len(sys.argv)>2 else "/mir-rsass-Rlib.json"))
    for b in prog.find(sys.argv[1]): dump(b)
