#!/usr/bin/env python3
"""tools/replay_all.py [seed ...] — regression of detection: every kept seeded change is applied to a scratch
worktree of /repo and its OWN property's check is run against it (one fact extraction per seed).
Prints one line per seed; exits 1 if a seed that MATRIX.json records as caught by its own check is missed."""
import json, os, subprocess, sys, tempfile, shutil
V = os.path.dirname(os.path.dirname(os.path.abspath(__file__)))
seeds = sys.argv[1:] or sorted(d for d in os.listdir(os.path.join(V, "seeded")) if os.path.isdir(os.path.join(V, "seeded", d)))
matrix = json.load(open(os.path.join(V, "seeded", "MATRIX.json")))
wt = tempfile.mkdtemp(prefix="verif-replay-all-")
ev = tempfile.mkdtemp(prefix="verif-replay-all-ev-")
os.rmdir(wt)
subprocess.run(["git", "-C", "/repo", "worktree", "add", "--detach", wt, "HEAD"], check=True, stdout=subprocess.DEVNULL, stderr=subprocess.DEVNULL)
bad = []
try:
    for s in seeds:
        meta = json.load(open(os.path.join(V, "seeded", s, "meta.json")))
        pid = meta["property"]
        r = subprocess.run(["git", "-C", wt, "apply", os.path.join(V, "seeded", s, "patch.diff")], capture_output=True, text=True)
        if r.returncode != 0:
            print(f"{s}: patch does not apply", flush=True)
            continue
        p = subprocess.run([os.path.join(V, "check"), pid, "--repo", wt], capture_output=True, text=True, env=dict(os.environ, VERIF_EVIDENCE_DIR=ev))
        rules = [l.strip().split(" instance=")[0] for l in p.stdout.splitlines() if l.strip().startswith("rule=")]
        expected = matrix.get(s, {}).get("own_check_detects", None)
        status = "caught" if p.returncode == 1 else ("MISSED" if p.returncode == 0 else f"BROKEN rc={p.returncode}")
        print(f"{s}: {pid} {status} {sorted(set(rules))[:3]}" + ("" if expected is None else f" (matrix: {expected})"), flush=True)
        if p.returncode != 1 and expected:
            bad.append(s)
        subprocess.run(["git", "-C", wt, "checkout", "--", "."], check=True)
        subprocess.run(["git", "-C", wt, "clean", "-fdq"], check=True)
finally:
    subprocess.run(["git", "-C", "/repo", "worktree", "remove", "--force", wt])
    shutil.rmtree(ev, ignore_errors=True)
if bad:
    print("REGRESSION: no longer caught:", bad)
    sys.exit(1)
