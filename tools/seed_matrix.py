#!/usr/bin/env python3
"""tools/seed_matrix.py [seed ...] — apply every kept seeded change to a scratch worktree of /repo
(never to /repo itself), run all claimed checks against it with --repo, and record which
checks raise a violation.  Writes seeded/MATRIX.json and prints a table.  Evidence of these
runs goes to a scratch directory (the committed evidence always comes from /repo)."""
import json, os, subprocess, sys, tempfile, shutil
V = os.path.dirname(os.path.dirname(os.path.abspath(__file__)))
seeds = sys.argv[1:] or sorted(d for d in os.listdir(os.path.join(V, "seeded")) if os.path.isdir(os.path.join(V, "seeded", d)))
checks = [c["property_id"] for c in json.load(open(os.path.join(V, "MANIFEST.json")))["checks"]]
wt = tempfile.mkdtemp(prefix="verif-matrix-")
ev = tempfile.mkdtemp(prefix="verif-matrix-ev-")
os.rmdir(wt)
subprocess.run(["git", "-C", "/repo", "worktree", "add", "--detach", wt, "HEAD"], check=True, stdout=subprocess.DEVNULL, stderr=subprocess.DEVNULL)
matrix_path = os.path.join(V, "seeded", "MATRIX.json")
matrix = json.load(open(matrix_path)) if os.path.exists(matrix_path) else {}
try:
    for s in seeds:
        meta = json.load(open(os.path.join(V, "seeded", s, "meta.json")))
        patch = os.path.join(V, "seeded", s, "patch.diff")
        r = subprocess.run(["git", "-C", wt, "apply", patch], capture_output=True, text=True)
        if r.returncode != 0:
            matrix[s] = {"property": meta["property"], "applies": False, "error": r.stderr[-300:]}
            print(f"{s}: patch does not apply on the current HEAD")
            continue
        row = {"property": meta["property"], "applies": True, "detected_by": [], "rules": {}}
        env = dict(os.environ, VERIF_EVIDENCE_DIR=ev)
        for c in checks:
            p = subprocess.run([os.path.join(V, "check"), c, "--repo", wt], capture_output=True, text=True, env=env)
            if p.returncode == 1:
                row["detected_by"].append(c)
                row["rules"][c] = [l.strip() for l in p.stdout.splitlines() if l.strip().startswith("rule=")][:4]
            elif p.returncode != 0:
                row.setdefault("broken", []).append(c)
        row["own_check_detects"] = meta["property"] in row["detected_by"]
        matrix[s] = row
        print(f"{s}: own={row['own_check_detects']} detected_by={row['detected_by']}" + (f" BROKEN={row['broken']}" if row.get("broken") else ""))
        subprocess.run(["git", "-C", wt, "checkout", "--", "."], check=True)
        subprocess.run(["git", "-C", wt, "clean", "-fdq"], check=True)
        json.dump(matrix, open(matrix_path, "w"), indent=1, sort_keys=True)
finally:
    subprocess.run(["git", "-C", "/repo", "worktree", "remove", "--force", wt])
    shutil.rmtree(ev, ignore_errors=True)
