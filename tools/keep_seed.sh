#!/bin/bash
# tools/keep_seed.sh <tag> <property> "<what it needs to manifest>"  -- after confirm_seed.sh succeeded
set -eu
tag=$1; prop=$2; needs=$3
out=/tmp/seedwork/out-$tag
res=$(grep "^RESULT tag=" /tmp/seedwork/confirm-$tag.log)
echo "$res" | grep -q "suite_rc=0" || { echo "suite not green: $res"; exit 1; }
echo "$res" | grep -q "demo_without=0" || { echo "demo fails without change: $res"; exit 1; }
echo "$res" | grep -Eq "demo_with=[1-9]" || { echo "demo passes with change: $res"; exit 1; }
dst=/verif/seeded/$tag
rm -rf $dst; mkdir -p $dst
cp -r $out/. $dst/
rm -f $dst/suite*.log $dst/*.log
find $dst -size +200k -delete
python3 - "$tag" "$prop" "$needs" "$res" <<'PY'
import json,sys
tag,prop,needs,res=sys.argv[1:5]
json.dump({"id":tag,"property":prop,"breaks":prop,"needs_to_manifest":needs,
 "author":"independent sub-agent given only the property text and a scratch worktree",
 "confirmed_by":"tools/confirm_seed.sh in the scratch worktree: full suite with change (cargo test --workspace --offline --no-fail-fast), demo.sh with and without the change",
 "confirmation":res,"files":{"patch":"patch.diff","demo":"demo.sh","notes":"notes.md"}},
 open(f"/verif/seeded/{tag}/meta.json","w"),indent=1)
PY
git -C /repo worktree remove --force /tmp/seedwork/wt-$tag
rm -rf /tmp/seedwork/wt-$tag-ref /tmp/seedwork/target-base-$tag /tmp/seedwork/base-$tag /tmp/seedwork/play-$tag /tmp/seedwork/probe-$tag
[ -d /tmp/seedwork/wt-$tag-ref ] || true
echo kept $dst
