#!/usr/bin/env python3
"""tools/benign_matrix.py [patch.diff ...] — false-alarm test (default: the committed corpus benign/*/patch-*.diff).  Each patch is a behaviour-preserving
maintenance edit (rename, extract helper, reorder, comments ...) written by a sub-agent that never
saw /verif.  Every patch is applied to a scratch worktree of /repo (never to /repo itself) and all
claimed checks are run against it with --repo: every one of them must stay silent (exit 0).
Prints one line per patch; writes benign/RESULTS.json."""
import json, os, subprocess, sys, tempfile, shutil
V = os.path.dirname(os.path.dirname(os.path.abspath(__file__)))
import glob
patches = [os.path.abspath(x) for x in sys.argv[1:]] or sorted(glob.glob(os.path.join(V, "benign", "*", "patch-*.diff")))
checks = [c["property_id"] for c in json.load(open(os.path.join(V, "MANIFEST.json")))["checks"]]
only = os.environ.get("CHECKS")
if only:
    checks = only.split(",")
wt = tempfile.mkdtemp(prefix="verif-benign-")
ev = tempfile.mkdtemp(prefix="verif-benign-ev-")
os.rmdir(wt)
subprocess.run(["git", "-C", "/repo", "worktree", "add", "--detach", wt, "HEAD"], check=True, stdout=subprocess.DEVNULL, stderr=subprocess.DEVNULL)
res_path = os.environ.get("RESULTS") or os.path.join(V, "benign", "RESULTS.json")
os.makedirs(os.path.dirname(res_path), exist_ok=True)
results = json.load(open(res_path)) if os.path.exists(res_path) else {}
try:
    for patch in patches:
        name = os.path.basename(os.path.dirname(patch)).replace("out-", "") + "/" + os.path.basename(patch)
        r = subprocess.run(["git", "-C", wt, "apply", patch], capture_output=True, text=True)
        if r.returncode != 0:
            print(f"{name}: does not apply")
            continue
        env = dict(os.environ, VERIF_EVIDENCE_DIR=ev)
        row = {"alarms": {}, "broken": {}}
        for c in checks:
            p = subprocess.run([os.path.join(V, "check"), c, "--repo", wt], capture_output=True, text=True, env=env)
            if p.returncode == 1:
                row["alarms"][c] = [l.strip() for l in p.stdout.splitlines() if l.strip().startswith("rule=")][:6]
            elif p.returncode != 0:
                row["broken"][c] = (p.stderr or p.stdout)[-400:]
        results[name] = row
        print(f"{name}: alarms={row['alarms']} broken={list(row['broken'])}", flush=True)
        subprocess.run(["git", "-C", wt, "checkout", "--", "."], check=True)
        subprocess.run(["git", "-C", wt, "clean", "-fdq"], check=True)
        # merge with what another run may have written meanwhile
        cur = json.load(open(res_path)) if os.path.exists(res_path) else {}
        cur[name] = row
        results = cur
        json.dump(results, open(res_path, "w"), indent=1, sort_keys=True)
finally:
    subprocess.run(["git", "-C", "/repo", "worktree", "remove", "--force", wt])
    shutil.rmtree(ev, ignore_errors=True)
