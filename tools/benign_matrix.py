#!/usr/bin/env python3
"""tools/benign_matrix.py [patch.diff ...] — false-alarm test (default: the committed corpus benign/*/patch-*.diff).  Each patch is a behaviour-preserving
maintenance edit (rename, extract helper, reorder, comments ...) written by a sub-agent that never
saw /verif.  Every patch is applied to a scratch worktree of /repo (never to /repo itself) and all
claimed checks are run against it with --repo: every one of them must stay silent (exit 0).
Prints one line per patch; writes benign/RESULTS.json."""
import json, os, subprocess, sys, tempfile, shutil
V = os.path.dirname(os.path.dirname(os.path.abspath(__file__)))
import glob
patches = [os.path.abspath(x) for x in sys.argv[1:]] or sorted(glob.glob(os.path.join(V, "benign", "*", "patch-*.diff")))
checks = [c["property_id"] for c in json.load(open(os.path.join(V, "MANIFEST.json")))["checks"]]
only = os.environ.get("CHECKS")
if only:
    checks = only.split(",")
# SMART=1: per patch, run the whole-program inventory checks plus the checks whose property names one of the
# touched files (or a file of the same directory) among its anchors; a final full run uses SMART unset
SMART = os.environ.get("SMART")
GLOBAL = {"C01", "C05", "C07", "C08", "C13", "C21"}
anchors = {}
for l in open(os.path.join(V, "properties.jsonl")):
    d = json.loads(l)
    anchors[d["id"]] = set(d.get("anchors", {}).get("files", []))


def checks_for(patch):
    if not SMART:
        return checks
    touched = set()
    for line in open(patch):
        if line.startswith("+++ b/") or line.startswith("--- a/"):
            touched.add(line[6:].strip())
    dirs = {os.path.dirname(t) for t in touched}
    out = []
    for c in checks:
        a = anchors.get(c, set())
        if c in GLOBAL or (a & touched) or any(os.path.dirname(x) in dirs for x in a):
            out.append(c)
    return out
wt = tempfile.mkdtemp(prefix="verif-benign-")
ev = tempfile.mkdtemp(prefix="verif-benign-ev-")
os.rmdir(wt)
subprocess.run(["git", "-C", "/repo", "worktree", "add", "--detach", wt, "HEAD"], check=True, stdout=subprocess.DEVNULL, stderr=subprocess.DEVNULL)
res_path = os.environ.get("RESULTS") or os.path.join(V, "benign", "RESULTS.json")
os.makedirs(os.path.dirname(res_path), exist_ok=True)
results = json.load(open(res_path)) if os.path.exists(res_path) else {}
try:
    for patch in patches:
        name = os.path.basename(os.path.dirname(patch)).replace("out-", "") + "/" + os.path.basename(patch)
        r = subprocess.run(["git", "-C", wt, "apply", patch], capture_output=True, text=True)
        if r.returncode != 0:
            print(f"{name}: does not apply")
            continue
        env = dict(os.environ, VERIF_EVIDENCE_DIR=ev)
        row = {"alarms": {}, "broken": {}}
        row["checks"] = checks_for(patch)
        for c in row["checks"]:
            p = subprocess.run([os.path.join(V, "check"), c, "--repo", wt], capture_output=True, text=True, env=env)
            if p.returncode == 1:
                row["alarms"][c] = [l.strip() for l in p.stdout.splitlines() if l.strip().startswith("rule=")][:6]
            elif p.returncode != 0:
                row["broken"][c] = (p.stderr or p.stdout)[-400:]
        results[name] = row
        print(f"{name}: alarms={row['alarms']} broken={list(row['broken'])}", flush=True)
        subprocess.run(["git", "-C", wt, "checkout", "--", "."], check=True)
        subprocess.run(["git", "-C", wt, "clean", "-fdq"], check=True)
        # merge with what another run may have written meanwhile
        cur = json.load(open(res_path)) if os.path.exists(res_path) else {}
        cur[name] = row
        results = cur
        json.dump(results, open(res_path, "w"), indent=1, sort_keys=True)
finally:
    subprocess.run(["git", "-C", "/repo", "worktree", "remove", "--force", wt])
    shutil.rmtree(ev, ignore_errors=True)
