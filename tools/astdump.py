#!/usr/bin/env python3
"""tools/astdump.py <fn-suffix>  -- print the JSON AST of a function (compact)"""
import sys, os, json
sys.path.insert(0, os.path.dirname(os.path.dirname(os.path.abspath(__file__))))
from lib import facts, ast as A
d = facts.ensure("default")
t = A.Tree.load(d + ("/ast-rsass-bin.json" if len(sys.argv) > 2 else "/ast-rsass-lib.json"))
for f in t.find_fns(sys.argv[1]):
    print("##", f["path"])
    print(json.dumps(f["body"], indent=None)[:int(os.environ.get("MAX", "6000"))])
