"""F4 — provenance: symbolic terms for MIR operands.

term := ("param", index, projs)         value of a parameter (with field path)
      | ("call", callee_def, [terms])   result of a call (callee inlined when it is a
                                        straight-line local function)
      | ("const", repr)
      | ("agg", name, [terms])
      | ("binop", op, a, b) | ("unop", op, a) | ("discr", t) | ("proj", t, projs)
      | ("phi", [terms])                several reaching definitions
      | ("static", name) | ("closure", def) | ("unknown", why)

References, derefs, plain moves and pointer casts are transparent.
"""
from .mir import callee_name, callee_orig

TRANSPARENT_CALLS = {
    # identity-like conversions: the value is the same string / object
    "std::convert::Into::into", "std::convert::From::from", "std::borrow::ToOwned::to_owned", "std::string::ToString::to_string",
    "std::convert::AsRef::as_ref", "std::ops::Deref::deref", "std::ops::DerefMut::deref_mut", "std::borrow::Borrow::borrow",
    "std::clone::Clone::clone", "<std::string::String>::as_str", "<str>::to_string", "<str>::to_owned", "<std::string::String>::as_ref",
    "<std::borrow::Cow<'a, B>>::into_owned", "<std::borrow::Cow<'_, B> as std::ops::Deref>::deref",
    "<std::option::Option<T>>::as_deref", "<std::option::Option<T>>::as_ref", "<std::path::PathBuf>::as_path", "<std::option::Option<&T>>::cloned", "<std::option::Option<&T>>::copied",
}


class Sym:
    def __init__(self, prog, inline_depth=4, max_depth=40, force_inline=(), auto_inline=True):
        self.prog = prog
        self.inline_depth = inline_depth
        self.max_depth = max_depth
        # defs inlined whatever the shape of their CFG (their return value becomes a phi of its definitions)
        self.force_inline = set(force_inline)
        # auto_inline=False: only the forced defs are inlined (straight-line callees stay calls)
        self.auto_inline = auto_inline

    # ---- entry points
    def operand(self, body, op, env=None, depth=0, inl=0, visiting=None):
        k = op["k"]
        if k in ("copy", "move"):
            return self.place(body, op["p"], env, depth, inl, visiting)
        if k == "const":
            if "fn" in op:
                return ("fn", op["fn"]["def"])
            if "closure" in op:
                return ("closure", op["closure"])
            if "static" in op:
                return ("static", op["static"])
            if "v" in op:
                return ("const", op["v"])
            if "mem" in op:
                return ("const", op["mem"])
            if "named" in op:
                return ("const", "named:" + op["named"])
            if "promoted" in op:
                return ("const", "promoted")
            return ("const", op.get("ty", "?"))
        return ("unknown", "operand")

    def place(self, body, p, env=None, depth=0, inl=0, visiting=None):
        base = self.local(body, p[0], env, depth, inl, visiting)
        projs = tuple(x for x in p[1] if x != "*")
        return self._proj(base, projs)

    def _proj(self, base, projs):
        if not projs:
            return base
        if base[0] == "param":
            return ("param", base[1], base[2] + projs)
        if base[0] == "proj":
            return ("proj", base[1], base[2] + projs)
        if base[0] == "agg" and projs[0].startswith(".") and False:
            pass
        return ("proj", base, projs)

    def local(self, body, l, env=None, depth=0, inl=0, visiting=None):
        if depth > self.max_depth:
            return ("unknown", "depth")
        visiting = visiting or frozenset()
        key = (body.def_, l)
        if key in visiting:
            return ("unknown", "cycle")
        visiting = visiting | {key}
        defs = body.defs().get(l, [])
        if 1 <= l <= body.argc and not defs:
            if env is not None:
                return env[l - 1]
            return ("param", l, ())
        if 1 <= l <= body.argc and defs:
            # reassigned parameter: be conservative
            if env is not None:
                base = env[l - 1]
            else:
                base = ("param", l, ())
            return ("phi", (base,) + tuple(self._def(body, d, env, depth + 1, inl, visiting) for d in defs))
        if not defs:
            return ("unknown", f"no-def:_{l}")
        if len(defs) == 1:
            return self._def(body, defs[0], env, depth + 1, inl, visiting)
        ts = []
        for d in defs[:6]:
            t = self._def(body, d, env, depth + 1, inl, visiting)
            if t not in ts:
                ts.append(t)
        if len(ts) == 1:
            return ts[0]
        return ("phi", tuple(ts))

    def _def(self, body, d, env, depth, inl, visiting):
        if d[0] == "stmt":
            rv = d[3]["rv"]
            k = rv["k"]
            if k == "use":
                return self.operand(body, rv["ops"][0], env, depth, inl, visiting)
            if k in ("ref", "rawptr"):
                return self.place(body, rv["p"], env, depth, inl, visiting)
            if k == "cast":
                return self.operand(body, rv["ops"][0], env, depth, inl, visiting)
            if k == "binop":
                return ("binop", rv["op"], self.operand(body, rv["ops"][0], env, depth, inl, visiting), self.operand(body, rv["ops"][1], env, depth, inl, visiting))
            if k == "unop":
                return ("unop", rv["op"], self.operand(body, rv["ops"][0], env, depth, inl, visiting))
            if k == "discr":
                return ("discr", self.place(body, rv["p"], env, depth, inl, visiting))
            if k == "agg":
                name = rv.get("agg")
                if name == "adt":
                    name = rv["adt"] + "::" + rv["variant"]
                elif name == "closure":
                    return ("closure", rv["closure"], tuple(self.operand(body, o, env, depth, inl, visiting) for o in rv["ops"]))
                return ("agg", name, tuple(self.operand(body, o, env, depth, inl, visiting) for o in rv["ops"]))
            if k == "repeat":
                return ("agg", "repeat", (self.operand(body, rv["ops"][0], env, depth, inl, visiting),))
            return ("unknown", "rvalue:" + k)
        # call
        t = d[2]
        args = tuple(self.operand(body, o, env, depth, inl, visiting) for o in t["args"])
        name = callee_name(t)
        orig = callee_orig(t)
        if name is None:
            # a call through a function value: when the value is known (a closure or fn item handed down
            # as an argument, seen through the parameter environment) and its body is straight-line, the
            # call is that body applied to the arguments
            cop = t["callee"].get("op") if isinstance(t.get("callee"), dict) else None
            if cop is not None and inl < 3:
                ct = strip_transparent(self.operand(body, cop, env, depth, inl, visiting))
                if isinstance(ct, tuple) and ct and ct[0] in ("closure", "fn") and ct[1] in self.prog.bodies:
                    cb = self.prog.bodies[ct[1]]
                    if straight_line(cb):
                        cenv = ([ct] + list(args)) if ct[0] == "closure" else list(args)
                        r = self.local(cb, 0, env=cenv, depth=depth, inl=inl + 1, visiting=visiting)
                        if not _has_unknown(r):
                            return r
            return ("call", "<indirect>", args)
        if t["callee"].get("res") in ("unresolved", "virtual"):
            return ("call", orig, args)
        cb = self.prog.bodies.get(name)
        if cb is not None and inl < self.inline_depth and ((self.auto_inline and straight_line(cb)) or name in self.force_inline):
            r = self.local(cb, 0, env=list(args), depth=depth, inl=inl + 1, visiting=visiting)
            if not _has_unknown(r):
                return r
        return ("call", name, args)


def straight_line(body):
    """No branching on normal edges: every block has at most one normal successor."""
    n = 0
    b = 0
    seen = set()
    while True:
        if b in seen:
            return False
        seen.add(b)
        succ = body.successors(b)
        t = body.blocks[b]["term"]
        if t["k"] == "return":
            return True
        if t["k"] == "switch":
            return False
        if t["k"] == "assert":
            # debug pointer checks have a single normal successor
            pass
        if len(succ) != 1:
            return False
        b = succ[0]
        n += 1
        if n > 200:
            return False


def _has_unknown(t):
    if not isinstance(t, tuple):
        return False
    if t and t[0] == "unknown":
        return True
    return any(_has_unknown(x) for x in t[1:] if isinstance(x, tuple))


def strip_transparent(t):
    """Remove identity-like conversion calls (into, to_string, clone, deref, ...)."""
    if not isinstance(t, tuple):
        return t
    if t[0] == "call":
        name = t[1]
        args = tuple(strip_transparent(a) for a in t[2])
        base = name
        if base in TRANSPARENT_CALLS or _is_conv(base):
            if len(args) >= 1:
                return args[0]
        return ("call", name, args)
    if t[0] in ("agg", "phi"):
        return (t[0],) + tuple(strip_transparent(x) if isinstance(x, tuple) and x and isinstance(x[0], str) else (tuple(strip_transparent(y) for y in x) if isinstance(x, tuple) else x) for x in t[1:])
    if t[0] == "proj":
        base = strip_transparent(t[1])
        if base[0] == "param":
            return ("param", base[1], base[2] + t[2])
        if base[0] == "proj":
            return ("proj", base[1], base[2] + t[2])
        return ("proj", base, t[2])
    if t[0] in ("binop",):
        return ("binop", t[1], strip_transparent(t[2]), strip_transparent(t[3]))
    if t[0] in ("unop", "discr"):
        return (t[0],) + tuple(strip_transparent(x) if isinstance(x, tuple) else x for x in t[1:])
    return t


def _is_conv(name):
    # `<&str as Into<String>>::into`, `<String as From<&str>>::from`, `<T as ToString>::to_string`, `<T as Clone>::clone` ...
    for suffix in (" as std::convert::Into<", " as std::convert::From<", " as std::string::ToString>::to_string", " as std::clone::Clone>::clone",
                   " as std::borrow::ToOwned>::to_owned", " as std::convert::AsRef<", " as std::ops::Deref>::deref", " as std::borrow::Borrow<",
                   " as std::string::SpecToString>"):
        if suffix in name:
            return True
    return False


def calls_in(t):
    """All callee names occurring in a term, outermost first."""
    out = []

    def rec(x):
        if not isinstance(x, tuple) or not x:
            return
        if x[0] == "call":
            out.append(x[1])
            for a in x[2]:
                rec(a)
        else:
            for y in x[1:]:
                if isinstance(y, tuple):
                    if y and isinstance(y[0], str):
                        rec(y)
                    else:
                        for z in y:
                            rec(z)
    rec(t)
    return out


def params_in(t):
    out = []

    def rec(x):
        if not isinstance(x, tuple) or not x:
            return
        if x[0] == "param":
            out.append((x[1], x[2]))
            return
        for y in x[1:]:
            if isinstance(y, tuple):
                if y and isinstance(y[0], str):
                    rec(y)
                else:
                    for z in y:
                        rec(z)
    rec(t)
    return out


def show(t, depth=0):
    if not isinstance(t, tuple) or not t:
        return repr(t)
    if depth > 8:
        return "…"
    k = t[0]
    if k == "param":
        return f"arg{t[1]}" + "".join(t[2])
    if k == "call":
        return f"{_short(t[1])}(" + ", ".join(show(a, depth + 1) for a in t[2]) + ")"
    if k == "const":
        return repr(t[1])
    if k == "agg":
        return f"{_short(str(t[1]))}{{" + ", ".join(show(a, depth + 1) for a in t[2]) + "}"
    if k == "proj":
        return show(t[1], depth + 1) + "".join(t[2])
    if k == "binop":
        return f"({show(t[2], depth + 1)} {t[1]} {show(t[3], depth + 1)})"
    if k == "unop":
        return f"{t[1]}({show(t[2], depth + 1)})"
    if k == "discr":
        return f"discr({show(t[1], depth + 1)})"
    if k == "phi":
        return "phi(" + " | ".join(show(a, depth + 1) for a in t[1]) + ")"
    if k in ("static", "fn", "closure"):
        return f"{k}:{_short(t[1])}"
    return f"<{k}:{t[1] if len(t) > 1 else ''}>"


def _short(name):
    import re
    return re.sub(r"(?<![A-Za-z0-9_])(?:[a-z_0-9]+::)+(?=[A-Za-z_<{])", "", name)


# ---------------------------------------------------------------- term patterns

def match(t, pat):
    """Structural match of a (transparent-stripped) term against a pattern.

    pattern := "*"                                  anything
             | ("param", i) | ("param", i, projs)   parameter (exact projection path)
             | ("const", v)
             | ("call", name_suffix, [patterns])    call whose callee name ends with suffix
             | ("agg", name_suffix, [patterns])
             | ("try", pattern, projs)              `(pattern)?` followed by the projections
             | ("proj", pattern, projs)
             | ("any", [patterns])                  one of
    """
    if pat == "*":
        return True
    if not isinstance(t, tuple) or not t:
        return False
    k = pat[0]
    if k == "any":
        return any(match(t, p) for p in pat[1])
    if k == "param":
        want = tuple(pat[2]) if len(pat) > 2 else ()
        return t[0] == "param" and t[1] == pat[1] and tuple(t[2]) == want
    if k == "const":
        return t[0] == "const" and str(t[1]) == str(pat[1])
    if k == "call":
        if t[0] != "call" or not t[1].endswith(pat[1]):
            return False
        if pat[2] is None:
            return True
        return len(t[2]) == len(pat[2]) and all(match(a, p) for a, p in zip(t[2], pat[2]))
    if k == "agg":
        if t[0] != "agg" or not str(t[1]).endswith(pat[1]):
            return False
        if pat[2] is None:
            return True
        return len(t[2]) == len(pat[2]) and all(match(a, p) for a, p in zip(t[2], pat[2]))
    if k == "try":
        projs = ("as Continue", ".0") + tuple(pat[2])
        if t[0] != "proj" or tuple(t[2]) != projs:
            return False
        inner = t[1]
        if inner[0] != "call" or not inner[1].endswith("Try>::branch"):
            return False
        return match(strip_transparent(inner[2][0]), pat[1])
    if k == "proj":
        return t[0] == "proj" and tuple(t[2]) == tuple(pat[2]) and match(t[1], pat[1])
    return False


def alternatives(t):
    """Flatten phi terms into the list of alternatives."""
    if isinstance(t, tuple) and t and t[0] == "phi":
        out = []
        for x in t[1]:
            out.extend(alternatives(x))
        return out
    return [t]
