"""CFG helpers shared by the path rules (F3)."""
from .mir import callee_orig, callee_name


def try_targets(body, call_bb):
    """For `x = call(..)?` : follow the call's destination into Try::branch and return
    (continue_block, break_block) of the `?`, or None when the result is not consumed by `?`
    directly.  Looks through plain moves and adapter calls that take the value (map_err, at, ...)."""
    t = body.blocks[call_bb]["term"]
    if t["k"] != "call" or t.get("target") is None:
        return None
    cur_local = t["dest"][0]
    b = t["target"]
    for _ in range(12):
        blk = body.blocks[b]
        for s in blk["stmts"]:
            if s["k"] == "assign" and s["rv"]["k"] == "use" and s["rv"]["ops"] and s["rv"]["ops"][0].get("p", [None])[0] == cur_local and not s["p"][1]:
                cur_local = s["p"][0]
        term = blk["term"]
        if term["k"] == "call":
            uses = any(o.get("p", [None])[0] == cur_local for o in term["args"])
            if uses and callee_orig(term) == "std::ops::Try::branch":
                cf = term["dest"][0]
                nb = term["target"]
                sw = body.blocks[nb]["term"]
                hops = 0
                while sw["k"] == "goto" and hops < 3:
                    nb = sw["target"]
                    sw = body.blocks[nb]["term"]
                    hops += 1
                if sw["k"] != "switch":
                    return None
                cont = brk = None
                for _, tgt, name in sw["targets"]:
                    if name == "Continue":
                        cont = tgt
                    elif name == "Break":
                        brk = tgt
                if cont is None:
                    cont = sw["otherwise"]
                if brk is None:
                    brk = sw["otherwise"]
                return cont, brk
            if uses and term.get("target") is not None:
                cur_local = term["dest"][0]
                b = term["target"]
                continue
            return None
        if term["k"] == "goto":
            b = term["target"]
            continue
        return None
    return None


def is_error_exit_block(body, b):
    """Blocks that write an Err / a residual into `_0`."""
    blk = body.blocks[b]
    for s in blk["stmts"]:
        if s["k"] == "assign" and s["p"][0] == 0:
            rv = s["rv"]
            if rv["k"] == "agg" and rv.get("agg") == "adt" and rv.get("adt", "").endswith("result::Result") and rv.get("variant") == "Err":
                return True
    t = blk["term"]
    if t["k"] == "call" and t["dest"][0] == 0 and callee_orig(t) == "std::ops::FromResidual::from_residual":
        return True
    return False


def error_exit_blocks(body):
    return {i for i in range(len(body.blocks)) if is_error_exit_block(body, i)}


def paths_to_return_avoiding(body, start, avoid, through_error_exits=False):
    """Is there a path from `start` to a Return that avoids all blocks in `avoid`
    (and, unless through_error_exits, all error-exit blocks)?  Returns one such path or None."""
    avoid = set(avoid)
    if not through_error_exits:
        avoid |= error_exit_blocks(body)
    if start in avoid:
        return None
    sm = body.succ_map()
    stack = [(start, (start,))]
    seen = set()
    while stack:
        b, path = stack.pop()
        if b in seen:
            continue
        seen.add(b)
        if body.blocks[b]["term"]["k"] == "return":
            return list(path)
        for s in sm[b]:
            if s not in seen and s not in avoid:
                stack.append((s, path + (s,)))
    return None


def calls_to(body, pred):
    """Blocks whose terminator is a call with pred(callee_def, callee_orig, term) true."""
    out = []
    for bi, t in body.calls():
        if pred(callee_name(t), callee_orig(t), t):
            out.append(bi)
    return out
