"""Line-free instance keys."""
import re
from collections import defaultdict
from .mir import short


def fn_key(defname):
    return defname


class Ordinals:
    """Append #n only to separate keys that are otherwise equal (in CFG block order)."""
    def __init__(self):
        self.seen = defaultdict(int)

    def key(self, base):
        n = self.seen[base]
        self.seen[base] += 1
        return base if n == 0 else f"{base}#{n}"
