"""Line-free instance keys."""
import re
from collections import defaultdict
from .mir import short


_NAMES = {}


def install_sass_names(prog):
    """Closures registered as built-in Sass functions are named after the function they implement
    (`sass:string.slice`) instead of by their rustc ordinal; other closures lose their ordinal
    (`parent::{closure}`), so inserting an unrelated closure does not shift a key."""
    from rules.C34 import registry
    from . import sym
    if prog.crate in _NAMES:
        return _NAMES[prog.crate]
    names = {}
    try:
        reg = registry(prog, sym.Sym(prog, inline_depth=0))
        for (kind, mod, nm), impls in reg.items():
            for i in impls:
                if i and "{closure" in i:
                    names[i] = f"sass:{mod}.{nm}" + ("" if kind == "module" else " (global)")
    except Exception:
        names = {}
    _NAMES[prog.crate] = names
    return names


def fn_key(defname, prog=None):
    names = install_sass_names(prog) if prog is not None else {}
    best = None
    for k, v in names.items():
        if defname == k or defname.startswith(k + "::"):
            if best is None or len(k) > len(best[0]):
                best = (k, v)
    if best:
        return best[1] + re.sub(r"\{closure#\d+\}", "{closure}", defname[len(best[0]):])
    return re.sub(r"\{closure#\d+\}", "{closure}", defname)


class Ordinals:
    """Append #n only to separate keys that are otherwise equal (in CFG block order)."""
    def __init__(self):
        self.seen = defaultdict(int)

    def key(self, base):
        n = self.seen[base]
        self.seen[base] += 1
        return base if n == 0 else f"{base}#{n}"
