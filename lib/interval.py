"""Interval abstract interpretation of small, loop-free f64 functions on the MIR facts.

Domain: closed/open intervals over the extended reals plus a may-be-NaN flag.  -0.0 is the number 0
(`is_sign_negative` is therefore refined to `x <= 0`, not `x < 0`).  Add/Sub/Mul/Div close open ends
(rounding can reach the bound: `-1e-20 + 360.0 == 360.0`); Rem keeps them open (fmod is exact,
|x % c| < |c|).  Branches on `is_sign_negative`, `is_nan` and f64 comparisons refine the tested local
(and the locals it was copied from / to) on both edges.  A function with a back edge is not analysed
(result: top).  Crate-local callees are analysed with the argument intervals (depth-bounded,
context-sensitive); std operations are axioms listed in `_std_call`.

The analysis is sound for the value ranges it reports under these axioms; it is not complete: `top`
means "no bound proved", never "unbounded".
"""
import math
import re

from lib import mir

INF = math.inf


class Iv:
    __slots__ = ("lo", "hi", "lo_open", "hi_open", "nan", "pay")

    def __init__(self, lo=-INF, hi=INF, lo_open=False, hi_open=False, nan=True, pay=None):
        self.lo, self.hi, self.lo_open, self.hi_open, self.nan = lo, hi, lo_open, hi_open, nan
        # for a Result / Option / ControlFlow value: the interval of the f64 it carries in its
        # Ok / Some / Continue variant (None = unknown, an empty interval = "is not that variant")
        self.pay = pay

    @staticmethod
    def const(v):
        if v != v:
            return Iv(INF, -INF, nan=True)
        return Iv(v, v, nan=False)

    def empty(self):
        return self.lo > self.hi or (self.lo == self.hi and (self.lo_open or self.hi_open))

    def copy(self):
        return Iv(self.lo, self.hi, self.lo_open, self.hi_open, self.nan, self.pay)

    def join(self, o):
        r = self._join(o)
        r.pay = self.pay._join(o.pay) if self.pay is not None and o.pay is not None else None
        return r

    def _join(self, o):
        if self.empty():
            r = o.copy()
            r.nan = r.nan or self.nan
            return r
        if o.empty():
            r = self.copy()
            r.nan = r.nan or o.nan
            return r
        if self.lo < o.lo:
            lo, lo_open = self.lo, self.lo_open
        elif o.lo < self.lo:
            lo, lo_open = o.lo, o.lo_open
        else:
            lo, lo_open = self.lo, self.lo_open and o.lo_open
        if self.hi > o.hi:
            hi, hi_open = self.hi, self.hi_open
        elif o.hi > self.hi:
            hi, hi_open = o.hi, o.hi_open
        else:
            hi, hi_open = self.hi, self.hi_open and o.hi_open
        return Iv(lo, hi, lo_open, hi_open, self.nan or o.nan)

    def meet_upper(self, hi, open_):
        r = self.copy()
        if hi < r.hi or (hi == r.hi and open_ and not r.hi_open):
            r.hi, r.hi_open = hi, open_
        return r

    def meet_lower(self, lo, open_):
        r = self.copy()
        if lo > r.lo or (lo == r.lo and open_ and not r.lo_open):
            r.lo, r.lo_open = lo, open_
        return r

    def within(self, lo, hi, hi_open=False, lo_open=False):
        """every non-NaN value of self lies in the target range"""
        if self.empty():
            return True
        ok_lo = self.lo > lo or (self.lo == lo and (not lo_open or self.lo_open))
        ok_hi = self.hi < hi or (self.hi == hi and (not hi_open or self.hi_open))
        return ok_lo and ok_hi

    def show(self):
        if self.empty():
            return "NaN" if self.nan else "empty"

        def f(x):
            return "-inf" if x == -INF else "inf" if x == INF else f"{x:g}"
        return ("(" if self.lo_open or self.lo == -INF else "[") + f(self.lo) + ", " + f(self.hi) + (")" if self.hi_open or self.hi == INF else "]") + (" or NaN" if self.nan else "")

    __repr__ = show


TOP = Iv()


def top_of(ty):
    ty = (ty or "").strip()
    m = {"u8": (0, 255), "u16": (0, 65535), "i8": (-128, 127), "bool": (0, 1)}
    if ty in m:
        return Iv(m[ty][0], m[ty][1], nan=False)
    if re.fullmatch(r"[ui](size|\d+)", ty):
        return Iv(0 if ty[0] == "u" else -INF, INF, nan=False)
    return Iv()


def _mul(a, b):
    if a != a or b != b:
        return math.nan
    if (a == 0 and abs(b) == INF) or (b == 0 and abs(a) == INF):
        return 0.0          # a bound of 0 times an unbounded end contributes 0 as a bound
    return a * b


def arith(op, a, b):
    if a.empty() or b.empty():
        return Iv(INF, -INF, nan=a.nan or b.nan)
    nan = a.nan or b.nan
    if op == "Add":
        lo, hi = a.lo + b.lo, a.hi + b.hi
        if lo != lo:
            lo = -INF
        if hi != hi:
            hi = INF
        nan = nan or (a.hi == INF and b.lo == -INF) or (a.lo == -INF and b.hi == INF)
        return Iv(lo, hi, nan=nan)
    if op == "Sub":
        return arith("Add", a, Iv(-b.hi, -b.lo, nan=b.nan))
    if op == "Mul":
        c = [_mul(x, y) for x in (a.lo, a.hi) for y in (b.lo, b.hi)]
        inf_a = abs(a.lo) == INF or abs(a.hi) == INF
        inf_b = abs(b.lo) == INF or abs(b.hi) == INF
        zero_a = a.lo <= 0 <= a.hi
        zero_b = b.lo <= 0 <= b.hi
        return Iv(min(c), max(c), nan=nan or (inf_a and zero_b) or (inf_b and zero_a))
    if op == "Div":
        if b.lo <= 0 <= b.hi:
            return Iv(nan=True)
        c = []
        for x in (a.lo, a.hi):
            for y in (b.lo, b.hi):
                if abs(x) == INF and abs(y) == INF:
                    c += [-INF, INF]
                else:
                    c.append(x / y)
        return Iv(min(c), max(c), nan=nan or ((abs(a.lo) == INF or abs(a.hi) == INF) and (abs(b.lo) == INF or abs(b.hi) == INF)))
    if op == "Rem":
        m = max(abs(b.lo), abs(b.hi))
        nan = nan or abs(a.lo) == INF or abs(a.hi) == INF or (b.lo <= 0 <= b.hi)
        lo, lo_open, hi, hi_open = -m, True, m, True
        if a.lo >= 0:
            lo, lo_open = 0.0, False
        if a.hi <= 0:
            hi, hi_open = 0.0, False
        r = Iv(lo, hi, lo_open, hi_open, nan)
        # |x % c| <= |x|
        if 0 <= a.hi < hi:
            r.hi, r.hi_open = a.hi, a.hi_open
        if lo < a.lo <= 0:
            r.lo, r.lo_open = a.lo, a.lo_open
        return r
    return Iv()


def _fmax(a, b):
    if a.empty() or b.empty():
        r = (b if a.empty() else a).copy()
        r.nan = a.nan and b.nan if not (a.empty() and b.empty()) else True
        return r
    lo, lo_open = (a.lo, a.lo_open) if a.lo > b.lo else (b.lo, b.lo_open) if b.lo > a.lo else (a.lo, a.lo_open and b.lo_open)
    hi, hi_open = (a.hi, a.hi_open) if a.hi > b.hi else (b.hi, b.hi_open) if b.hi > a.hi else (a.hi, a.hi_open and b.hi_open)
    r = Iv(lo, hi, lo_open, hi_open, a.nan and b.nan)
    # max(NaN, y) == y
    if a.nan:
        r = r.join(Iv(b.lo, b.hi, b.lo_open, b.hi_open, False))
    if b.nan:
        r = r.join(Iv(a.lo, a.hi, a.lo_open, a.hi_open, False))
    r.nan = a.nan and b.nan
    return r


def _neg(a):
    return Iv(-a.hi, -a.lo, a.hi_open, a.lo_open, a.nan)


def _fmin(a, b):
    return _neg(_fmax(_neg(a), _neg(b)))


class Analysis:
    def __init__(self, prog, field_range=None, max_depth=3):
        self.prog = prog
        self.field_range = field_range or (lambda ty, field: None)
        self.max_depth = max_depth
        self.analysed = []          # (def, args) actually interpreted
        self.axioms_used = set()
        self.stack = []             # defs being interpreted, outermost first
        self.call_hook = None       # call_hook(body, bi, term, eval): every call terminator of every interpreted body
        self.store_hook = None      # store_hook(body, bi, si, stmt, eval): every assign of every interpreted body

    # ------------------------------------------------------------ entry
    def run(self, body, args=None, depth=0, observe=None):
        """Interpret `body` with parameter intervals `args` (list, by parameter position 1..argc).
        `observe(bi, si, state, eval)` is called before each statement.  Returns the interval of the
        return place (f64 functions) or None."""
        raw = body.raw
        nloc = len(raw["locals"])
        argc = raw["argc"]
        init = {}
        for i in range(1, argc + 1):
            init[i] = (args[i - 1] if args and i - 1 < len(args) and args[i - 1] is not None else top_of(raw["locals"][i]["ty"]))
        self.analysed.append(body.def_)
        order, back = _rpo(body)
        if back:
            return None
        self.stack.append(body.def_)
        try:
            return self._run(body, init, order, depth, observe)
        finally:
            self.stack.pop()

    def _run(self, body, init, order, depth, observe):
        states = {0: (init, {}, {})}          # block -> (intervals, alias, preds)
        ret = None
        for bi in order:
            if bi not in states:
                continue
            env, alias, preds = states[bi]
            env, alias, preds = dict(env), dict(alias), dict(preds)
            blk = body.blocks[bi]
            for si, st in enumerate(blk["stmts"]):
                if observe:
                    observe(bi, si, st, lambda op, e=env: self._operand(body, e, op))
                if self.store_hook and st["k"] == "assign":
                    self.store_hook(body, bi, si, st, lambda op, e=env: self._operand(body, e, op))
                if st["k"] != "assign":
                    continue
                dst = st["p"]
                rv = st["rv"]
                if dst[1]:
                    continue            # stores through projections do not change tracked scalars
                d = dst[0]
                val, al, pr = self._rvalue(body, env, rv)
                for k in [k for k, v in alias.items() if v == d]:
                    del alias[k]
                alias.pop(d, None)
                preds.pop(d, None)
                env[d] = val
                if al is not None and al != d:
                    alias[d] = alias.get(al, al)
                if pr is not None:
                    preds[d] = pr
            t = blk["term"]
            k = t["k"]
            if k == "return":
                if 0 in env:
                    ret = env[0] if ret is None else ret.join(env[0])
                continue
            succ = []
            if k == "goto":
                succ = [(t["target"], env, alias, preds)]
            elif k == "call":
                if self.call_hook:
                    self.call_hook(body, bi, t, lambda op, e=env: self._operand(body, e, op))
                if t.get("target") is not None:
                    e2, a2, p2 = dict(env), dict(alias), dict(preds)
                    dest = t.get("dest")
                    if dest and not dest[1]:
                        d = dest[0]
                        val, pr = self._call(body, env, t, depth)
                        for kk in [kk for kk, v in a2.items() if v == d]:
                            del a2[kk]
                        a2.pop(d, None)
                        p2.pop(d, None)
                        e2[d] = val if val is not None else top_of(t.get("dest_ty"))
                        if pr is not None:
                            # the predicate is about the ROOT of the tested local
                            p2[d] = pr
                    succ = [(t["target"], e2, a2, p2)]
            elif k == "switch":
                disc = t["discr"].get("p")
                pr = preds.get(disc[0]) if disc and not disc[1] else None
                zero = [tg for val, tg, _ in t["targets"] if str(val) == "0"]
                if t.get("discr_ty") == "bool" and pr is not None and len(zero) == 1 and t.get("otherwise") is not None:
                    succ = [(zero[0], self._refine(env, alias, pr, False), alias, preds),
                            (t["otherwise"], self._refine(env, alias, pr, True), alias, preds)]
                else:
                    tg = [x[1] for x in t["targets"]] + ([t["otherwise"]] if t.get("otherwise") is not None else [])
                    succ = [(x, env, alias, preds) for x in tg]
            elif k in ("drop", "assert", "false_edge", "falseedge", "storage"):
                if t.get("target") is not None:
                    succ = [(t["target"], env, alias, preds)]
            else:
                if t.get("target") is not None:
                    succ = [(t["target"], env, alias, preds)]
            for tgt, e, a, p in succ:
                if tgt in states:
                    pe, pa, pp = states[tgt]
                    ne = {l: pe[l].join(e[l]) for l in pe if l in e}
                    na = {l: pa[l] for l in pa if a.get(l) == pa[l]}
                    np_ = {l: pp[l] for l in pp if p.get(l) == pp[l]}
                    states[tgt] = (ne, na, np_)
                else:
                    states[tgt] = (dict(e), dict(a), dict(p))
        return ret

    # ------------------------------------------------------------ pieces
    def _place(self, body, env, p):
        loc, proj = p[0], p[1]
        if not proj:
            return env.get(loc, top_of(body.raw["locals"][loc]["ty"]))
        # field read: `.name` of a (deref'd) struct
        ty = body.raw["locals"][loc]["ty"]
        ps = [x for x in proj if x != "*"]
        if not ps:
            # a reference to a tracked scalar is modelled by the scalar it points to
            return env.get(loc, Iv())
        if len(proj) == 2 and proj[0] in ("as Ok", "as Some", "as Continue") and proj[1] == ".0":
            v = env.get(loc)
            if v is not None and v.pay is not None:
                return v.pay.copy()
            return top_of(None)
        if len(ps) == 1 and ps[0].startswith("."):
            base = re.sub(r"^&(mut )?", "", ty).strip()
            base = re.sub(r"^std::borrow::Cow<'_, (.*)>$", r"\1", base)
            r = self.field_range(base, ps[0][1:])
            if r is not None:
                self.axioms_used.add(f"invariant {base.rsplit('::', 1)[-1]}.{ps[0][1:]}")
                return r
        return Iv()

    def _operand(self, body, env, op):
        k = op.get("k")
        if k == "const":
            ty = op.get("ty", "")
            v = op.get("v")
            if ty in ("f64", "f32") and v is not None:
                try:
                    return Iv.const(float(v))
                except ValueError:
                    return Iv()
            if isinstance(v, (int, float)) and not isinstance(v, bool):
                return Iv.const(float(v))
            if isinstance(v, str) and re.fullmatch(r"-?\d+", v):
                return Iv.const(float(v))
            return top_of(ty)
        if k in ("copy", "move"):
            return self._place(body, env, op["p"])
        return Iv()

    def _rvalue(self, body, env, rv):
        k = rv["k"]
        if k == "use":
            op = rv["ops"][0]
            al = op["p"][0] if op.get("k") in ("copy", "move") and not op["p"][1] else None
            return self._operand(body, env, op), al, None
        if k == "binop":
            a, b = (self._operand(body, env, o) for o in rv["ops"])
            op = rv["op"]
            if op in ("Add", "Sub", "Mul", "Div", "Rem"):
                return arith(op, a, b), None, None
            if op in ("Lt", "Le", "Gt", "Ge", "Eq", "Ne"):
                return Iv(0, 1, nan=False), None, ("cmp", op, rv["ops"][0], rv["ops"][1])
            return Iv(), None, None
        if k == "unop":
            a = self._operand(body, env, rv["ops"][0]) if rv.get("ops") else Iv()
            if rv.get("op") == "Neg":
                return _neg(a), None, None
            return Iv(), None, None
        if k == "cast":
            ops = rv.get("ops") or []
            if ops:
                return self._operand(body, env, ops[0]), None, None
        if k == "agg" and rv.get("variant") in ("Ok", "Some", "Continue") and len(rv.get("ops") or []) == 1:
            return Iv(pay=self._operand(body, env, rv["ops"][0]).copy()), None, None
        if k == "agg" and rv.get("variant") in ("Err", "None", "Break"):
            return Iv(pay=Iv(INF, -INF, nan=False)), None, None
        if k == "ref":
            # a reference to a tracked scalar: remember it as an alias so Clone::clone(&x) can read it
            p = rv["p"]
            return self._place(body, env, p), (p[0] if not p[1] else None), None
        return Iv(), None, None

    def _call(self, body, env, t, depth):
        name = mir.callee_name(t) or ""
        args = [self._operand(body, env, a) for a in t["args"]]
        r = self._std_call(name, args, t)
        if r is not None:
            return r
        if re.search(r"ResolvedArgs>::get_map$", name) and len(t["args"]) == 3 and "fn" in t["args"][2]:
            # get_map(name, f) is `f(value)` with the error renamed: the Ok payload is f's
            cb = self.prog.bodies.get(t["args"][2]["fn"]["def"])
            if cb is not None and depth < self.max_depth:
                got = self.run(cb, None, depth + 1)
                if got is not None and got.pay is not None:
                    self.axioms_used.add("ResolvedArgs::get_map(name, f) carries f's Ok value")
                    return Iv(pay=got.pay.copy()), None
        if name.endswith("::from_residual"):
            return Iv(pay=Iv(INF, -INF, nan=False)), None
        if name.endswith("std::ops::Try>::branch") and args:
            return Iv(pay=args[0].pay.copy() if args[0].pay is not None else None), None
        cb = self.prog.bodies.get(name)
        if cb is not None and depth < self.max_depth and cb.raw.get("argc") == len(args):
            got = self.run(cb, args, depth + 1)
            if got is not None:
                return got, None
        return None, None

    def _std_call(self, name, args, t):
        s = mir.short(name)
        ax = None
        pr = None
        if s in ("<f64>::max", "std::cmp::max") or name.endswith("f64>::max"):
            ax = _fmax(args[0], args[1])
        elif s == "<f64>::min" or name.endswith("f64>::min"):
            ax = _fmin(args[0], args[1])
        elif s == "<f64>::clamp":
            x, lo, hi = args
            r = x.meet_lower(lo.lo, lo.lo_open).meet_upper(hi.hi, hi.hi_open)
            if r.empty():
                r = Iv(lo.lo, hi.hi, nan=x.nan)
            r.nan = x.nan
            ax = r
        elif s == "<f64>::abs":
            x = args[0]
            m = max(abs(x.lo), abs(x.hi)) if not x.empty() else 0
            lo = 0.0 if x.lo <= 0 <= x.hi else min(abs(x.lo), abs(x.hi))
            ax = Iv(lo, m, nan=x.nan)
        elif s == "<f64>::rem_euclid":
            x, c = args
            m = max(abs(c.lo), abs(c.hi))
            ax = Iv(0.0, m, nan=x.nan or c.nan or abs(x.lo) == INF or abs(x.hi) == INF or c.lo <= 0 <= c.hi)
        elif s in ("<f64>::floor", "<f64>::ceil", "<f64>::round", "<f64>::trunc"):
            x = args[0]
            ax = Iv(math.floor(x.lo) if abs(x.lo) != INF else x.lo, math.ceil(x.hi) if abs(x.hi) != INF else x.hi, nan=x.nan)
        elif s == "<f64>::midpoint":
            a, b = args
            ax = Iv(min(a.lo, b.lo), max(a.hi, b.hi), nan=a.nan or b.nan)
        elif s == "<f64>::is_sign_negative":
            ax = Iv(0, 1, nan=False)
            pr = ("signneg", t["args"][0])
        elif s == "<f64>::is_nan":
            ax = Iv(0, 1, nan=False)
            pr = ("isnan", t["args"][0])
        elif re.search(r"<f64 as (std::convert::)?From<(u8|u16|u32|i8|i16|i32|f32)>>::from$", name) or (s.endswith("Into<U>>::into") and t.get("dest_ty") == "f64"):
            ax = args[0].copy() if args else Iv()
        elif s.endswith("Clone>::clone") or s.endswith("Clone::clone"):
            ax = args[0].copy() if args else Iv()
        if ax is not None:
            self.axioms_used.add(s)
            return ax, pr
        return None

    def _refine(self, env, alias, pr, truth):
        env = dict(env)

        def same(loc):
            root = alias.get(loc, loc)
            return [l for l in set(list(env) + [loc, root]) if alias.get(l, l) == root]

        def local_of(op):
            return op["p"][0] if op.get("k") in ("copy", "move") and not op["p"][1] else None
        if pr[0] == "signneg":
            l = local_of(pr[1])
            if l is not None:
                for x in same(l):
                    v = env.get(x, Iv())
                    env[x] = v.meet_upper(0.0, False) if truth else v.meet_lower(0.0, False)
            return env
        if pr[0] == "isnan":
            l = local_of(pr[1])
            if l is not None:
                for x in same(l):
                    v = env.get(x, Iv()).copy()
                    if truth:
                        v = Iv(INF, -INF, nan=True)
                    else:
                        v.nan = False
                    env[x] = v
            return env
        if pr[0] == "cmp":
            _, op, a, b = pr
            la, lb = local_of(a), local_of(b)

            def val(o):
                if o.get("k") == "const":
                    try:
                        return Iv.const(float(o.get("v")))
                    except (TypeError, ValueError):
                        return Iv()
                l = local_of(o)
                return env.get(l, Iv()) if l is not None else Iv()
            va, vb = val(a), val(b)
            # normalise to the relation that holds on this edge
            rel = op if truth else {"Lt": "Ge", "Le": "Gt", "Gt": "Le", "Ge": "Lt", "Eq": "Ne", "Ne": "Eq"}[op]
            nan_free = truth and op != "Ne"      # a true ordered comparison excludes NaN; a false one does not

            def apply(l, rel, other):
                if l is None:
                    return
                for x in same(l):
                    v = env.get(x, Iv())
                    if rel == "Lt":
                        v = v.meet_upper(other.hi, True)
                    elif rel == "Le":
                        v = v.meet_upper(other.hi, other.hi_open)
                    elif rel == "Gt":
                        v = v.meet_lower(other.lo, True)
                    elif rel == "Ge":
                        v = v.meet_lower(other.lo, other.lo_open)
                    elif rel == "Eq":
                        v = v.meet_lower(other.lo, other.lo_open).meet_upper(other.hi, other.hi_open)
                    v = v.copy()
                    if nan_free or (rel == "Eq" and truth):
                        v.nan = False
                    env[x] = v
            if truth or op in ("Eq", "Ne"):
                apply(la, rel, vb)
                apply(lb, {"Lt": "Gt", "Le": "Ge", "Gt": "Lt", "Ge": "Le", "Eq": "Eq", "Ne": "Ne"}[rel], va)
            else:
                # the comparison was false: either the negated relation holds or an operand is NaN —
                # the numeric part is refined, the NaN flag is kept
                if not vb.nan and not vb.empty():
                    apply(la, rel, vb)
                if not va.nan and not va.empty():
                    apply(lb, {"Lt": "Gt", "Le": "Ge", "Gt": "Lt", "Ge": "Le"}[rel], va)
            return env
        return env


def _rpo(body):
    """reverse postorder of the CFG and whether it has a back edge"""
    n = len(body.blocks)
    succ = {}
    for bi in range(n):
        t = body.blocks[bi]["term"]
        s = []
        if t["k"] == "switch":
            s = [x[1] for x in t["targets"]] + ([t["otherwise"]] if t.get("otherwise") is not None else [])
        elif t.get("target") is not None:
            s = [t["target"]]
        succ[bi] = s
    seen, onstack, order = set(), set(), []
    back = False
    stack = [(0, iter(succ[0]))]
    seen.add(0)
    onstack.add(0)
    while stack:
        node, it = stack[-1]
        adv = False
        for x in it:
            if x in onstack:
                back = True
            if x not in seen:
                seen.add(x)
                onstack.add(x)
                stack.append((x, iter(succ[x])))
                adv = True
                break
        if not adv:
            order.append(node)
            onstack.discard(node)
            stack.pop()
    order.reverse()
    return order, back
