"""Syntax-tree model over the facts emitted by engines/astfacts."""
import json
import re


class AnchorLost(Exception):
    def __init__(self, anchor, candidates=()):
        super().__init__(f"AST anchor {anchor!r}: expected exactly one item, found {len(candidates)}: {list(candidates)[:5]}")
        self.anchor = anchor
        self.candidates = candidates


def _norm(p):
    return re.sub(r"\s+", "", p)


class Tree:
    def __init__(self, raw):
        self.raw = raw
        self.fns = {}      # path -> fn item (may collide: keep list)
        self.fn_list = []
        self.enums = {}
        self.structs = {}
        self.statics = {}
        self.consts = {}
        self.impls = []
        self._index(raw["items"])

    @classmethod
    def load(cls, path):
        with open(path) as f:
            return cls(json.load(f))

    def _index(self, items):
        for it in items:
            k = it.get("i")
            if k == "mod":
                self._index(it["items"])
            elif k == "fn":
                self.fn_list.append(it)
            elif k == "impl":
                self.impls.append(it)
                for sub in it["items"]:
                    if sub.get("i") == "fn":
                        sub["_impl"] = {"self_ty": it["self_ty"], "trait": it["trait"], "attrs": it["attrs"], "mod": it["mod"]}
                        self.fn_list.append(sub)
            elif k == "enum":
                self.enums[it["path"]] = it
            elif k == "struct":
                self.structs[it["path"]] = it
            elif k == "static":
                self.statics[it["path"]] = it
            elif k == "const":
                if "path" in it:
                    self.consts[it["path"]] = it
            elif k == "trait":
                for sub in it["items"]:
                    if sub.get("body"):
                        self.fn_list.append(sub)
        # nested fn items inside function bodies are reachable through walk()

    def find_fns(self, suffix):
        """Functions whose path ends with suffix (whitespace-insensitive, at a `::`/`<` boundary)."""
        s = _norm(suffix)
        out = []
        for f in self.fn_list:
            p = _norm(f["path"])
            if p == s or p.endswith("::" + s) or (p.endswith(s) and p[len(p) - len(s) - 1] in "<:"):
                out.append(f)
        return out

    def fn(self, suffix):
        c = self.find_fns(suffix)
        if len(c) != 1:
            raise AnchorLost(suffix, [f["path"] for f in c])
        return c[0]

    def method(self, self_ty_suffix, name, trait=None):
        """Method `name` in an impl whose self type (generics stripped) ends with self_ty_suffix."""
        out = []
        for f in self.fn_list:
            im = f.get("_impl")
            if not im or f["sig"]["name"] != name:
                continue
            st = re.sub(r"<.*", "", _norm(im["self_ty"])).lstrip("&")
            st = st.replace("crate::", "").replace("super::", "")
            full = _norm(im.get("mod", "")) + st.rsplit("::", 1)[-1]
            if not (st == self_ty_suffix or st.endswith("::" + self_ty_suffix) or full == self_ty_suffix or full.endswith("::" + self_ty_suffix)):
                continue
            if trait is not None:
                tr = im["trait"] or ""
                trn = re.sub(r"<.*", "", _norm(tr))
                if not (trn == trait or trn.endswith("::" + trait)):
                    continue
            elif trait is None and False:
                pass
            out.append(f)
        return out

    def one_method(self, self_ty, name, trait=None):
        c = self.method(self_ty, name, trait)
        if len(c) != 1:
            raise AnchorLost(f"{self_ty}::{name}" + (f" (as {trait})" if trait else ""), [f["path"] for f in c])
        return c[0]

    def enum(self, suffix):
        c = [e for p, e in self.enums.items() if p == suffix or p.endswith("::" + suffix)]
        if len(c) != 1:
            raise AnchorLost("enum " + suffix, [e["path"] for e in c])
        return c[0]


# ---------------------------------------------------------------- generic walking

CHILD_KEYS = ("f", "args", "recv", "x", "l", "r", "on", "cond", "then", "else", "body", "xs", "stmts", "init",
              "iter", "i", "lo", "hi", "len", "rest", "guard", "arms", "fields", "item", "items", "pat")


def walk(node, fn_boundary=True):
    """Yield every expression/statement node (dicts with 'e' or 's') in pre-order.
    Does not descend into nested fn items when fn_boundary is True; closures are entered."""
    stack = [node]
    while stack:
        n = stack.pop()
        if isinstance(n, list):
            stack.extend(reversed(n))
            continue
        if not isinstance(n, dict):
            continue
        if "i" in n and n.get("i") == "fn" and fn_boundary and n is not node:
            continue
        if "e" in n or "s" in n:
            yield n
        for k, v in n.items():
            if k.startswith("_"):
                continue
            if isinstance(v, (dict, list)):
                stack.append(v)


def children(n):
    for k, v in n.items():
        if isinstance(v, (dict, list)) and not k.startswith("_"):
            yield k, v


def calls(node, name=None):
    """Yield call / method-call nodes, optionally restricted by callee name (last segment)."""
    for n in walk(node):
        if n.get("e") == "mcall":
            if name is None or n["m"] == name:
                yield n
        elif n.get("e") == "call":
            f = n["f"]
            if f.get("e") == "path":
                last = f["p"].rsplit("::", 1)[-1]
                if name is None or last == name or f["p"] == name:
                    yield n
            elif name is None:
                yield n


def callee_path(n):
    if n.get("e") == "call" and n["f"].get("e") == "path":
        return n["f"]["p"]
    if n.get("e") == "mcall":
        return "." + n["m"]
    return None


def is_path(n, *names):
    return isinstance(n, dict) and n.get("e") == "path" and (n["p"] in names or n["p"].rsplit("::", 1)[-1] in names)


def lit_str(n):
    if isinstance(n, dict) and n.get("e") == "lit" and n.get("t") in ("str", "bstr", "char"):
        return n["v"]
    return None


def strip(n):
    """Strip references, parens, casts `as`, derefs and trivial blocks."""
    while isinstance(n, dict):
        if n.get("e") == "ref":
            n = n["x"]
        elif n.get("e") == "unary" and n.get("op") == "*":
            n = n["x"]
        elif n.get("e") == "block" and len(n["stmts"]) == 1 and n["stmts"][0].get("s") == "expr" and not n["stmts"][0].get("semi"):
            n = n["stmts"][0]["x"]
        else:
            break
    return n


def show(n, depth=0):
    """Compact rendering of an expression for reports."""
    if n is None:
        return "_"
    if isinstance(n, list):
        return ", ".join(show(x, depth) for x in n)
    if not isinstance(n, dict):
        return str(n)
    if depth > 6:
        return "…"
    e = n.get("e")
    d = depth + 1
    if e == "path":
        return n["p"]
    if e == "lit":
        return json.dumps(n.get("v")) if n.get("t") in ("str", "bstr", "char") else str(n.get("v"))
    if e == "call":
        return f"{show(n['f'], d)}({show(n['args'], d)})"
    if e == "mcall":
        return f"{show(n['recv'], d)}.{n['m']}({show(n['args'], d)})"
    if e == "field":
        return f"{show(n['x'], d)}.{n['f']}"
    if e == "ref":
        return "&" + show(n["x"], d)
    if e == "unary":
        return n["op"] + show(n["x"], d)
    if e == "bin":
        return f"({show(n['l'], d)} {n['op']} {show(n['r'], d)})"
    if e == "try":
        return show(n["x"], d) + "?"
    if e == "tuple":
        return "(" + show(n["xs"], d) + ")"
    if e == "array":
        return "[" + show(n["xs"], d) + "]"
    if e == "closure":
        return "|" + ", ".join(showpat(p) for p in n["params"]) + "| " + show(n["body"], d)
    if e == "block":
        return "{…}" if len(n["stmts"]) != 1 else "{" + show(n["stmts"][0].get("x") or n["stmts"][0].get("init"), d) + "}"
    if e == "fmt":
        return f"format_args!({json.dumps(n['template'])}, …)"
    if e == "if":
        return f"if {show(n['cond'], d)} {{…}}"
    if e == "match":
        return f"match {show(n['on'], d)} {{…}}"
    if e == "index":
        return f"{show(n['x'], d)}[{show(n['i'], d)}]"
    if e == "range":
        return f"{show(n['lo'], d) if n['lo'] else ''}..{'=' if n['incl'] else ''}{show(n['hi'], d) if n['hi'] else ''}"
    if e == "struct":
        return n["p"] + "{…}"
    if e == "macro":
        return n["name"] + "!(…)"
    if e == "ret":
        return "return " + show(n["x"], d)
    if e == "cast":
        return f"{show(n['x'], d)} as {n['ty']}"
    if e == "let":
        return f"let {showpat(n['pat'])} = {show(n['x'], d)}"
    if e == "assign":
        return f"{show(n['l'], d)} = {show(n['r'], d)}"
    return f"<{e}>"


def showpat(p):
    if p is None:
        return "_"
    k = p.get("p")
    if k == "wild":
        return "_"
    if k == "bind":
        return p["n"] + ("@" + showpat(p["sub"]) if p.get("sub") else "")
    if k == "path":
        return p["v"]
    if k == "tstruct":
        return p["v"] + "(" + ", ".join(showpat(x) for x in p["xs"]) + ")"
    if k == "struct":
        return p["v"] + "{" + ", ".join(f"{a}: {showpat(b)}" for a, b in p["fields"]) + (", .." if p.get("rest") else "") + "}"
    if k == "tuple":
        return "(" + ", ".join(showpat(x) for x in p["xs"]) + ")"
    if k == "or":
        return " | ".join(showpat(x) for x in p["xs"])
    if k == "ref":
        return "&" + showpat(p["x"])
    if k == "lit":
        return show(p["x"])
    if k == "slice":
        return "[" + ", ".join(showpat(x) for x in p["xs"]) + "]"
    if k == "rest":
        return ".."
    if k == "range":
        return "range"
    return f"<{k}>"


# ---------------------------------------------------------------- pattern simulation (decision tables)

def pat_matches_variant(p, variant, enum_names=("Self",)):
    """Does pattern p match a value whose outermost constructor is `variant` (a name)?
    Returns 'yes' (irrefutably for that variant, ignoring sub-patterns that are wild/bind),
    'maybe' (matches the variant but has refutable sub-patterns) or 'no'."""
    k = p.get("p")
    if k in ("wild", "rest"):
        return "yes"
    if k == "bind":
        if p.get("sub"):
            return pat_matches_variant(p["sub"], variant, enum_names)
        return "yes"
    if k == "ref":
        return pat_matches_variant(p["x"], variant, enum_names)
    if k == "or":
        res = [pat_matches_variant(x, variant, enum_names) for x in p["xs"]]
        if "yes" in res:
            return "yes"
        if "maybe" in res:
            return "maybe"
        return "no"
    if k in ("path", "tstruct", "struct"):
        name = p["v"].rsplit("::", 1)[-1]
        if name != variant:
            return "no"
        subs = []
        if k == "tstruct":
            subs = p["xs"]
        elif k == "struct":
            subs = [b for _, b in p["fields"]]
        for s in subs:
            if not irrefutable(s):
                return "maybe"
        return "yes"
    return "maybe"


def irrefutable(p):
    k = p.get("p")
    if k in ("wild", "rest"):
        return True
    if k == "bind":
        return p.get("sub") is None or irrefutable(p["sub"])
    if k == "ref":
        return irrefutable(p["x"])
    if k == "tuple":
        return all(irrefutable(x) for x in p["xs"])
    return False


def select_arms(match_node, variant):
    """Arms of a `match` over an enum that a value of `variant` can select, in order.
    Returns list of (arm, certainty) where evaluation stops at the first 'yes' without guard."""
    out = []
    for arm in match_node["arms"]:
        m = pat_matches_variant(arm["pat"], variant)
        if m == "no":
            continue
        certain = (m == "yes" and arm.get("guard") is None)
        out.append((arm, "yes" if certain else "maybe"))
        if certain:
            break
    return out


# ---------------------------------------------------------------- arm delegation (helper extracted from a match arm)

def _rename_paths(n, m):
    if isinstance(n, list):
        return [_rename_paths(x, m) for x in n]
    if not isinstance(n, dict):
        return n
    if n.get("e") == "path" and n["p"] in m:
        return dict(n, p=m[n["p"]], full=m[n["p"]])
    return {k: (_rename_paths(v, m) if not k.startswith("_") else v) for k, v in n.items()}


def delegated_body(tree, body, module_prefix, depth=0):
    """If `body` is nothing but a call of a local helper (`helper(a, b, ..)?`, `self.helper(a, ..)`, optionally
    followed by `Ok(..)`/unit), return the helper's body with its parameters renamed to the argument
    expressions (when those are plain paths), so that rules written for the arm read the moved code.
    Otherwise return body unchanged."""
    if depth > 2:
        return body
    b = strip(body)
    stmts = b["stmts"] if b.get("e") == "block" else [{"s": "expr", "x": b, "semi": False}]
    core = [st for st in stmts if not (st.get("s") == "expr" and show(strip(st["x"])).replace(" ", "") in ("Ok(())", "()", "None"))]
    if len(core) != 1 or core[0].get("s") != "expr":
        return body
    x = strip(core[0]["x"])
    while isinstance(x, dict) and x.get("e") == "try":
        x = strip(x["x"])
    name, args = None, None
    if x.get("e") == "call" and x["f"].get("e") == "path":
        name, args = x["f"]["p"].rsplit("::", 1)[-1], x["args"]
    elif x.get("e") == "mcall" and strip(x["recv"]).get("e") == "path" and strip(x["recv"])["p"] in ("self", "Self"):
        name, args = x["m"], x["args"]
    if name is None:
        return body
    cands = [f for f in tree.fn_list if f["sig"]["name"] == name and f["path"].startswith(module_prefix) and f.get("body")]
    if len(cands) != 1:
        return body
    f = cands[0]
    params = [p.get("pat", {}).get("n") for p in f["sig"]["params"] if p.get("pat", {}).get("n") != "self"]
    if len(params) != len(args):
        return body
    m = {}
    for pn, a in zip(params, args):
        a = strip(a)
        while isinstance(a, dict) and a.get("e") == "mcall" and a["m"] in ("clone", "as_ref", "as_deref") and not a["args"]:
            a = strip(a["recv"])
        if pn and isinstance(a, dict) and a.get("e") == "path":
            m[pn] = a["p"]
    return delegated_body(tree, _rename_paths(f["body"], m), module_prefix, depth + 1)
