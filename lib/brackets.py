"""F6 — bracket-height verifier over the structured AST of the writer functions.

Like a bytecode verifier's stack-depth check: the net count of ( ) { } [ ] emitted as
*literals* is computed per function; both arms of a branch, all arms of a match must agree,
loop bodies and closures must be neutral, every non-error exit of a function must have the
same height.  One-armed `if` on a simple condition contributes a symbolic `guard x delta`
that must cancel by the end of the function (`if nc { "calc(" } .. if nc { ")" }`).
Data carried in strings (non-literal arguments) is excluded by construction.
"""
import re

from . import ast as A

EMIT_METHODS = {"add_str", "add_char", "write_str", "write_char", "push_str", "push"}
ZERO = (0, 0, 0)


def vec(s):
    return (s.count("(") - s.count(")"), s.count("{") - s.count("}"), s.count("[") - s.count("]"))


def add(a, b):
    return tuple(x + y for x, y in zip(a, b))


def template_text(t):
    t = t.replace("{{", "\x01").replace("}}", "\x02")
    t = re.sub(r"\{[^}]*\}", "", t)
    return t.replace("\x01", "{").replace("\x02", "}")


class Disagree(Exception):
    pass


class St:
    """running height: unconditional vector + guarded vectors keyed by condition text"""

    def __init__(self, base=ZERO, guards=None):
        self.base = base
        self.guards = dict(guards or {})

    def plus(self, v, guard=None):
        s = St(self.base, self.guards)
        if guard is None:
            s.base = add(s.base, v)
        else:
            s.guards[guard] = add(s.guards.get(guard, ZERO), v)
            if s.guards[guard] == ZERO:
                del s.guards[guard]
        return s

    def key(self):
        return (self.base, tuple(sorted(self.guards.items())))

    def __repr__(self):
        return f"{self.base}" + ("".join(f" + [{g}]*{v}" for g, v in sorted(self.guards.items())))


class Verifier:
    def __init__(self, summaries=None, style_neutral=True):
        self.summaries = summaries or {}     # method/function name -> vector
        self.problems = []
        self.exits = []

    # ------------------------------------------------------------------ function level
    def function(self, f):
        self.problems = []
        self.exits = []
        end = self.block(f["body"], St())
        if end is not None:
            self.exits.append(("end", end))
        keys = {e[1].key() for e in self.exits}
        result = None
        if len(keys) > 1:
            self.problems.append("exits disagree: " + "; ".join(f"{w}: {s}" for w, s in self.exits))
        if self.exits:
            s = self.exits[-1][1]
            if s.guards:
                self.problems.append(f"guarded brackets do not cancel: {s}")
            result = s.base
        return result, list(self.problems)

    # ------------------------------------------------------------------ statements / expressions
    def block(self, b, st):
        b = b if b.get("e") == "block" else {"e": "block", "stmts": [{"s": "expr", "x": b, "semi": False}]}
        for s in b["stmts"]:
            if st is None:
                return None
            k = s.get("s")
            if k == "let":
                if s.get("init") is not None:
                    st = self.expr(s["init"], st)
                    if st is not None and s.get("else") is not None:
                        # let-else: the else block diverges
                        self.expr(s["else"], st)
            elif k == "expr":
                st = self.expr(s["x"], st)
        return st

    def expr(self, n, st):
        """Returns the state after evaluating n, or None if n diverges."""
        if st is None or not isinstance(n, dict):
            return st
        e = n.get("e")
        if e == "block":
            return self.block(n, st)
        if e in ("lit", "path", "continue", "infer"):
            return st
        if e == "ret":
            x = n.get("x")
            if x is not None:
                st2 = self.expr(x, st)
                if st2 is not None and not self.is_error_value(x):
                    self.exits.append(("return", st2))
            else:
                self.exits.append(("return", st))
            return None
        if e == "break":
            return None
        if e == "try":
            return self.expr(n["x"], st)     # the error exit is exempt
        if e == "macro" and n.get("name", "").rsplit("::", 1)[-1] in ("panic", "unreachable", "todo", "unimplemented"):
            return None
        if e == "if":
            cond = A.strip(n["cond"])
            st = self.expr(cond, st) if cond.get("e") != "let" else self.expr(cond["x"], st)
            a = self.block(n["then"], st)
            if n.get("else") is not None:
                b = self.expr(n["else"], st)
                if a is not None and b is not None and a.key() != b.key() and self.simple_cond(cond) and a.guards == st.guards and b.guards == st.guards:
                    # one side is neutral: a correlated guard (`if brackets { "[" } else if .. { return .. }`)
                    if b.key() == st.key():
                        return st.plus(tuple(x - y for x, y in zip(a.base, st.base)), guard=A.show(cond))
                    if a.key() == st.key():
                        return st.plus(tuple(x - y for x, y in zip(b.base, st.base)), guard="!" + A.show(cond))
                return self.join([a, b], "if " + A.show(cond)[:40])
            # one-armed
            if a is None or a.key() == st.key():
                return st
            d = tuple(x - y for x, y in zip(a.base, st.base))
            if a.guards == st.guards and self.simple_cond(cond):
                return st.plus(d, guard=A.show(cond))
            self.problems.append(f"one-armed `if {A.show(cond)[:50]}` changes the bracket height by {d}")
            return st
        if e == "match":
            st = self.expr(n["on"], st)
            outs = []
            for arm in n["arms"]:
                s2 = st
                if arm.get("guard") is not None:
                    s2 = self.expr(arm["guard"], s2)
                outs.append(self.expr(arm["body"], s2))
            return self.join(outs, "match " + A.show(n["on"])[:40])
        if e in ("for", "while", "loop"):
            if e == "for":
                st = self.expr(n["iter"], st)
            if e == "while":
                c = A.strip(n["cond"])
                st = self.expr(c["x"] if c.get("e") == "let" else c, st)
            inner = Verifier(self.summaries)
            inner.exits = self.exits   # returns inside loops are function exits, but measured from loop entry
            saved = len(self.exits)
            body_end = inner.block(n["body"], St())
            self.problems.extend(inner.problems)
            # exits recorded inside the loop are relative to the loop entry: rebase
            for i in range(saved, len(self.exits)):
                w, s = self.exits[i]
                self.exits[i] = (w, St(add(st.base, s.base), {**st.guards, **s.guards}))
            if body_end is not None and body_end.key() != St().key():
                self.problems.append(f"loop body is not bracket-neutral: {body_end}")
            return st
        if e == "closure":
            inner = Verifier(self.summaries)
            end = inner.expr(n["body"], St())
            self.problems.extend(inner.problems)
            if end is not None and end.key() != St().key():
                self.problems.append(f"closure body is not bracket-neutral: {end}")
            for w, s in inner.exits:
                if s.key() != St().key():
                    self.problems.append(f"closure exit is not bracket-neutral: {s}")
            return st
        if e == "mcall":
            st = self.expr(n["recv"], st)
            for a in n["args"]:
                st = self.expr(a, st)
                if st is None:
                    return None
            m = n["m"]
            if m == "add_one" and len(n["args"]) == 2:
                a, b = (A.lit_str(A.strip(x)) for x in n["args"])
                if a is not None and b is not None:
                    if vec(a) != vec(b):
                        self.problems.append(f"add_one({a!r}, {b!r}): the two styles emit different brackets")
                    return st.plus(vec(a))
                return st
            if m in EMIT_METHODS and n["args"]:
                s = A.lit_str(A.strip(n["args"][0]))
                if s is not None:
                    return st.plus(vec(s))
                return st
            if m == "write_fmt" and n["args"]:
                return st    # the fmt node inside the args was already counted
            if m in self.summaries:
                return st.plus(self.summaries[m])
            return st
        if e == "call":
            f = n["f"]
            st = self.expr(f, st) if f.get("e") != "path" else st
            for a in n["args"]:
                st = self.expr(a, st)
                if st is None:
                    return None
            if f.get("e") == "path":
                name = f["p"].rsplit("::", 1)[-1]
                if name in self.summaries and f["p"].count("::") <= 1 and name not in ("new", "from", "into"):
                    return st.plus(self.summaries[name])
            return st
        if e == "fmt":
            for a in n["args"]:
                st = self.expr(a["x"], st)
            if n.get("template") is not None:
                st = st.plus(vec(template_text(n["template"])))
            return st
        # generic: visit children in order
        for k in ("x", "l", "r", "recv", "on", "lo", "hi", "i", "len"):
            v = n.get(k)
            if isinstance(v, dict):
                st = self.expr(v, st)
                if st is None:
                    return None
        for k in ("xs", "args"):
            for v in n.get(k, []) or []:
                if isinstance(v, dict):
                    st = self.expr(v, st)
                    if st is None:
                        return None
        if e == "struct":
            for _, v in n.get("fields", []):
                st = self.expr(v, st)
                if st is None:
                    return None
        return st

    def join(self, outs, what):
        live = [o for o in outs if o is not None]
        if not live:
            return None
        keys = {o.key() for o in live}
        if len(keys) > 1:
            self.problems.append(f"branches of `{what}` emit different brackets: " + " | ".join(sorted(repr(o) for o in live)))
        return live[0]

    @staticmethod
    def simple_cond(c):
        c = A.strip(c)
        if c.get("e") == "path":
            return True
        if c.get("e") == "unary" and c["op"] == "!":
            return Verifier.simple_cond(c["x"])
        if c.get("e") == "field":
            return Verifier.simple_cond(c["x"])
        if c.get("e") == "mcall" and not c["args"] and c["m"].startswith("is_"):
            return Verifier.simple_cond(c["recv"])
        return False

    @staticmethod
    def is_error_value(x):
        x = A.strip(x)
        return x.get("e") == "call" and x["f"].get("e") == "path" and x["f"]["p"].rsplit("::", 1)[-1] == "Err"
