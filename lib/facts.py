"""Fact extraction and caching.

Facts are always derived from /repo's *current working tree*: the source hash of
the workspace is computed on every invocation and the engines are re-run when it
differs from the hash stored beside the cached fact files.
"""
import fcntl
import hashlib
import json
import os
import shutil
import subprocess
import sys
import tempfile
import time

VERIF = os.path.dirname(os.path.dirname(os.path.abspath(__file__)))
REPO = os.environ.get("VERIF_REPO", "/repo")
CACHE = os.path.join(VERIF, ".cache")
MIRFACTS = os.path.join(VERIF, "engines/mirfacts/target/release/mirfacts")
ASTFACTS = os.path.join(VERIF, "engines/astfacts/target/release/astfacts")

# configuration name -> (cargo args for rsass-cli features, profile flag)
CONFIGS = {
    "default": {"features": [], "release": False},
    "cli-unimplemented-args": {"features": ["--features", "rsass-cli/unimplemented_args"], "release": False},
    "release": {"features": [], "release": True},
}

MEMBERS = ["rsass", "rsass-cli", "rsass-macros"]


def _source_files(repo):
    out = []
    for member in MEMBERS:
        base = os.path.join(repo, member)
        for root, dirs, files in os.walk(base):
            dirs[:] = [d for d in dirs if d not in ("target", ".git")]
            # tests/ directories are not part of the library / binary builds
            rel = os.path.relpath(root, base)
            if rel == "tests" or rel.startswith("tests" + os.sep):
                continue
            for f in files:
                if f.endswith(".rs") or f in ("Cargo.toml", "build.rs"):
                    out.append(os.path.join(root, f))
    for f in ("Cargo.toml", "Cargo.lock"):
        p = os.path.join(repo, f)
        if os.path.exists(p):
            out.append(p)
    return sorted(out)


def source_hash(repo=None):
    repo = repo or REPO
    h = hashlib.sha256()
    for p in _source_files(repo):
        h.update(os.path.relpath(p, repo).encode())
        h.update(b"\0")
        with open(p, "rb") as f:
            h.update(f.read())
        h.update(b"\0")
    # the engines are part of the key: a rebuilt extractor invalidates facts
    for eng in (MIRFACTS, ASTFACTS):
        try:
            st = os.stat(eng)
            h.update(f"{eng}:{st.st_size}:{int(st.st_mtime)}".encode())
        except OSError:
            h.update(f"{eng}:missing".encode())
    return h.hexdigest()


def _env():
    env = dict(os.environ)
    env["CARGO_NET_OFFLINE"] = "true"
    sysroot = subprocess.check_output(["rustc", "+nightly", "--print", "sysroot"], text=True).strip()
    env["LD_LIBRARY_PATH"] = sysroot + "/lib" + (":" + env["LD_LIBRARY_PATH"] if env.get("LD_LIBRARY_PATH") else "")
    env.pop("RUSTC_WRAPPER", None)
    return env


class ExtractionError(Exception):
    pass


def _run(cmd, cwd, env, log):
    p = subprocess.run(cmd, cwd=cwd, env=env, stdout=subprocess.PIPE, stderr=subprocess.PIPE, text=True)
    log.append({"cmd": " ".join(cmd), "rc": p.returncode, "stderr_tail": p.stderr[-2000:]})
    return p


def _extract(repo, outdir, config):
    """Run both engines over `repo` into `outdir`. Raises ExtractionError."""
    cfg = CONFIGS[config]
    log = []
    env = _env()
    os.makedirs(outdir, exist_ok=True)
    for f in os.listdir(outdir):
        os.unlink(os.path.join(outdir, f))
    if not os.path.exists(MIRFACTS) or not os.path.exists(ASTFACTS):
        raise ExtractionError("engines not built: run ./setup.sh")
    tdir = tempfile.mkdtemp(prefix="verif-tgt-")
    try:
        # ---- engine A: MIR facts
        e = dict(env)
        e["RUSTFLAGS"] = "-Zmir-opt-level=0 -Awarnings"
        e["RUSTC_WORKSPACE_WRAPPER"] = MIRFACTS
        e["MIRFACTS_OUT"] = outdir
        e["CARGO_TARGET_DIR"] = os.path.join(tdir, "mir")
        cmd = ["cargo", "+nightly", "check", "--offline", "-p", "rsass", "-p", "rsass-cli", "-p", "rsass-macros"]
        cmd += cfg["features"]
        if cfg["release"]:
            cmd.append("--release")
        p = _run(cmd, repo, e, log)
        if p.returncode != 0:
            raise ExtractionError("cargo check with mirfacts failed:\n" + p.stderr[-4000:])
        for want in ("mir-rsass-Rlib.json", "mir-rsass-Executable.json"):
            if not os.path.exists(os.path.join(outdir, want)):
                raise ExtractionError("mirfacts did not write " + want)
        shutil.rmtree(os.path.join(tdir, "mir"), ignore_errors=True)
        # ---- engine B: expanded source -> syn
        e = dict(env)
        e["RUSTFLAGS"] = "-Awarnings"
        e["CARGO_TARGET_DIR"] = os.path.join(tdir, "ast")
        for pkg, tgt, name in (("rsass", ["--lib"], "lib"), ("rsass-cli", ["--bin", "rsass"], "bin")):
            cmd = ["cargo", "+nightly", "rustc", "--offline", "-p", pkg] + tgt
            if pkg == "rsass-cli" and cfg["features"]:
                cmd += ["--features", "unimplemented_args"]
            cmd += ["--", "-Zunpretty=expanded"]
            p = _run(cmd, repo, e, log)
            if p.returncode != 0:
                raise ExtractionError("macro expansion failed for " + pkg + ":\n" + p.stderr[-4000:])
            exp = os.path.join(tdir, f"expanded-{name}.rs")
            with open(exp, "w") as f:
                f.write(p.stdout)
            out = os.path.join(outdir, f"ast-rsass-{name}.json")
            p2 = _run([ASTFACTS, exp, out, pkg], repo, env, log)
            if p2.returncode != 0 or not os.path.exists(out):
                raise ExtractionError("astfacts failed for " + pkg + ":\n" + p2.stderr[-2000:])
        # ---- unsafe token inventory over the unexpanded sources (per crate)
        unsafe = {}
        for member in MEMBERS:
            files = [p for p in _source_files(repo) if p.endswith(".rs") and p.startswith(os.path.join(repo, member) + os.sep)]
            p = _run([ASTFACTS, "--count-unsafe"] + files, repo, env, log)
            if p.returncode != 0:
                raise ExtractionError("unsafe inventory failed for " + member + ":\n" + p.stderr[-2000:])
            unsafe[member] = json.loads(p.stdout)
        with open(os.path.join(outdir, "unsafe.json"), "w") as f:
            json.dump(unsafe, f)
    finally:
        shutil.rmtree(tdir, ignore_errors=True)
    return log


def ensure(config="default", repo=None, quiet=False):
    """Return the directory holding up-to-date facts for `repo` under `config`.
    Facts are cached per source hash (the three most recent trees are kept)."""
    repo = repo or REPO
    os.makedirs(CACHE, exist_ok=True)
    tag = hashlib.sha256(os.path.abspath(repo).encode()).hexdigest()[:8]
    lock_path = os.path.join(CACHE, f"lock-{tag}-{config}")
    with open(lock_path, "w") as lf:
        fcntl.flock(lf, fcntl.LOCK_EX)
        h = source_hash(repo)
        outdir = os.path.join(CACHE, f"facts-{tag}-{config}-{h[:16]}")
        stamp = os.path.join(outdir, "STAMP.json")
        if os.path.exists(stamp):
            try:
                st = json.load(open(stamp))
                if st.get("hash") == h and st.get("ok"):
                    os.utime(outdir, None)
                    return outdir
            except Exception:
                pass
        t0 = time.time()
        if not quiet:
            print(f"[facts] extracting ({config}) from {repo} ...", file=sys.stderr)
        log = _extract(repo, outdir, config)
        with open(stamp, "w") as f:
            json.dump({"hash": h, "ok": True, "config": config, "repo": repo, "wall_s": round(time.time() - t0, 2), "log": log, "time": time.time()}, f)
        if not quiet:
            print(f"[facts] done in {time.time() - t0:.1f}s", file=sys.stderr)
        # prune: keep the three most recently used fact sets of this repo/config
        prefix = f"facts-{tag}-{config}-"
        dirs = sorted((d for d in os.listdir(CACHE) if d.startswith(prefix)), key=lambda d: os.path.getmtime(os.path.join(CACHE, d)), reverse=True)
        for d in dirs[3:]:
            shutil.rmtree(os.path.join(CACHE, d), ignore_errors=True)
        return outdir


def load(outdir, name):
    with open(os.path.join(outdir, name)) as f:
        return json.load(f)


def stamp(outdir):
    return json.load(open(os.path.join(outdir, "STAMP.json")))


def witness(outdir, repo=None):
    """Type-level witnesses (engine C): cargo check of engines/witness against repo/rsass.
    Cached beside the facts (same source hash).  Returns {"ok": bool, "negative_control_fails": bool, "stderr": str}."""
    repo = repo or REPO
    cache = os.path.join(outdir, "witness.json")
    if os.path.exists(cache):
        return json.load(open(cache))
    env = _env()
    tdir = tempfile.mkdtemp(prefix="verif-wit-")
    try:
        crate = os.path.join(tdir, "witness")
        shutil.copytree(os.path.join(VERIF, "engines", "witness"), crate, ignore=shutil.ignore_patterns("target"))
        ct = open(os.path.join(crate, "Cargo.toml")).read().replace('path = "/repo/rsass"', f'path = "{os.path.join(os.path.abspath(repo), "rsass")}"')
        open(os.path.join(crate, "Cargo.toml"), "w").write(ct)
        shutil.copy(os.path.join(repo, "Cargo.lock"), os.path.join(crate, "Cargo.lock"))
        e = dict(env)
        e["CARGO_TARGET_DIR"] = os.path.join(tdir, "target")
        e["RUSTFLAGS"] = "-Awarnings"
        p = subprocess.run(["cargo", "+nightly", "check", "--offline"], cwd=crate, env=e, stdout=subprocess.PIPE, stderr=subprocess.PIPE, text=True)
        ok = p.returncode == 0
        e["RUSTFLAGS"] = "-Awarnings --cfg witness_negative"
        n = subprocess.run(["cargo", "+nightly", "check", "--offline"], cwd=crate, env=e, stdout=subprocess.PIPE, stderr=subprocess.PIPE, text=True)
        neg = n.returncode != 0 and "E0277" in n.stderr
        res = {"ok": ok, "negative_control_fails": neg, "stderr": p.stderr[-3000:] if not ok else "", "negative_stderr_tail": n.stderr[-600:]}
    finally:
        shutil.rmtree(tdir, ignore_errors=True)
    with open(cache, "w") as f:
        json.dump(res, f)
    return res
