"""Program model over the facts emitted by engines/mirfacts."""
import json
import os
import re
from collections import defaultdict, deque

STD_TRAITS_VIA_GENERICS = (
    "std::cmp::PartialEq", "std::cmp::PartialOrd", "std::cmp::Ord", "std::cmp::Eq",
    "std::clone::Clone", "std::default::Default", "std::fmt::Display", "std::fmt::Debug",
    "std::iter::Iterator", "std::iter::IntoIterator", "std::io::Read", "std::hash::Hash",
    "std::convert::From", "std::convert::Into", "std::convert::TryFrom", "std::convert::AsRef",
    "std::ops::Deref", "std::ops::DerefMut", "std::ops::Add", "std::ops::Sub", "std::ops::Mul",
    "std::ops::Div", "std::ops::Rem", "std::ops::Neg", "std::ops::AddAssign", "std::iter::FromIterator",
    "std::iter::Sum", "std::iter::Product", "std::iter::Extend", "std::str::FromStr", "std::borrow::Borrow",
    "std::string::ToString", "std::iter::DoubleEndedIterator", "std::iter::ExactSizeIterator",
    "std::fmt::Write", "std::io::Write", "std::error::Error", "std::ops::Fn", "std::ops::FnMut", "std::ops::FnOnce",
    "std::ops::Not", "std::ops::Index", "std::ops::IndexMut", "std::ops::SubAssign", "std::ops::MulAssign",
    "std::cmp::PartialOrd", "nom::Parser", "nom::Input", "nom::Offset", "nom::Compare", "nom::FindSubstring",
    "nom::error::ParseError", "nom::error::ContextError", "nom::error::FromExternalError", "nom::AsBytes",
)


class Body:
    __slots__ = ("raw", "def_", "blocks", "locals", "prog", "_succ", "_pred", "_dom", "_pdom", "_defs")

    def __init__(self, raw, prog):
        self.raw = raw
        self.def_ = raw["def"]
        self.blocks = raw["blocks"]
        self.locals = raw["locals"]
        self.prog = prog
        self._succ = None
        self._pred = None
        self._dom = None
        self._pdom = None
        self._defs = None

    # ---- identity
    @property
    def file(self):
        return self.raw.get("file")

    @property
    def line(self):
        return self.raw.get("line")

    @property
    def kind(self):
        return self.raw.get("kind")

    @property
    def ret(self):
        return self.raw.get("ret")

    @property
    def argc(self):
        return self.raw.get("argc", 0)

    def where(self, bb=None):
        line = self.line
        if bb is not None:
            t = self.blocks[bb]["term"]
            line = t.get("line", line)
        return f"{self.file}:{line}"

    # ---- CFG
    def term(self, bb):
        return self.blocks[bb]["term"]

    def successors(self, bb, unwind=False):
        t = self.blocks[bb]["term"]
        k = t["k"]
        out = []
        if k == "goto":
            out.append(t["target"])
        elif k == "switch":
            out.extend(x[1] for x in t["targets"])
            out.append(t["otherwise"])
        elif k in ("call", "drop", "assert"):
            if t.get("target") is not None:
                out.append(t["target"])
            if unwind and t.get("unwind") is not None:
                out.append(t["unwind"])
        return out

    def succ_map(self):
        if self._succ is None:
            self._succ = [self.successors(i) for i in range(len(self.blocks))]
        return self._succ

    def pred_map(self):
        if self._pred is None:
            p = [[] for _ in self.blocks]
            for i, ss in enumerate(self.succ_map()):
                for s in ss:
                    p[s].append(i)
            self._pred = p
        return self._pred

    def reachable_blocks(self, start=0, avoid=()):
        avoid = set(avoid)
        seen = set()
        if start in avoid:
            return seen
        dq = deque([start])
        seen.add(start)
        sm = self.succ_map()
        while dq:
            b = dq.popleft()
            for s in sm[b]:
                if s not in seen and s not in avoid:
                    seen.add(s)
                    dq.append(s)
        return seen

    def dominators(self):
        """dom[b] = set of blocks dominating b (normal edges only, from block 0)."""
        if self._dom is not None:
            return self._dom
        n = len(self.blocks)
        reach = self.reachable_blocks(0)
        order = self._rpo(0)
        allb = set(reach)
        dom = {b: set(allb) for b in reach}
        dom[0] = {0}
        pm = self.pred_map()
        changed = True
        while changed:
            changed = False
            for b in order:
                if b == 0:
                    continue
                ps = [p for p in pm[b] if p in reach]
                if not ps:
                    continue
                new = set.intersection(*(dom[p] for p in ps)) | {b}
                if new != dom[b]:
                    dom[b] = new
                    changed = True
        self._dom = dom
        return dom

    def _rpo(self, start):
        seen = set()
        post = []
        sm = self.succ_map()
        stack = [(start, iter(sm[start]))]
        seen.add(start)
        while stack:
            b, it = stack[-1]
            adv = False
            for s in it:
                if s not in seen:
                    seen.add(s)
                    stack.append((s, iter(sm[s])))
                    adv = True
                    break
            if not adv:
                post.append(b)
                stack.pop()
        return list(reversed(post))

    def return_blocks(self):
        return [i for i, b in enumerate(self.blocks) if b["term"]["k"] == "return"]

    # ---- statements / calls
    def calls(self):
        for i, b in enumerate(self.blocks):
            t = b["term"]
            if t["k"] == "call":
                yield i, t

    def stmts(self):
        for i, b in enumerate(self.blocks):
            for j, s in enumerate(b["stmts"]):
                yield i, j, s

    def defs(self):
        """local -> list of ('stmt', bb, idx, stmt) | ('call', bb, term) definitions of the bare local."""
        if self._defs is None:
            d = defaultdict(list)
            for i, j, s in self.stmts():
                if s["k"] == "assign" and not s["p"][1]:
                    d[s["p"][0]].append(("stmt", i, j, s))
            for i, t in self.calls():
                if not t["dest"][1]:
                    d[t["dest"][0]].append(("call", i, t))
            self._defs = d
        return self._defs

    def local_ty(self, l):
        return self.locals[l]["ty"]

    def local_name(self, l):
        return self.locals[l].get("name")


def callee_name(t):
    """Resolved def name of a call terminator (or None for indirect calls)."""
    c = t["callee"]
    if c.get("indirect"):
        return None
    return c.get("def")


def callee_orig(t):
    c = t["callee"]
    if c.get("indirect"):
        return None
    return c.get("orig")


def operand_locals(op):
    if op["k"] in ("copy", "move"):
        return [op["p"][0]]
    return []


def iter_operands_rv(rv):
    for o in rv.get("ops", []) or []:
        yield o


def iter_consts_body(raw):
    """All constant operands of a raw body (including promoted bodies)."""
    def from_blocks(blocks):
        for b in blocks:
            for s in b["stmts"]:
                if s["k"] == "assign":
                    for o in s["rv"].get("ops", []) or []:
                        if o["k"] == "const":
                            yield o
            t = b["term"]
            if t["k"] == "call":
                for o in t["args"]:
                    if o["k"] == "const":
                        yield o
                c = t["callee"]
                if c.get("indirect") and c["op"]["k"] == "const":
                    yield c["op"]
            elif t["k"] == "switch":
                if t["discr"]["k"] == "const":
                    yield t["discr"]
            elif t["k"] == "assert":
                for o in t["ops"]:
                    if o["k"] == "const":
                        yield o
    yield from from_blocks(raw["blocks"])
    for p in raw.get("promoted", []):
        yield from from_blocks(p["blocks"])


class Program:
    def __init__(self, facts):
        self.facts = facts
        self.crate = facts["crate"]
        self.crate_type = facts["crate_type"]
        self.bodies = {}
        dups = []
        for raw in facts["bodies"]:
            if raw["def"] in self.bodies:
                dups.append(raw["def"])
            self.bodies[raw["def"]] = Body(raw, self)
        self.duplicate_defs = dups
        self.adts = {a["path"]: a for a in facts["adts"]}
        self.impls = facts["impls"]
        self.statics = {s["def"]: s for s in facts["statics"]}
        # trait method -> impl methods
        self.trait_impls = defaultdict(list)
        self.impls_by_type = defaultdict(list)
        for im in self.impls:
            for impl_item, trait_item in im["items"]:
                if trait_item:
                    self.trait_impls[trait_item].append(impl_item)
            self.impls_by_type[_head_type(im["self_ty"])].append(im)
        self._cg = None
        self._closure_coercions = None

    @classmethod
    def load(cls, path):
        with open(path) as f:
            return cls(json.load(f))

    # ---- anchors
    def find(self, suffix, kind=None):
        """All bodies whose def name ends with `suffix` at a path boundary."""
        out = []
        for d, b in self.bodies.items():
            if d == suffix or d.endswith("::" + suffix) or d.endswith(">::" + suffix) or _norm(d).endswith(_norm(suffix)) and _boundary(_norm(d), _norm(suffix)):
                if kind is None or b.kind == kind:
                    out.append(b)
        return out

    def one(self, suffix):
        c = self.find(suffix)
        if len(c) != 1:
            raise AnchorLost(suffix, [b.def_ for b in c])
        return c[0]

    def closures_of(self, parent_def):
        return sorted((b for b in self.bodies.values() if b.raw.get("parent") == parent_def), key=lambda b: _closure_ord(b.def_))

    # ---- call graph
    def unsize_closure_targets(self):
        """dyn type string -> set of closure/fn defs coerced to it anywhere."""
        if self._closure_coercions is None:
            m = defaultdict(set)
            for b in self.bodies.values():
                blocksets = [b.raw["blocks"]] + [p["blocks"] for p in b.raw.get("promoted", [])]
                for blocks in blocksets:
                    for blk in blocks:
                        for s in blk["stmts"]:
                            if s["k"] != "assign":
                                continue
                            rv = s["rv"]
                            if rv["k"] == "cast" and "Unsize" in rv.get("cast", ""):
                                m[_dyn_of(rv["ty"])].add((rv["from_ty"], b.def_))
            self._closure_coercions = m
        return self._closure_coercions

    def callgraph(self):
        if self._cg is not None:
            return self._cg
        cg = {}
        local_adt_names = sorted(self.adts.keys(), key=len, reverse=True)
        adt_re = re.compile(r"(?<![\w:])(" + "|".join(re.escape(a) for a in local_adt_names) + r")(?![\w])") if local_adt_names else None
        # dyn Fn targets: closures / fn items unsize-coerced to a `dyn Fn..` type anywhere in the crate
        dyn_targets = defaultdict(set)
        all_dyn_fn_targets = set()
        for b in self.bodies.values():
            blocksets = [b.raw["blocks"]] + [p["blocks"] for p in b.raw.get("promoted", [])]
            for blocks in blocksets:
                for blk in blocks:
                    for s in blk["stmts"]:
                        if s["k"] == "assign" and s["rv"]["k"] == "cast" and s["rv"].get("to_dyn"):
                            for dty in s["rv"]["to_dyn"]:
                                for fd in s["rv"].get("from_defs", []):
                                    dyn_targets[_dyn_key(dty)].add(fd)
                                    if "Fn" in dty:
                                        all_dyn_fn_targets.add(fd)
        self.dyn_targets = dyn_targets
        for b in self.bodies.values():
            edges = defaultdict(list)  # target -> [reason]
            blocksets = [("", b.raw["blocks"])] + [(f"promoted{i}", p["blocks"]) for i, p in enumerate(b.raw.get("promoted", []))]
            for tag, blocks in blocksets:
                for bi, blk in enumerate(blocks):
                    for s in blk["stmts"]:
                        if s["k"] != "assign":
                            continue
                        rv = s["rv"]
                        if rv["k"] == "agg" and rv.get("agg") == "closure":
                            edges[rv["closure"]].append(("closure-value", bi))
                        for o in rv.get("ops", []) or []:
                            self._const_edges(o, edges, bi)
                    t = blk["term"]
                    k = t["k"]
                    if k == "call":
                        c = t["callee"]
                        for o in t["args"]:
                            self._const_edges(o, edges, bi)
                        if c.get("indirect"):
                            self._const_edges(c["op"], edges, bi)
                            edges["<indirect:" + c["ty"] + ">"].append(("indirect", bi))
                            continue
                        res = c.get("res")
                        d = c["def"]
                        if res in ("item", "closure_once_shim", "fnptr_shim", "reify_shim", "clone_shim", "intrinsic", "drop_glue", "vtable_shim", "other"):
                            edges[d].append(("call", bi))
                        elif res == "virtual":
                            edges["<virtual:" + c["orig"] + ">"].append(("virtual", bi))
                            for impl in self.trait_impls.get(c["orig"], []):
                                edges[impl].append(("virtual-cha", bi))
                            if c["orig"] in ("std::ops::Fn::call", "std::ops::FnMut::call_mut", "std::ops::FnOnce::call_once"):
                                tg = dyn_targets.get(_dyn_key(c.get("self_ty", "")))
                                if not tg:
                                    tg = all_dyn_fn_targets
                                for fd in tg:
                                    edges[fd].append(("dyn-fn-cha", bi))
                        else:  # unresolved trait call on a type parameter / opaque type
                            edges["<unresolved:" + c["orig"] + ">"].append(("unresolved", bi))
                            for impl in self.trait_impls.get(c["orig"], []):
                                edges[impl].append(("trait-cha", bi))
                        # generic external callee instantiated with local types
                        if c.get("def_crate") != self.crate or res in ("unresolved", "virtual"):
                            if adt_re:
                                mentioned = set()
                                for ga in c.get("gargs", []):
                                    mentioned.update(adt_re.findall(ga))
                                for ty in mentioned:
                                    for im in self.impls_by_type.get(ty, []):
                                        if im["trait"] and im["trait"] in STD_TRAITS_VIA_GENERICS:
                                            for impl_item, _ in im["items"]:
                                                edges[impl_item].append(("generic-instantiation", bi))
                    elif k == "drop":
                        for d in t.get("dtors", []):
                            if not d.startswith("dyn:"):
                                edges[d].append(("drop", bi))
                            else:
                                # dropping a trait object: every local Drop impl may run
                                for im in self.impls:
                                    if im["trait"] == "std::ops::Drop":
                                        for impl_item, _ in im["items"]:
                                            edges[impl_item].append(("drop-dyn", bi))
            cg[b.def_] = edges
        self._cg = cg
        return cg

    def _const_edges(self, o, edges, bi):
        if o["k"] != "const":
            return
        if "fn" in o:
            c = o["fn"]
            d = c["def"]
            if c.get("res") in ("unresolved", "virtual"):
                for impl in self.trait_impls.get(c["orig"], []):
                    edges[impl].append(("fn-value-cha", bi))
                edges["<unresolved:" + c["orig"] + ">"].append(("fn-value", bi))
            else:
                edges[d].append(("fn-value", bi))
        if "closure" in o:
            edges[o["closure"]].append(("closure-value", bi))
        if "static" in o:
            edges[o["static"]].append(("static-ref", bi))
        if "named" in o:
            edges[o["named"]].append(("const-ref", bi))
        if "fnptr" in o:
            edges[o["fnptr"]].append(("fn-value", bi))

    def reachable(self, roots):
        """Closure of the call graph from root def names. Returns {def: (pred, reason)}."""
        cg = self.callgraph()
        seen = {}
        dq = deque()
        for r in roots:
            if r not in seen:
                seen[r] = (None, "root")
                dq.append(r)
        while dq:
            d = dq.popleft()
            for tgt, reasons in cg.get(d, {}).items():
                if tgt not in seen:
                    seen[tgt] = (d, reasons[0][0])
                    dq.append(tgt)
        return seen

    def path_to(self, seen, d):
        out = []
        while d is not None:
            out.append(d)
            d = seen[d][0]
        return list(reversed(out))

    def callers_of(self, target):
        cg = self.callgraph()
        return sorted(d for d, e in cg.items() if target in e)


class AnchorLost(Exception):
    def __init__(self, anchor, candidates):
        super().__init__(f"anchor {anchor!r}: expected exactly one body, found {len(candidates)}: {candidates[:5]}")
        self.anchor = anchor
        self.candidates = candidates


def _norm(s):
    return s.replace("<", "").replace(">", "")


def _boundary(d, suffix):
    i = len(d) - len(suffix)
    return i == 0 or d[i - 1] in ":<> "


def _head_type(ty):
    """`&'a mut foo::Bar<'a, T>` -> `foo::Bar`"""
    t = ty
    t = re.sub(r"^&('\w+ )?(mut )?", "", t)
    return t.split("<", 1)[0]


def _dyn_key(ty):
    """Normalise a `dyn Trait` type string: drop lifetimes and parentheses."""
    t = re.sub(r"for<[^>]*> ", "", ty)
    t = re.sub(r"&'\w+ ", "&", t)
    t = re.sub(r" \+ '\w+", "", t)
    t = re.sub(r"'\w+,? ?", "", t)
    return t.strip("()")


def _closure_ord(d):
    m = re.search(r"\{closure#(\d+)\}$", d)
    return int(m.group(1)) if m else -1


def short(defname):
    """Readable short form: strip module paths inside a def name."""
    return re.sub(r"(?<![A-Za-z0-9_])(?:[a-z_0-9]+::)+(?=[A-Za-z_{<])", "", defname)
