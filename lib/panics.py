"""F1 — may-panic sites: inventory, provenance keys and sound local discharge rules."""
import re

from . import sym as symmod
from .mir import callee_name, callee_orig

INT = r"(?:i8|i16|i32|i64|i128|isize|u8|u16|u32|u64|u128|usize)"

# callee patterns (regex on the resolved def name / original trait method) -> panic kind
PANIC_API = [
    (r"^<std::option::Option<T>>::(unwrap|expect)$", "unwrap"),
    (r"^<std::result::Result<T, E>>::(unwrap|expect|unwrap_err|expect_err)$", "unwrap"),
    (r"^(core|std)::panicking::", "explicit-panic"),
    (r"^std::rt::(begin_panic|panic_fmt)", "explicit-panic"),
    (r"^(core|std)::option::(unwrap_failed|expect_failed)", "explicit-panic"),
    (r"^(core|std)::result::unwrap_failed", "explicit-panic"),
    (r" as std::ops::Index(Mut)?<.*>>::index(_mut)?$", "index"),
    (r"^<\[T\]>::(split_at|split_at_mut|copy_from_slice|clone_from_slice|swap|rotate_left|rotate_right|windows|chunks|chunks_exact|chunks_mut|rchunks|select_nth_unstable.*|copy_within|swap_with_slice)$", "slice-api"),
    (r"^<str>::(split_at|split_at_mut)$", "slice-api"),
    (r"^<std::vec::Vec<T, A>>::(insert|remove|swap_remove|drain|split_off|splice|extend_from_within)$", "vec-api"),
    (r"^<std::collections::VecDeque<T, A>>::(insert|remove|swap|drain|split_off|range|range_mut|rotate_left|rotate_right)$", "vec-api"),
    (r"^<std::string::String>::(insert|insert_str|remove|drain|split_off|replace_range|truncate)$", "string-api"),
    (rf"^<&?{INT} as std::ops::(Add|Sub|Mul|Div|Rem|Neg|Shl|Shr|AddAssign|SubAssign|MulAssign|DivAssign|RemAssign|ShlAssign|ShrAssign)(<.*>)?>::\w+$", "int-op-call"),
    (rf"^<{INT}>::(abs|pow|ilog|ilog2|ilog10|isqrt|next_power_of_two|div_euclid|rem_euclid|div_ceil|next_multiple_of|abs_diff_never|strict_\w+)$", "int-op-call"),
    (rf"^<{INT} as std::iter::(Sum|Product)(<.*>)?>::(sum|product)$", "int-op-call"),
    (rf"^<{INT}>::from_str_radix$", "radix"),
    (r"^<char>::(to_digit|from_digit|is_digit)$", "radix"),
    (r"^std::char::from_digit$", "radix"),
    (r"^std::iter::Iterator::step_by$", "step-by"),
    (r"^<std::cell::RefCell<T>>::(borrow|borrow_mut)$", "refcell"),
    (r"^<\[T\]>::(sort_by|sort_unstable_by|sort_by_key|sort_unstable_by_key|sort_by_cached_key|sort|sort_unstable)$", "sort-total-order"),
    (r"^nom::Finish::finish$", "nom-finish"),
    (r"^fastrand::", "fastrand-range"),
    (r"^<std::time::Instant as std::ops::(Sub|Add)", "time-arith"),
    (r"^std::process::(exit|abort)$", "process-exit"),
    (r"^<std::sync::(Mutex|RwLock)<T>>::(get_mut|into_inner)$", "poison"),
    (r"^std::slice::from_raw_parts", "unsafe-api"),
]
PANIC_API = [(re.compile(p), k) for p, k in PANIC_API]

ASSERT_KINDS = ("bounds", "overflow:Add", "overflow:Sub", "overflow:Mul", "overflow:Neg", "overflow:Shl", "overflow:Shr", "div0", "rem0")


def classify_call(t):
    c = t["callee"]
    if c.get("indirect"):
        return None
    for name in (c.get("def"), c.get("orig")):
        if not name:
            continue
        for rx, kind in PANIC_API:
            if rx.search(name):
                return kind
    return None


class Site:
    __slots__ = ("body", "bb", "kind", "what", "term", "prov", "line", "macros")

    def __init__(self, body, bb, kind, what, term):
        self.body = body
        self.bb = bb
        self.kind = kind
        self.what = what
        self.term = term
        self.prov = None
        self.line = term.get("line")
        self.macros = term.get("macros", [])


def sites_of(body):
    out = []
    for bi, blk in enumerate(body.blocks):
        if blk["cleanup"]:
            continue
        t = blk["term"]
        if t["k"] == "assert":
            if t["kind"] in ASSERT_KINDS:
                out.append(Site(body, bi, "assert", t["kind"], t))
        elif t["k"] == "call":
            k = classify_call(t)
            if k:
                out.append(Site(body, bi, k, callee_name(t), t))
    return out


# ---------------------------------------------------------------- provenance classes (for keys)

def prov_class(S, body, op):
    """Coarse, line-free description of where an operand comes from."""
    t = symmod.strip_transparent(S.operand(body, op))
    return term_class(t, body)


def term_class(t, body=None, depth=0):
    if not isinstance(t, tuple) or not t:
        return "?"
    k = t[0]
    if k == "const":
        v = t[1]
        if isinstance(v, str) and len(v) > 12:
            v = v[:12] + "…"
        return f"const({v})"
    if k == "param":
        name = None
        if body is not None and t[1] < len(body.locals):
            name = body.local_name(t[1])
        return "param " + (name or f"#{t[1]}") + "".join(t[2])
    if k == "call":
        return "call " + _short(t[1])
    if k == "proj":
        return term_class(t[1], body, depth + 1) + "".join(p for p in t[2] if not p.startswith("as "))
    if k == "binop":
        if depth > 2:
            return t[1] + "(…)"
        return f"{t[1]}({term_class(t[2], body, depth + 1)}, {term_class(t[3], body, depth + 1)})"
    if k == "unop":
        return f"{t[1]}({term_class(t[2], body, depth + 1)})"
    if k == "phi":
        cs = sorted({term_class(x, body, depth + 1) for x in t[1]})
        return "phi[" + " | ".join(cs[:4]) + "]"
    if k == "agg":
        return "agg " + _short(str(t[1]))
    if k == "static":
        return "static " + _short(t[1])
    return k


def _short(name):
    return re.sub(r"(?<![A-Za-z0-9_])(?:[a-z_0-9]+::)+(?=[A-Za-z_<{\[])", "", name or "?")


def describe(S, site):
    """Provenance string used in the instance key."""
    b = site.body
    t = site.term
    if site.kind == "assert":
        ops = t["ops"]
        return f"{site.what}(" + ", ".join(prov_class(S, b, o) for o in ops) + ")"
    args = t["args"]
    name = _short(site.what)
    if site.kind == "unwrap":
        return f"{name.rsplit('::', 1)[-1]}@{prov_class(S, b, args[0])}" if args else name
    if site.kind == "explicit-panic":
        m = [x for x in site.macros if not x.startswith("$crate") and not x.startswith("desugar")]
        return f"{name}[{'/'.join(m[-2:])}]"
    if site.kind in ("index", "slice-api", "vec-api", "string-api"):
        recv = t.get("arg_tys", ["?"])[0]
        recv = _short(re.sub(r"^&(mut )?", "", recv))
        rest = ", ".join(prov_class(S, b, o) for o in args[1:])
        return f"{name.rsplit('::', 1)[-1]} on {recv}[{rest}]"
    return f"{name}(" + ", ".join(prov_class(S, b, o) for o in args) + ")"


# ---------------------------------------------------------------- discharge rules

LEN_LIKE = re.compile(r"::(len|count|chars|position|rposition|find|rfind|offset|location_offset|char_indices|enumerate|bytes|capacity|index_of|line|len_utf8|leading_zeros|trailing_zeros|count_ones)\b|Iterator>::(count|position)|SourcePos|Span")


def contains_call(t, rx):
    for c in symmod.calls_in(t):
        if rx.search(c):
            return True
    return False


def discharge(S, site, prog):
    """Return (rule, detail) if a sound local rule shows the site cannot fire, else None."""
    b = site.body
    t = site.term
    if site.kind == "unwrap":
        term = S.operand(b, t["args"][0])
        st = symmod.strip_transparent(term)
        calls = symmod.calls_in(term)
        # (a) poison: lock().unwrap()
        if calls and re.search(r"^<std::sync::(Mutex|RwLock)<T>>::(lock|read|write|try_lock)$", calls[0]):
            return ("poison", calls[0])
        if st[0] == "call" and re.search(r"^<std::sync::(Mutex|RwLock)<T>>::(lock|read|write)$", st[1]):
            return ("poison", st[1])
        # (b') constant argument: f(const, ...).expect(..) with f applied to literals only
        if st[0] == "call" and st[2] and all(a[0] == "const" for a in st[2]):
            return ("constant-argument", f"{_short(st[1])}(" + ", ".join(term_class(a) for a in st[2]) + ")")
        # (c) dominating discriminant test on the same place
        d = dominating_variant_test(b, site.bb, t["args"][0])
        if d:
            return ("dominating-test", d)
        return None
    if site.kind == "assert":
        kind = t["kind"]
        ops = t["ops"]
        if kind in ("div0", "rem0"):
            # the assert condition is `!(divisor == 0)`; the message operand is the dividend
            cond = symmod.strip_transparent(S.operand(b, t["cond"]))
            if cond[0] == "binop" and cond[1] == "Eq":
                for x, y in ((cond[2], cond[3]), (cond[3], cond[2])):
                    if y == ("const", "0") and x[0] == "const" and str(x[1]) not in ("0", "0.0"):
                        return ("constant-operand", f"divisor {x[1]}")
            return None
        if kind == "overflow:Add":
            # (d) small constant added to a length-like usize
            a, c = ops
            for x, y in ((a, c), (c, a)):
                if y["k"] == "const" and _small_const(y) and _is_usize(b, x):
                    tx = S.operand(b, x)
                    if _length_like(tx):
                        return ("length-arithmetic", f"{term_class(symmod.strip_transparent(tx), b)} + {y.get('v')}")
            # (d') small constant added to a closure parameter that is an index by construction:
            #      the closure is handed to Option::map/map_or/.. on the result of position()/find()/len()...
            for x, y in ((a, c), (c, a)):
                if y["k"] == "const" and _small_const(y) and _is_usize(b, x):
                    r = closure_index_param(S, b, x, prog)
                    if r:
                        return ("index-parameter", r)
            # len + len
            if _is_usize(b, a) and _is_usize(b, c):
                ta, tc = S.operand(b, a), S.operand(b, c)
                if _length_like(ta) and _length_like(tc):
                    return ("length-arithmetic", "len + len")
            return None
        if kind == "bounds":
            ln, idx = (symmod.strip_transparent(S.operand(b, o)) for o in ops)
            if idx[0] == "const" and ln[0] == "const":
                try:
                    if int(idx[1]) < int(ln[1]):
                        return ("constant-operand", f"[{idx[1]}] of {ln[1]}")
                except Exception:
                    pass
            # (e) constant index under a dominating test of the length of the same slice
            if idx[0] == "const" and str(idx[1]).isdigit() and ln[0] == "unop":
                g = len_guard(S, b, site.bb, ln[2], int(idx[1]), prog)
                if g:
                    return ("length-test", g)
            return None
        if kind == "overflow:Sub":
            g = dominating_compare(b, site.bb, ops[0], ops[1], S)
            if g:
                return ("dominating-test", g)
            return None
        return None
    if site.kind in ("vec-api", "string-api"):
        name = site.what or ""
        if name.endswith("::insert") or name.endswith("::insert_str"):
            idx = t["args"][1]
            if idx["k"] == "const" and str(idx.get("v")) == "0":
                return ("constant-operand", "insert at 0")
        if name.endswith("::drain"):
            ty = t.get("arg_tys", ["", ""])[1]
            if ty == "std::ops::RangeFull":
                return ("constant-operand", "drain(..)")
        return None
    if site.kind == "index":
        ty = t.get("arg_tys", ["", ""])
        if len(ty) > 1 and ty[1] == "std::ops::RangeFull":
            return ("constant-operand", "[..]")
        # (e) v[k] with a literal k under a dominating test of v.len() (also when v is captured by a closure
        #     that is created under the test)
        if len(t["args"]) == 2 and t["args"][1]["k"] == "const" and str(t["args"][1].get("v", "")).isdigit() and len(ty) > 1 and ty[1] == "usize":
            coll = symmod.strip_transparent(S.operand(b, t["args"][0]))
            g = len_guard(S, b, site.bb, coll, int(t["args"][1]["v"]), prog)
            if g:
                return ("length-test", g)
        return None
    if site.kind == "radix":
        for o in t["args"]:
            if o["k"] == "const" and str(o.get("v", "")).isdigit() and 2 <= int(o["v"]) <= 36:
                return ("constant-operand", f"radix {o['v']}")
        return None
    return None


def _small_const(o):
    try:
        return 0 <= int(o.get("v")) <= 16
    except Exception:
        return False


def _is_usize(body, o):
    if o["k"] in ("copy", "move"):
        p = o["p"]
        if not p[1]:
            return body.local_ty(p[0]) == "usize"
        return True
    return o.get("ty") == "usize"


def _length_like(t):
    """Does the term bottom out in len()/count()/position()/an enumerate index / a span offset?"""
    s = repr(t)
    return bool(LEN_LIKE.search(s))


def dominating_variant_test(body, bb, op):
    """`x.unwrap()` where a switch on discriminant(x) dominates bb on the Some/Ok edge."""
    if op["k"] not in ("copy", "move"):
        return None
    # find the root local the unwrapped value was moved from
    l = op["p"][0]
    roots = {l}
    cur = l
    for _ in range(4):
        ds = body.defs().get(cur, [])
        if len(ds) == 1 and ds[0][0] == "stmt" and ds[0][3]["rv"]["k"] == "use" and ds[0][3]["rv"]["ops"][0]["k"] in ("copy", "move") and not ds[0][3]["rv"]["ops"][0]["p"][1]:
            cur = ds[0][3]["rv"]["ops"][0]["p"][0]
            roots.add(cur)
        else:
            break
    dom = body.dominators().get(bb, set())
    for d in dom:
        t = body.blocks[d]["term"]
        if t["k"] != "switch" or not t.get("discr_of"):
            continue
        p = t["discr_of"]
        if p[0] in roots and not [x for x in p[1] if x != "*"]:
            good = [tg for _, tg, n in t["targets"] if n in ("Some", "Ok")]
            if not good:
                names = [n for _, _, n in t["targets"]]
                if names and all(n in ("None", "Err") for n in names):
                    good = [t["otherwise"]]
            for g in good:
                if g in dom or g == bb:
                    # single definition of the root (no write in between)
                    if all(len(body.defs().get(r, [])) <= 1 for r in roots):
                        return f"switch on discriminant of _{p[0]} ({'/'.join(str(n) for _, _, n in t['targets'])}) dominates"
    return None


def dominating_compare(body, bb, a, c, S):
    """`a - c` guarded by a dominating branch on `a >= c` / `c <= a` / `c < a` / `a > c` (same operands)."""
    ta = symmod.strip_transparent(S.operand(body, a))
    tc = symmod.strip_transparent(S.operand(body, c))
    if symmod._has_unknown(ta) or symmod._has_unknown(tc):
        return None
    dom = body.dominators().get(bb, set())
    for d in dom:
        t = body.blocks[d]["term"]
        if t["k"] != "switch" or t["discr"]["k"] not in ("copy", "move"):
            continue
        cond = symmod.strip_transparent(S.operand(body, t["discr"]))
        if cond[0] != "binop":
            continue
        op, x, y = cond[1], cond[2], cond[3]
        truth = None
        if (x, y) == (ta, tc) and op in ("Ge", "Gt"):
            truth = True
        elif (x, y) == (tc, ta) and op in ("Le", "Lt"):
            truth = True
        elif (x, y) == (ta, tc) and op in ("Lt",):
            truth = False
        elif (x, y) == (tc, ta) and op in ("Gt",):
            truth = False
        if truth is None:
            continue
        # which edge is taken when the comparison has value `truth`?
        false_t = None
        for v, tg, _ in t["targets"]:
            if v == "0":
                false_t = tg
        true_t = t["otherwise"]
        edge = true_t if truth else false_t
        if edge is not None and (edge in dom or edge == bb):
            return f"branch on {op} of the same operands dominates"
    return None


# ---------------------------------------------------------------- length tests and closure parameters

LEN_CALL = re.compile(r"^<(std::vec::Vec<T, A>|\[T\]|std::collections::VecDeque<T, A>|ordermap::OrderMap<K, V>|str|std::string::String)>::len$")
OPTION_MAPPERS = re.compile(r"^<std::option::Option<T>>::(map|map_or|map_or_else|and_then|is_some_and|is_none_or|filter|inspect|into_iter|iter)$")


def _same_place(x, y):
    return repr(symmod.strip_transparent(x)) == repr(symmod.strip_transparent(y))


def _is_len_of(t, coll):
    t = symmod.strip_transparent(t)
    if t[0] == "call" and LEN_CALL.search(t[1]) and t[2]:
        return _same_place(t[2][0], coll)
    if t[0] == "unop" and t[1] in ("PtrMetadata", "Len") and len(t) > 2:
        return _same_place(t[2], coll)
    return False


def _len_guard_local(S, body, bb, coll, k):
    """a switch dominating bb on an edge that implies len(coll) > k"""
    dom = body.dominators().get(bb, set())
    for d in sorted(dom):
        t = body.blocks[d]["term"]
        if t["k"] != "switch":
            continue
        cond = symmod.strip_transparent(S.operand(body, t["discr"]))
        false_t = [tg for v, tg, _ in t["targets"] if str(v) == "0"]
        true_t = t["otherwise"]

        def on(edge):
            return edge is not None and (edge in dom or edge == bb)
        if cond[0] == "binop" and cond[1] in ("Eq", "Ne", "Ge", "Gt", "Le", "Lt"):
            for l, c, op in ((cond[2], cond[3], cond[1]), (cond[3], cond[2], {"Ge": "Le", "Gt": "Lt", "Le": "Ge", "Lt": "Gt"}.get(cond[1], cond[1]))):
                if not (_is_len_of(l, coll) and c[0] == "const" and str(c[1]).isdigit()):
                    continue
                n = int(c[1])
                ft = false_t[0] if len(false_t) == 1 else None
                if op == "Eq" and n > k and on(true_t) and true_t != ft:
                    return f"len == {n} on the dominating edge"
                if op == "Ge" and n > k and on(true_t) and true_t != ft:
                    return f"len >= {n} on the dominating edge"
                if op == "Gt" and n >= k and on(true_t) and true_t != ft:
                    return f"len > {n} on the dominating edge"
                if op == "Ne" and n > k and on(ft):
                    return f"len == {n} on the dominating edge"
                if op == "Lt" and n > k and on(ft):
                    return f"len >= {n} on the dominating edge"
                if op == "Le" and n >= k and on(ft):
                    return f"len > {n} on the dominating edge"
        if _is_len_of(cond, coll):
            for v, tg, _ in t["targets"]:
                if str(v).isdigit() and int(v) > k and on(tg) and tg != t["otherwise"]:
                    return f"match arm len == {v} dominates"
    return None


def len_guard(S, body, bb, coll, k, prog):
    g = _len_guard_local(S, body, bb, coll, k)
    if g:
        return g
    # the collection is captured by this closure: look for the test where the closure is created
    coll = symmod.strip_transparent(coll)
    parent = body.raw.get("parent")
    if parent and parent in prog.bodies and coll[0] == "param" and coll[1] == 1 and coll[2]:
        m = re.match(r"^\.(\d+)$", coll[2][0])
        if not m or len(coll[2]) != 1:
            return None
        pb = prog.bodies[parent]
        for bi, si, st in pb.stmts():
            if st["k"] == "assign" and st["rv"]["k"] == "agg" and st["rv"].get("closure") == body.def_:
                ops = st["rv"]["ops"]
                i = int(m.group(1))
                if i < len(ops):
                    captured = symmod.strip_transparent(S.operand(pb, ops[i]))
                    g = _len_guard_local(S, pb, bi, captured, k)
                    if g:
                        return g + " (at the creation of the capturing closure)"
    return None


def closure_index_param(S, body, op, prog):
    """op is the (whole) argument of this closure and every use of the closure hands it an index:
    the closure is an argument of Option::map / map_or / and_then .. applied to a length-like value."""
    if op["k"] not in ("copy", "move") or body.kind != "Closure":
        return None
    term = symmod.strip_transparent(S.operand(body, op))
    if not (term[0] == "param" and 2 <= term[1] <= body.argc and not term[2]):
        return None
    parent = body.raw.get("parent")
    if not parent or parent not in prog.bodies:
        return None
    pb = prog.bodies[parent]
    uses = []
    for bi, t in pb.calls():
        for defs in t.get("arg_defs", []) or []:
            if body.def_ in defs:
                uses.append((bi, t))
    if not uses:
        return None
    for bi, t in uses:
        name = callee_name(t) or ""
        if not OPTION_MAPPERS.search(name) or not t["args"]:
            return None
        recv = S.operand(pb, t["args"][0])
        if not _length_like(recv):
            return None
    return f"closure parameter fed by {_short(callee_name(uses[0][1]))} of a length-like value"
