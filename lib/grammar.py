"""F7 — FIRST byte sets of nom combinator expressions and alternative shadowing."""
from . import ast as A

ALL = frozenset(range(256))


class First:
    """first: set of bytes the parser can start with; eps: can succeed without consuming;
    total: succeeds whenever the next byte is in `first` (cannot fail after looking at it)."""

    def __init__(self, first, eps=False, total=False, known=True):
        self.first = frozenset(first)
        self.eps = eps
        self.total = total
        self.known = known


UNKNOWN = First(ALL, eps=True, total=False, known=False)


def lit_bytes(n):
    n = A.strip(n)
    s = A.lit_str(n)
    if s is None:
        return None
    if n.get("t") == "bstr":
        return bytes(ord(c) for c in s)
    return s.encode("utf-8")


class Grammar:
    def __init__(self, tree):
        self.tree = tree
        self.cache = {}

    def fn_first(self, module, name, depth=0):
        key = (module, name)
        if key in self.cache:
            return self.cache[key]
        self.cache[key] = UNKNOWN
        cands = [f for f in self.tree.fn_list if f["path"] == f"{module}::{name}"]
        if not cands:
            cands = [f for f in self.tree.fn_list if f["path"].startswith("parser::") and f["path"].endswith("::" + name) and "<" not in f["path"]]
        if len(cands) != 1 or depth > 6:
            return UNKNOWN
        f = cands[0]
        mod = f["path"].rsplit("::", 1)[0]
        stmts = f["body"]["stmts"]
        res = UNKNOWN
        if stmts:
            s0 = stmts[0]
            x = A.strip(s0.get("init") if s0.get("s") == "let" else s0.get("x") or {})
            if isinstance(x, dict) and x.get("e") == "try":
                x = A.strip(x["x"])
            # `P.parse(input)` or `P(input)`
            if isinstance(x, dict) and x.get("e") == "mcall" and x["m"] == "parse":
                res = self.first(x["recv"], mod, depth + 1)
            elif isinstance(x, dict) and x.get("e") == "call" and len(x["args"]) == 1 and A.show(x["args"][0]).strip() == "input":
                res = self.first(x["f"], mod, depth + 1)
            # only the first parser decides FIRST; later steps may still fail
            if len(stmts) > 1:
                res = First(res.first, res.eps, False, res.known)
        self.cache[key] = res
        return res

    def first(self, n, module, depth=0):
        n = A.strip(n)
        if not isinstance(n, dict) or depth > 12:
            return UNKNOWN
        e = n.get("e")
        if e == "path":
            name = n["p"].rsplit("::", 1)[-1]
            return self.fn_first(module, name, depth)
        if e == "tuple":
            return self.seq(n["xs"], module, depth)
        if e != "call" or n["f"].get("e") != "path":
            return UNKNOWN
        name = n["f"]["p"].rsplit("::", 1)[-1]
        args = n["args"]
        if name in ("tag", "tag_no_case") and args:
            b = lit_bytes(args[0])
            if b is None:
                return UNKNOWN
            if not b:
                return First((), eps=True, total=True)
            fs = {b[0]}
            if name == "tag_no_case":
                fs |= {ord(chr(b[0]).lower()), ord(chr(b[0]).upper())}
            return First(fs, total=(len(b) == 1))
        if name == "char" and args:
            b = lit_bytes(args[0])
            return First({b[0]}, total=True) if b and len(b) == 1 else UNKNOWN
        if name in ("one_of",) and args:
            b = lit_bytes(args[0])
            return First(set(b), total=all(x < 128 for x in b)) if b is not None else UNKNOWN
        if name in ("is_a",) and args:
            b = lit_bytes(args[0])
            return First(set(b), total=True) if b is not None else UNKNOWN
        if name in ("is_not", "none_of") and args:
            b = lit_bytes(args[0])
            return First(ALL - set(b), total=True) if b is not None else UNKNOWN
        if name in ("value",) and len(args) == 2:
            return self.first(args[1], module, depth + 1)
        if name in ("map", "recognize", "cut", "context", "into", "complete", "peek") and args:
            return self.first(args[0] if name != "context" else args[1], module, depth + 1)
        if name in ("map_res", "map_opt", "verify") and args:
            f = self.first(args[0], module, depth + 1)
            return First(f.first, f.eps, f.total, f.known)   # conversion assumed to succeed on well-formed input (stated)
        if name in ("opt", "many0", "many0_count", "fold_many0") and args:
            f = self.first(args[0], module, depth + 1)
            return First(f.first, eps=True, total=False, known=f.known)
        if name in ("many1", "many1_count", "fold_many1") and args:
            f = self.first(args[0], module, depth + 1)
            return First(f.first, f.eps, False, f.known)
        if name in ("preceded", "pair", "terminated", "separated_pair", "delimited") and args:
            return self.seq(args, module, depth)
        if name == "alt" and args:
            alts = A.strip(args[0])["xs"] if A.strip(args[0]).get("e") == "tuple" else args
            fs, eps, known = set(), False, True
            for a in alts:
                f = self.first(a, module, depth + 1)
                fs |= f.first
                eps |= f.eps
                known &= f.known
            return First(fs, eps, False, known)
        return UNKNOWN

    def seq(self, items, module, depth):
        fs, known = set(), True
        for i, x in enumerate(items):
            f = self.first(x, module, depth + 1)
            fs |= f.first
            known &= f.known
            if not f.eps:
                return First(fs, eps=False, total=(f.total and i == len(items) - 1 and len(items) == 1), known=known)
        return First(fs, eps=True, total=False, known=known)

    def shadowed(self, alt_node, module):
        """indices of alternatives that can never be tried successfully: their FIRST set is covered by
        earlier alternatives that cannot fail on those bytes"""
        alts = A.strip(alt_node["args"][0])
        alts = alts["xs"] if alts.get("e") == "tuple" else alt_node["args"]
        covered = set()
        out = []
        for i, a in enumerate(alts):
            f = self.first(a, module)
            if i > 0 and f.known and not f.eps and f.first and f.first <= covered:
                out.append((i, a, f))
            if f.known and f.total:
                covered |= f.first
        return out
