"""Static evaluation of a boolean guard over a finite enum domain (AST).

`Eval(tree, enum_path).run(expr, env)` evaluates an expression whose leaves are values of one fieldless
enum (here `Operator`): `||`, `&&`, `!`, comparisons (by declaration order, as the derived PartialOrd
does), variant paths, `match` / `matches!` over a variant value with path / or / wildcard patterns,
`if`, method calls on such a value (the method's body is evaluated with `self` bound) and calls of
crate-local functions (parameters bound to the argument values).  Anything else raises Unknown: the
caller reports a lost anchor instead of guessing."""
from lib import ast as A


class Unknown(Exception):
    pass


class Eval:
    def __init__(self, tree, enum_path):
        self.tree = tree
        self.enum_path = enum_path
        en = tree.enums.get(enum_path)
        if not en:
            raise Unknown(f"enum {enum_path} not found")
        self.variants = [v["name"] for v in en["variants"]]
        self.depth = 0

    def run3(self, x, env):
        """Kleene evaluation: like run(), but a sub-expression that cannot be evaluated is `None`
        (unknown) and `&&` / `||` / `!` / blocks with a tail expression combine three-valued."""
        x = A.strip(x)
        e = x.get("e")
        if e == "bin" and x["op"] in ("&&", "||"):
            l, r = self.run3(x["l"], env), self.run3(x["r"], env)
            if x["op"] == "&&":
                return False if (l is False or r is False) else (True if (l is True and r is True) else None)
            return True if (l is True or r is True) else (False if (l is False and r is False) else None)
        if e == "unary" and x["op"] == "!":
            v = self.run3(x["x"], env)
            return None if v is None else (not v)
        if e == "block" and len(x["stmts"]) == 1 and x["stmts"][0].get("s") == "expr" and not x["stmts"][0].get("semi"):
            return self.run3(x["stmts"][0]["x"], env)
        try:
            v = self.run(x, env)
            return v if isinstance(v, bool) else None
        except Unknown:
            return None

    def variant(self, path):
        last = path.rsplit("::", 1)[-1]
        return last if last in self.variants else None

    def run(self, x, env):
        x = A.strip(x)
        e = x.get("e")
        if e == "lit" and x.get("t") == "bool":
            return bool(x["v"])
        if e == "path":
            if x["p"] in env:
                return env[x["p"]]
            v = self.variant(x["p"])
            if v is not None:
                return ("V", v)
            raise Unknown(f"free name {x['p']}")
        if e == "field":
            key = A.show(x).replace(" ", "")
            if key in env:
                return env[key]
            raise Unknown(f"free place {key}")
        if e == "unary" and x["op"] == "!":
            return not self.run(x["x"], env)
        if e == "unary" and x["op"] == "*":
            return self.run(x["x"], env)
        if e == "ref":
            return self.run(x["x"], env)
        if e == "bin":
            op = x["op"]
            if op == "||":
                return self.run(x["l"], env) or self.run(x["r"], env)
            if op == "&&":
                return self.run(x["l"], env) and self.run(x["r"], env)
            l, r = self.run(x["l"], env), self.run(x["r"], env)
            if isinstance(l, tuple) and isinstance(r, tuple):
                a, b = self.variants.index(l[1]), self.variants.index(r[1])
                return {"<": a < b, ">": a > b, "<=": a <= b, ">=": a >= b, "==": a == b, "!=": a != b}[op]
            if isinstance(l, bool) and isinstance(r, bool) and op in ("==", "!="):
                return (l == r) if op == "==" else (l != r)
            raise Unknown(f"operator {op} on {l!r}, {r!r}")
        if e == "block":
            env = dict(env)
            for st in x["stmts"][:-1]:
                if st.get("s") == "let" and st.get("init") is not None and st["pat"].get("p") == "bind":
                    env[st["pat"]["n"]] = self.run(st["init"], env)
                elif st.get("s") == "item":
                    continue
                else:
                    raise Unknown("statement in block")
            last = x["stmts"][-1] if x["stmts"] else None
            if last is None or last.get("s") != "expr" or last.get("semi"):
                raise Unknown("block without tail expression")
            return self.run(last["x"], env)
        if e == "if":
            c = A.strip(x["cond"])
            if c.get("e") == "let":
                raise Unknown("if let")
            return self.run(x["then"], env) if self.run(c, env) else self.run(x["else"], env)
        if e == "match":
            v = self.run(x["on"], env)
            for arm in x["arms"]:
                b = self.bind(arm["pat"], v)
                if b is None:
                    continue
                env2 = dict(env, **b)
                if arm.get("guard") is not None and not self.run(arm["guard"], env2):
                    continue
                return self.run(arm["body"], env2)
            raise Unknown("no arm matched")
        if e == "tuple":
            return ("T", tuple(self.run(y, env) for y in x["xs"]))
        if e == "mcall":
            recv = self.run(x["recv"], env)
            if not (isinstance(recv, tuple) and recv[0] == "V"):
                raise Unknown(f"method {x['m']} on non-enum value")
            ms = [f for f in self.tree.fn_list if f["path"].endswith(f"::{x['m']}") and self.enum_path.rsplit("::", 1)[-1] in f["path"]]
            if len(ms) != 1:
                raise Unknown(f"method {x['m']} of the enum not found")
            return self.call(ms[0], [recv] + [self.run(a, env) for a in x["args"]])
        if e == "call" and A.strip(x["f"]).get("e") == "path":
            name = A.strip(x["f"])["p"].rsplit("::", 1)[-1]
            fs = [f for f in self.tree.fn_list if f["path"].rsplit("::", 1)[-1] == name and env.get("__module__", "") and f["path"].startswith(env["__module__"])]
            if len(fs) != 1:
                raise Unknown(f"function {name} not resolved")
            return self.call(fs[0], [self.run(a, env) for a in x["args"]], env.get("__module__"))
        raise Unknown(f"expression kind {e}")

    def bind(self, pat, v):
        p = pat.get("p")
        if p == "wild":
            return {}
        if p == "bind" and pat.get("sub") is None:
            return {pat["n"]: v}
        if p == "path":
            pv = self.variant(pat["v"])
            return {} if pv is not None and isinstance(v, tuple) and v == ("V", pv) else None
        if p == "or":
            for q in pat["xs"]:
                b = self.bind(q, v)
                if b is not None:
                    return b
            return None
        if p == "lit":
            lv = pat["x"].get("v")
            return {} if v == lv else None
        if p == "tuple" and isinstance(v, tuple) and v[0] == "T" and len(v[1]) == len(pat["xs"]):
            out = {}
            for q, y in zip(pat["xs"], v[1]):
                b = self.bind(q, y)
                if b is None:
                    return None
                out.update(b)
            return out
        if p == "ref":
            return self.bind(pat["x"], v)
        raise Unknown(f"pattern kind {p}")

    def call(self, f, args, module=None):
        self.depth += 1
        if self.depth > 6:
            raise Unknown("recursion")
        try:
            env = {"__module__": module or f["path"].rsplit("::", 2)[0]}
            i = 0
            for prm in f["sig"]["params"]:
                if prm.get("self"):
                    env["self"] = args[i]
                elif prm.get("pat") and prm["pat"].get("n"):
                    env[prm["pat"]["n"]] = args[i]
                else:
                    raise Unknown("parameter pattern")
                i += 1
            return self.run(f["body"], env)
        finally:
            self.depth -= 1
