"""Static evaluation of a comparison-only function over ranks.

A function that touches its numeric arguments only through comparisons, `min` / `max` and selection
behaves the same for every input with the same weak ordering of the arguments.  `run(fn, args)`
evaluates the function's AST with small integers (ranks) for the arguments: `if` / `else`, `&&`, `||`,
`!`, the six comparisons, `let` with identifier and tuple patterns, tuples, integer literals, `.min()` /
`.max()` (also `f64::min(a, b)` / `f64::max(a, b)`), blocks and `match` on a boolean.  Anything else raises Unknown."""
from lib import ast as A


class Unknown(Exception):
    pass


def run(fn, args):
    env = {}
    i = 0
    for prm in fn["sig"]["params"]:
        if prm.get("pat") and prm["pat"].get("n"):
            env[prm["pat"]["n"]] = args[i]
            i += 1
        else:
            raise Unknown("parameter pattern")
    return ev(fn["body"], env)


def bind(pat, v, env):
    p = pat.get("p")
    if p == "bind" and pat.get("sub") is None:
        env[pat["n"]] = v
    elif p == "tuple" and isinstance(v, tuple) and len(v) == len(pat["xs"]):
        for q, y in zip(pat["xs"], v):
            bind(q, y, env)
    elif p == "wild":
        pass
    else:
        raise Unknown(f"pattern {p}")


def ev(x, env):
    x = A.strip(x)
    e = x.get("e")
    if e == "path":
        if x["p"] in env:
            return env[x["p"]]
        raise Unknown(f"free name {x['p']}")
    if e == "lit" and x.get("t") == "int":
        return ("lit", int(x["v"]))
    if e == "lit" and x.get("t") == "bool":
        return bool(x["v"])
    if e == "tuple":
        return tuple(ev(y, env) for y in x["xs"])
    if e == "unary" and x["op"] == "!":
        return not ev(x["x"], env)
    if e == "bin":
        op = x["op"]
        if op == "&&":
            return ev(x["l"], env) and ev(x["r"], env)
        if op == "||":
            return ev(x["l"], env) or ev(x["r"], env)
        l, r = ev(x["l"], env), ev(x["r"], env)
        if isinstance(l, int) and isinstance(r, int) and not isinstance(l, bool) and op in ("<", ">", "<=", ">=", "==", "!="):
            return {"<": l < r, ">": l > r, "<=": l <= r, ">=": l >= r, "==": l == r, "!=": l != r}[op]
        raise Unknown(f"operator {op}")
    if e == "if":
        c = A.strip(x["cond"])
        if c.get("e") == "let":
            raise Unknown("if let")
        if ev(c, env):
            return ev(x["then"], env)
        if x.get("else") is None:
            raise Unknown("if without else as a value")
        return ev(x["else"], env)
    if e == "match":
        v = ev(x["on"], env)
        for arm in x["arms"]:
            pt = arm["pat"]
            if pt.get("p") == "wild" or (pt.get("p") == "lit" and pt["x"].get("v") == v):
                if arm.get("guard") is None or ev(arm["guard"], env):
                    return ev(arm["body"], env)
        raise Unknown("match")
    if e == "block":
        env = dict(env)
        stmts = x["stmts"]
        for st in stmts[:-1]:
            if st.get("s") == "let" and st.get("init") is not None:
                bind(st["pat"], ev(st["init"], env), env)
            elif st.get("s") == "item":
                continue
            else:
                raise Unknown("statement")
        last = stmts[-1] if stmts else None
        if last is None or last.get("s") != "expr" or last.get("semi"):
            raise Unknown("no tail expression")
        return ev(last["x"], env)
    if e == "mcall" and x["m"] in ("min", "max") and len(x["args"]) == 1:
        a, b = ev(x["recv"], env), ev(x["args"][0], env)
        if isinstance(a, int) and isinstance(b, int):
            return min(a, b) if x["m"] == "min" else max(a, b)
        raise Unknown("min/max of non-rank")
    if e == "call" and A.strip(x["f"]).get("e") == "path" and A.strip(x["f"])["p"].rsplit("::", 1)[-1] in ("min", "max") and len(x["args"]) == 2:
        a, b = ev(x["args"][0], env), ev(x["args"][1], env)
        if isinstance(a, int) and isinstance(b, int):
            return min(a, b) if A.strip(x["f"])["p"].endswith("min") else max(a, b)
        raise Unknown("min/max of non-rank")
    raise Unknown(f"expression kind {e}")
