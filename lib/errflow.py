"""F2 — error flow: what happens to every `Result<_, E>` produced by a call.

For each call whose destination is a top-level `Result<_, E>` (E not a nom parser
error) the destination local is followed through moves, reborrows and
discriminant reads inside the body, and every *consumer* is classified:

  propagate   `?` (Try::branch whose residual reaches `_0`), move into `_0`,
              hand-written match whose Err edge writes an Err / the value into `_0`
  transfer    passed to a call that itself returns a tracked Result (map_err, at, ...)
  panics      unwrap / expect (C01's subject, not an absorption)
  escape      stored in an aggregate / passed to some other function
  absorb      ok(), unwrap_or*, is_ok, is_err, err(), iterating a Result, a match or
              `if let` whose Err edge reaches a normal return without producing an
              error, a value that is dropped or never read
"""
import re
from collections import defaultdict

from .mir import callee_name, callee_orig


def split_generics(ty):
    """'A<B, C<D, E>>' -> ('A', ['B', 'C<D, E>'])"""
    i = ty.find("<")
    if i < 0 or not ty.endswith(">"):
        return ty, []
    head = ty[:i]
    inner = ty[i + 1:-1]
    args, depth, cur = [], 0, ""
    for ch in inner:
        if ch in "<([":
            depth += 1
        elif ch in ">)]":
            depth -= 1
        if ch == "," and depth == 0:
            args.append(cur.strip())
            cur = ""
        else:
            cur += ch
    if cur.strip():
        args.append(cur.strip())
    return head, args


def result_err(ty):
    """Error type of a top-level Result type string, else None."""
    if not ty.startswith("std::result::Result<"):
        return None
    head, args = split_generics(ty)
    if head != "std::result::Result" or len(args) != 2:
        return None
    return args[1]


def interesting_err(e):
    if e is None:
        return False
    if e.startswith("nom::") or e.startswith("nom_language::"):
        return False
    if e in ("!", "std::convert::Infallible", "()"):
        return False
    # results that cannot carry an evaluation / loader failure: `Path::strip_prefix` (picks a display name),
    # `binary_search` (Err is the insertion index)
    if e in ("std::path::StripPrefixError", "usize"):
        return False
    return True


ABSORB_METHODS = {
    "ok", "err", "is_ok", "is_err", "unwrap_or", "unwrap_or_else", "unwrap_or_default", "map_or", "map_or_else",
    "is_ok_and", "is_err_and", "iter", "iter_mut", "into_iter", "unwrap_err", "expect_err", "into_ok", "into_err",
}
PANIC_METHODS = {"unwrap", "expect"}
KEEP_METHODS = {"map", "map_err", "and_then", "inspect", "inspect_err", "as_ref", "as_mut", "as_deref", "as_deref_mut",
                "copied", "cloned", "transpose", "flatten", "and", "clone"}
COND_METHODS = {"or_else", "or"}


def result_method(name):
    """'<std::result::Result<T, E>>::map_err' -> 'map_err' when it is an inherent Result method."""
    if name is None:
        return None
    m = re.match(r"^<std::result::Result<.*>>::(\w+)$", name)
    if m:
        return m.group(1)
    return None


class Site:
    __slots__ = ("body", "bb", "callee", "err", "consumers", "line")

    def __init__(self, body, bb, callee, err, line):
        self.body = body
        self.bb = bb
        self.callee = callee
        self.err = err
        self.consumers = []
        self.line = line


def _uses_of(body):
    """local -> list of use records."""
    uses = defaultdict(list)
    for bi, blk in enumerate(body.blocks):
        for si, s in enumerate(blk["stmts"]):
            if s["k"] != "assign":
                continue
            rv = s["rv"]
            k = rv["k"]
            if k in ("ref", "discr", "rawptr"):
                uses[rv["p"][0]].append(("stmt", bi, si, s, k, rv["p"][1]))
            for oi, o in enumerate(rv.get("ops", []) or []):
                if o["k"] in ("copy", "move"):
                    uses[o["p"][0]].append(("stmt", bi, si, s, k, o["p"][1]))
            # writes *through* a projection of a local count as uses of it as a container
        t = blk["term"]
        tk = t["k"]
        if tk == "call":
            for ai, o in enumerate(t["args"]):
                if o["k"] in ("copy", "move"):
                    uses[o["p"][0]].append(("arg", bi, ai, t, None, o["p"][1]))
            c = t["callee"]
            if c.get("indirect") and c["op"]["k"] in ("copy", "move"):
                uses[c["op"]["p"][0]].append(("callee", bi, 0, t, None, c["op"]["p"][1]))
        elif tk == "drop":
            uses[t["p"][0]].append(("drop", bi, 0, t, None, t["p"][1]))
        elif tk == "switch":
            o = t["discr"]
            if o["k"] in ("copy", "move"):
                uses[o["p"][0]].append(("switch", bi, 0, t, None, o["p"][1]))
        elif tk == "assert":
            o = t["cond"]
            if o["k"] in ("copy", "move"):
                uses[o["p"][0]].append(("assert", bi, 0, t, None, o["p"][1]))
    return uses


def derived_from(body, roots):
    """Flow-insensitive forward closure: locals whose value is computed from `roots`."""
    derived = set(roots)
    changed = True
    while changed:
        changed = False
        for bi, blk in enumerate(body.blocks):
            for s in blk["stmts"]:
                if s["k"] != "assign":
                    continue
                tgt = s["p"][0]
                if tgt in derived:
                    continue
                rv = s["rv"]
                srcs = []
                if rv["k"] in ("ref", "discr", "rawptr"):
                    srcs.append(rv["p"][0])
                for o in rv.get("ops", []) or []:
                    if o["k"] in ("copy", "move"):
                        srcs.append(o["p"][0])
                if any(x in derived for x in srcs) and rv["k"] != "discr":
                    derived.add(tgt)
                    changed = True
            t = blk["term"]
            if t["k"] == "call":
                tgt = t["dest"][0]
                if tgt not in derived and any(o["k"] in ("copy", "move") and o["p"][0] in derived for o in t["args"]):
                    derived.add(tgt)
                    changed = True
    return derived


def _writes_error_to_ret(body, bi, derived, ret_is_result):
    """Does block bi make the function fail: an explicit `Err(..)` into `_0`, or `_0`
    computed from the tracked Result / its error payload?"""
    if not ret_is_result:
        return False
    blk = body.blocks[bi]
    for s in blk["stmts"]:
        if s["k"] == "assign" and s["p"][0] == 0:
            rv = s["rv"]
            if rv["k"] == "agg" and rv.get("agg") == "adt" and rv.get("adt", "").endswith("result::Result"):
                if rv.get("variant") == "Err":
                    return True
                continue
            for o in rv.get("ops", []) or []:
                if o["k"] in ("copy", "move") and o["p"][0] in derived:
                    return True
    t = blk["term"]
    if t["k"] == "call" and t["dest"][0] == 0:
        if any(o["k"] in ("copy", "move") and o["p"][0] in derived for o in t["args"]):
            return True
    return False


def _diverges(body, bi):
    t = body.blocks[bi]["term"]
    return t["k"] in ("unreachable", "resume", "abort") or (t["k"] == "call" and t.get("target") is None)


def err_edge_absorbs(body, start, ret_is_result, derived):
    """Is there a path from block `start` to a `return` that produces no error into `_0`?
    Returns the offending path (list of blocks) or None."""
    sm = body.succ_map()
    stack = [(start, (start,))]
    seen = set()
    while stack:
        b, path = stack.pop()
        if b in seen:
            continue
        seen.add(b)
        if _writes_error_to_ret(body, b, derived, ret_is_result):
            continue
        t = body.blocks[b]["term"]
        if t["k"] == "return":
            return list(path)
        if _diverges(body, b):
            continue
        for s in sm[b]:
            if s not in seen:
                stack.append((s, path + (s,)))
    return None


ITER_DROPPING = {
    # Iterator adapters that use `IntoIterator for Result` / Option and thereby drop every Err
    "std::iter::Iterator::flatten": "Iterator::flatten over Result items drops every Err",
}
ITER_CLOSURE_DROPPING = {
    # adapters whose closure result is flattened: a closure returning Result loses its Err
    "std::iter::Iterator::flat_map": "Iterator::flat_map with a closure returning Result drops every Err",
}
ABSORBING_FN_VALUES = {"ok", "err", "is_ok", "is_err", "unwrap_or_default"}


def analyse_body(body):
    """Return the list of Result-producing sites with classified consumers."""
    sites = []
    uses = None
    # also `Option<Result<T, E>>` and the like (closures of find_map(..).transpose()): an Err that is moved into
    # the returned value is handed to the caller, not absorbed
    ret_is_result = result_err(body.ret or "") is not None or "result::Result<" in (body.ret or "")
    origins = []  # (local, bb, callee-or-origin-name, err, line)
    for bi, t in body.calls():
        # --- iterator adapters that silently drop Err items
        o = callee_orig(t)
        item = t.get("item_ty")
        if o in ITER_DROPPING and item and interesting_err(result_err(item)):
            site = Site(body, bi, o, result_err(item), t.get("line"))
            site.consumers.append(("absorb", ITER_DROPPING[o], bi, None))
            sites.append(site)
        if o in ITER_CLOSURE_DROPPING:
            for defs in t.get("arg_defs", []):
                for d in defs[:1]:   # the argument's own closure (pre-order walk: outermost first)
                    cb = body.prog.bodies.get(d)
                    if cb is not None and interesting_err(result_err(cb.ret or "")):
                        site = Site(body, bi, o, result_err(cb.ret), t.get("line"))
                        site.consumers.append(("absorb", ITER_CLOSURE_DROPPING[o], bi, None))
                        sites.append(site)
        # --- `Result::ok` & co passed as function values (filter_map(Result::ok), map_while(Result::ok))
        for a in t["args"]:
            if a["k"] == "const" and "fn" in a:
                rm = result_method(a["fn"].get("def")) or result_method(a["fn"].get("orig"))
                if rm in ABSORBING_FN_VALUES:
                    gargs = a["fn"].get("gargs", [])
                    err = gargs[1] if len(gargs) > 1 else "?"
                    if interesting_err(err):
                        site = Site(body, bi, callee_name(t) or "?", err, t.get("line"))
                        site.consumers.append(("absorb", f"Result::{rm} passed as a function value", bi, None))
                        sites.append(site)
        err = result_err(t.get("dest_ty", ""))
        if not interesting_err(err):
            continue
        dest = t["dest"]
        name = callee_name(t) or ("<indirect:" + t["callee"].get("ty", "?") + ">")
        if dest[1]:
            site = Site(body, bi, name, err, t.get("line"))
            site.consumers.append(("escape", "stored-into-place", bi, None))
            sites.append(site)
            continue
        if dest[0] == 0:
            site = Site(body, bi, name, err, t.get("line"))
            site.consumers.append(("propagate", "returned", bi, None))
            sites.append(site)
            continue
        origins.append((dest[0], bi, name, err, t.get("line")))
    # --- Results extracted from a container (Option<Result>, tuples, fields): `_r = move (_x as Some).0`
    call_dests = {o[0] for o in origins}
    for bi, si, s in body.stmts():
        if s["k"] != "assign" or s["p"][1] or s["p"][0] == 0:
            continue
        rv = s["rv"]
        if rv["k"] != "use" or not rv["ops"] or rv["ops"][0]["k"] not in ("copy", "move"):
            continue
        src = rv["ops"][0]["p"]
        if not src[1]:
            continue
        l = s["p"][0]
        err = result_err(body.local_ty(l))
        if not interesting_err(err) or l in call_dests:
            continue
        # skip payload moves out of a Result itself (`(_r as Ok).0` is not a Result unless nested)
        origins.append((l, bi, "<extracted from " + _proj_descr(src) + ">", err, s.get("line")))
    # --- closure parameters of Result type (e.g. `.map(|r| ...)`, `.for_each(|r| ...)`)
    if body.kind == "Closure":
        for l in range(2, body.argc + 1):
            err = result_err(body.local_ty(l))
            if interesting_err(err):
                origins.append((l, 0, "<closure parameter>", err, body.line))
    seen_locals = set()
    for l, bi, name, err, line in origins:
        if (l, bi) in seen_locals:
            continue
        seen_locals.add((l, bi))
        if uses is None:
            uses = _uses_of(body)
        site = Site(body, bi, name, err, line)
        _follow(body, uses, l, site, ret_is_result)
        sites.append(site)
    return sites


def _proj_descr(p):
    return "".join(x if x.startswith(".") or x.startswith("[") else ("(" + x + ")") for x in p[1] if x != "*") or "place"


def _follow(body, uses, start_local, site, ret_is_result):
    tracked = {start_local: "val"}
    work = [start_local]
    seen_use = set()
    any_real_use = False
    drops = []
    while work:
        l = work.pop()
        for u in uses.get(l, []):
            kind, bi, idx, node, rk, proj = u
            uid = (kind, bi, idx, l)
            if uid in seen_use:
                continue
            seen_use.add(uid)
            # projections: (L as Ok).0 payload extraction etc.  `*` deref of a tracked ref is transparent.
            pr = [p for p in proj if p != "*"]
            if kind == "drop":
                drops.append((bi, node))
                continue
            if kind == "stmt":
                s = node
                if rk == "discr":
                    any_real_use = True
                    if not pr:
                        _classify_match(body, bi, s, site, ret_is_result, set(tracked))
                    continue
                if pr:
                    # payload access (after a discriminant test) – not a consumer by itself
                    any_real_use = True
                    continue
                if rk == "ref":
                    tgt = s["p"]
                    if not tgt[1]:
                        tracked[tgt[0]] = "ref"
                        work.append(tgt[0])
                    else:
                        site.consumers.append(("escape", "ref-stored", bi, None))
                    any_real_use = True
                    continue
                if rk == "use":
                    tgt = s["p"]
                    any_real_use = True
                    if tgt[0] == 0 and not tgt[1]:
                        site.consumers.append(("propagate", "returned", bi, None))
                    elif not tgt[1]:
                        tracked[tgt[0]] = tracked[l]
                        work.append(tgt[0])
                    else:
                        site.consumers.append(("escape", "stored-into-place", bi, None))
                    continue
                if rk == "agg":
                    any_real_use = True
                    tgt = s["p"]
                    if tgt[0] == 0:
                        site.consumers.append(("propagate", "returned-in-aggregate", bi, None))
                    else:
                        site.consumers.append(("escape", "aggregate", bi, None))
                    continue
                any_real_use = True
                site.consumers.append(("escape", "rvalue:" + str(rk), bi, None))
                continue
            if kind == "arg":
                any_real_use = True
                t = node
                if pr:
                    continue
                cname = callee_name(t)
                corig = callee_orig(t)
                dest_err = result_err(t.get("dest_ty", ""))
                last = (corig or "").rsplit("::", 1)[-1]
                if corig == "std::ops::Try::branch":
                    _classify_try(body, bi, t, site)
                    continue
                rm = result_method(cname) or result_method(corig)
                if rm in PANIC_METHODS:
                    site.consumers.append(("panics", rm, bi, None))
                    continue
                if rm in ABSORB_METHODS:
                    site.consumers.append(("absorb", "Result::" + rm, bi, None))
                    continue
                if rm in COND_METHODS:
                    site.consumers.append(("absorb", "Result::" + rm + " (error handed to a fallback)", bi, None))
                    continue
                if corig in ("std::iter::IntoIterator::into_iter", "std::mem::drop"):
                    site.consumers.append(("absorb", corig, bi, None))
                    continue
                if interesting_err(dest_err):
                    # the callee returns a tracked Result itself: that call is its own site
                    site.consumers.append(("transfer", cname or "?", bi, None))
                    continue
                if rm in KEEP_METHODS:
                    site.consumers.append(("transfer", "Result::" + rm, bi, None))
                    continue
                if tracked[l] == "ref" and last in ("fmt", "eq", "ne", "clone", "is_ok", "is_err"):
                    if last in ("is_ok", "is_err"):
                        site.consumers.append(("absorb", "Result::" + last, bi, None))
                    continue
                site.consumers.append(("escape", "arg-of:" + (cname or "?"), bi, None))
                continue
            if kind in ("switch", "assert", "callee"):
                any_real_use = True
                continue
    if not any_real_use:
        if drops:
            site.consumers.append(("absorb", "dropped-unread", drops[0][0], None))
        else:
            site.consumers.append(("absorb", "never-read", site.bb, None))


def _classify_try(body, bi, t, site):
    """`?`: the Break edge must reach `from_residual` into `_0`."""
    cf = t["dest"]
    tgt = t.get("target")
    if tgt is None:
        site.consumers.append(("propagate", "?", bi, None))
        return
    # find the switch on discriminant(cf) reachable straight from tgt
    b = tgt
    hops = 0
    while hops < 4:
        term = body.blocks[b]["term"]
        if term["k"] == "switch":
            break
        if term["k"] == "goto":
            b = term["target"]
            hops += 1
            continue
        break
    term = body.blocks[b]["term"]
    if term["k"] != "switch":
        site.consumers.append(("propagate", "?(unrecognised shape)", bi, None))
        return
    brk = None
    for val, target, name in term["targets"]:
        if name == "Break":
            brk = target
    if brk is None:
        # `Continue` listed, Break = otherwise
        names = [n for _, _, n in term["targets"]]
        if "Continue" in names:
            brk = term["otherwise"]
    if brk is None:
        site.consumers.append(("propagate", "?(unrecognised shape)", bi, None))
        return
    # walk from brk to the from_residual call
    b = brk
    for _ in range(6):
        term = body.blocks[b]["term"]
        if term["k"] == "call":
            if callee_orig(term) == "std::ops::FromResidual::from_residual":
                if term["dest"][0] == 0 and not term["dest"][1]:
                    site.consumers.append(("propagate", "?", bi, None))
                else:
                    site.consumers.append(("escape", "?-into-local (try block)", bi, None))
                return
            break
        if term["k"] == "goto":
            b = term["target"]
            continue
        break
    site.consumers.append(("propagate", "?(unrecognised shape)", bi, None))


def is_drop_ladder(body, start):
    """Drop elaboration re-reads discriminants to decide what is left to drop.  Such a
    ladder consists only of discriminant reads, drop-flag switches, drops, gotos and
    the final return/resume: no calls and no other assignments."""
    sm = body.succ_map()
    seen = set()
    stack = [start]
    while stack:
        b = stack.pop()
        if b in seen:
            continue
        seen.add(b)
        blk = body.blocks[b]
        for st in blk["stmts"]:
            if st["k"] != "assign":
                return False
            rv = st["rv"]
            if rv["k"] == "discr":
                continue
            # drop-flag bookkeeping: `_flag = const false`
            if (rv["k"] == "use" and rv["ops"] and rv["ops"][0]["k"] == "const" and not st["p"][1]
                    and body.local_ty(st["p"][0]) == "bool" and st["p"][0] > body.argc
                    and body.local_name(st["p"][0]) is None):
                continue
            return False
        t = blk["term"]
        if t["k"] not in ("drop", "goto", "switch", "return", "resume"):
            return False
        stack.extend(sm[b])
    return True


def _classify_match(body, bi, s, site, ret_is_result, tracked):
    """A hand-written discriminant read: where does the Err edge go?"""
    dl = s["p"][0]
    if is_drop_ladder(body, bi):
        return
    term = body.blocks[bi]["term"]
    if term["k"] != "switch" or term["discr"].get("p", [None])[0] != dl:
        site.consumers.append(("escape", "discriminant-read", bi, None))
        return
    names = {n: tgt for _, tgt, n in term["targets"]}
    if "Err" in names:
        err_t = names["Err"]
    elif "Ok" in names:
        err_t = term["otherwise"]
    else:
        site.consumers.append(("escape", "discriminant-read", bi, None))
        return
    if body.blocks[err_t]["term"]["k"] == "unreachable" and not body.blocks[err_t]["stmts"]:
        # otherwise-edge of an exhaustive match
        if "Err" not in names:
            site.consumers.append(("propagate", "match(no Err edge)", bi, None))
            return
    derived = derived_from(body, tracked)
    path = err_edge_absorbs(body, err_t, ret_is_result, derived)
    if path is None:
        site.consumers.append(("propagate", "match/if-let: Err edge produces an error", bi, None))
    else:
        site.consumers.append(("absorb", "match/if-let: Err edge reaches a normal return", bi, path))


def verdict(site):
    kinds = [c[0] for c in site.consumers]
    if "absorb" in kinds:
        return "absorb"
    if "escape" in kinds:
        return "escape"
    if "panics" in kinds and "propagate" not in kinds and "transfer" not in kinds:
        return "panics"
    return "propagate"
