"""Check context: obligations, violations, known findings, evidence."""
import json
import os
import sys
import time

VERIF = os.path.dirname(os.path.dirname(os.path.abspath(__file__)))


class Broken(Exception):
    """The checker itself cannot do its job (exit 2, never a VIOLATION)."""


class Ctx:
    def __init__(self, pid, tier):
        self.pid = pid
        self.tier = tier
        self.t0 = time.time()
        self.seed = int(os.environ.get("VERIF_SEED", "0") or 0)
        self.obligations = []   # (rule, key, status, detail)
        self.violations = []    # dicts
        self.known_hits = []    # dicts
        self.notes = []
        self.samples = []
        self.floors = {}
        self.counters = {}
        self.assumptions = []
        self.explanation = ""
        self.units = {}
        self.extra = {}
        kf = json.load(open(os.path.join(VERIF, "known_findings.json")))
        self.known = {}
        for f in kf.get("findings", []):
            if f["property"] == pid:
                self.known[f["key"]] = f
        self.fixed = [f for f in kf.get("fixed", []) if f.get("property") == pid]
        self.known_seen = set()

    # ---- recording
    def ok(self, rule, key, detail=None, status="discharged"):
        self.obligations.append((rule, key, status))
        if detail is not None and len(self.samples) < 40:
            self.samples.append({"rule": rule, "instance": key, "status": status, "detail": detail})

    def reviewed(self, rule, key, reason):
        self.obligations.append((rule, key, "reviewed"))
        if len(self.samples) < 40:
            self.samples.append({"rule": rule, "instance": key, "status": "reviewed", "reason": reason})

    def fail(self, rule, key, message, where=None, path=None, extra=None):
        """A rule instance does not hold. Known finding (by exact key) or violation."""
        full_key = f"{rule}:{key}"
        rec = {"property": self.pid, "rule": rule, "instance": key, "key": full_key, "message": message,
               "where": where, "path": path}
        if extra:
            rec.update(extra)
        if full_key in self.known:
            self.known_seen.add(full_key)
            rec["known"] = self.known[full_key].get("what", "")
            self.known_hits.append(rec)
            self.obligations.append((rule, key, "known-finding"))
        else:
            self.violations.append(rec)
            self.obligations.append((rule, key, "violation"))

    def floor(self, name, actual, minimum):
        """Fail closed when fewer instances than counted by hand are found."""
        self.floors[name] = {"found": actual, "floor": minimum}
        if actual < minimum:
            self.fail("anchor-lost", name, f"rule subject shrank: found {actual}, floor {minimum} (anchor renamed/removed?)")
            return False
        return True

    def anchor_lost(self, name, why):
        self.fail("anchor-lost", name, why)

    def count(self, name, n=1):
        self.counters[name] = self.counters.get(name, 0) + n

    def note(self, s):
        self.notes.append(s)

    # ---- finishing
    def finish(self):
        ev_dir = os.environ.get("VERIF_EVIDENCE_DIR") or os.path.join(VERIF, "evidence")
        os.makedirs(os.path.join(ev_dir, "replay"), exist_ok=True)
        import glob
        for old in glob.glob(os.path.join(ev_dir, "replay", f"{self.pid}-*.json")):
            os.unlink(old)
        lines = []
        for h in self.known_hits:
            lines.append(f"KNOWN-FINDING: property={self.pid} {h['key']} — {h['message']}" + (f" [{h['where']}]" if h.get("where") else ""))
        for n, v in enumerate(self.violations):
            rp = os.path.join(ev_dir, "replay", f"{self.pid}-{n}.json")
            with open(rp, "w") as f:
                json.dump(v, f, indent=1)
            lines.append(f"VIOLATION property={self.pid} replay={rp}")
            lines.append(f"  rule={v['rule']} instance={v['instance']}" + (f" at {v['where']}" if v.get("where") else ""))
            lines.append(f"  {v['message']}")
            if v.get("path"):
                lines.append("  path: " + " -> ".join(v["path"]))
        n_obl = len(self.obligations)
        n_ok = sum(1 for o in self.obligations if o[2] in ("discharged", "reviewed"))
        distinct = len({(o[0], o[1]) for o in self.obligations})
        wall = round(time.time() - self.t0, 3)
        by_status = {}
        for o in self.obligations:
            by_status[o[2]] = by_status.get(o[2], 0) + 1
        by_rule = {}
        for o in self.obligations:
            by_rule[o[0]] = by_rule.get(o[0], 0) + 1
        cov = {
            "explanation": self.explanation or "static analysis of /repo's current source (see DESIGN.md)",
            "evaluations": max(n_obl, 1),
            "distinct_nontrivial": distinct,
            "rule": "one evaluation = one rule instance (call site / table row / path obligation) decided on the facts extracted from the current tree; distinct = distinct (rule, instance-key) pairs",
            "obligations": n_obl,
            "discharged": n_ok,
            "by_status": by_status,
            "by_rule": by_rule,
            "samples": self.samples[:40] or [{"note": "no instance"}],
            "floors": self.floors,
            "counters": self.counters,
            "units": self.units,
            "known_findings": [h["key"] for h in self.known_hits],
            "checker_cmd": f"./check {self.pid} --tier {self.tier}",
            "trusted_base": ["rustc nightly MIR construction and trait resolution", "syn 2 parser over -Zunpretty=expanded", "rule code under /verif/rules and /verif/lib", "oracle and reviewed-instance tables under /verif/tables"],
            "exhaustive": True,
            "notes": self.notes,
        }
        cov.update(self.extra)
        ev = {
            "property_id": self.pid,
            "tier": self.tier,
            "seed": self.seed,
            "level": "other",
            "coverage": cov,
            "assumptions": self.assumptions,
            "wall_s": wall,
            "violations": len(self.violations),
        }
        with open(os.path.join(ev_dir, f"{self.pid}.json"), "w") as f:
            json.dump(ev, f, indent=1)
        print(f"[{self.pid}] tier={self.tier} obligations={n_obl} ok={n_ok} known={len(self.known_hits)} violations={len(self.violations)} wall={wall}s")
        for k, v in sorted(self.floors.items()):
            print(f"  floor {k}: found {v['found']} (>= {v['floor']})")
        for l in lines:
            print(l)
        # stale known findings are only noted (the defect may have been repaired)
        for k in self.known:
            if k not in self.known_seen:
                print(f"  note: listed known finding not observed on this tree: {k}")
        return 1 if self.violations else 0
